/-
Model of the discrete motion check:
  * `DiscreteMotionValidator::checkMotion` (both forms), src/ompl/base/src/DiscreteMotionValidator.cpp
  * `DubinsMotionValidator`, `ReedsSheppMotionValidator`, `Dubins3DMotionValidator<_>` (the same two
    functions with a cached path), spaces/src/DubinsStateSpace.cpp, ReedsSheppStateSpace.cpp,
    spaces/Dubins3DMotionValidator.h
  * `StateSpace::validSegmentCount`, `CompoundStateSpace::validSegmentCount`
  * `SpaceInformation::checkMotion(states, count[, firstInvalidStateIndex])`

Core Lean only (no Mathlib): linked into the native driver `drv_motion`.

Abstractions (the correspondence run checks them, they are not assumed silently):
* validity is a predicate on *subdivision indices*, `v : Nat → Bool`: `v j` is the validity of
  `interpolate(s1, s2, j/n)` for `1 ≤ j < n` and `v n` is the validity of `s2` itself
  (for `n = 0` the only index is `0`, the end state).  For the state-list helper `v i` is the
  validity of `states[i]`.
* the model returns the *index* `j` at which the check failed; the code stores
  `lastValid.second = (double)(j-1)/(double)nd` and `lastValid.first = interpolate(s1,s2,that)`.
  The fraction is `fracOf j n` = `(j - 1)/n`, and `0` for `n = 0` (before the F124 fix e0f5863f3: `-1/0`).
* `int`/`unsigned int` are `Nat` (assumption: the segment count is below 2^31).
* `interpolate`, `distance`, `isValid` are oracles (C07/C06's business); the cached Dubins path
  only matters through `pathOk` (Dubins3D `getPath` may fail).
-/
namespace OmplModel.Motion

/-- what one `checkMotion` call did. -/
structure Result where
  /-- the returned verdict -/
  verdict : Bool
  /-- `some j`: `lastValid` was written, with fraction `(j-1)/n`; `none`: left untouched -/
  failAt : Option Nat
  /-- the subdivision indices handed to `isValid`, in call order -/
  queries : List Nat
  /-- increments of `valid_` and `invalid_` -/
  dValid : Nat
  dInvalid : Nat
deriving Repr, DecidableEq

/-! ### segment count -/

/-- `⌈a / b⌉` as an unsigned integer, for whatever number type the model runs at. -/
class SegNum (α : Type) where
  ceilDiv : α → α → Nat

/-- `(unsigned int)ceil(distance / longestValidSegment_)` at `double`. -/
instance : SegNum Float := ⟨fun a b => (Float.ceil (a / b)).toUInt32.toNat⟩

/-- `StateSpace::validSegmentCount`:
`longestValidSegmentCountFactor_ * (unsigned int)ceil(distance(s1, s2) / longestValidSegment_)`. -/
def segCount {α : Type} [SegNum α] (factor : Nat) (dist L : α) : Nat :=
  factor * SegNum.ceilDiv dist L

/-- `CompoundStateSpace::validSegmentCount`: `sc = 0; for each component: if (sci > sc) sc = sci`. -/
def compoundSegCount (cs : List Nat) : Nat :=
  cs.foldl (fun sc sci => if sci > sc then sci else sc) 0

/-! ### three-argument form (linear scan, reports the last valid fraction) -/

/-- `for (j = …; j < nd; ++j)`: `linScan v j k` runs the `k` remaining iterations starting at
index `j`.  Returns the indices queried and the index at which the scan broke off, if any. -/
def linScan (v : Nat → Bool) (j : Nat) : Nat → List Nat × Option Nat
  | 0 => ([], none)
  | k + 1 =>
    if v j then
      let r := linScan v (j + 1) k
      (j :: r.1, r.2)
    else ([j], some j)

/-- `checkMotion(s1, s2, lastValid)`. -/
def checkLinear (n : Nat) (v : Nat → Bool) : Result :=
  let r := if 1 < n then linScan v 1 (n - 1) else ([], none)
  match r.2 with
  | some j => ⟨false, some j, r.1, 0, 1⟩
  | none =>
    if v n then ⟨true, none, r.1 ++ [n], 1, 0⟩
    else ⟨false, some n, r.1 ++ [n], 0, 1⟩

/-- numerator of the reported fraction: `(double)(j - 1)` with `int j`. -/
def fracNum (j : Nat) : Int := (j : Int) - 1

/-- the reported fraction as `(numerator, denominator)`, as coded since the F124 fix (e0f5863f3):
`nd > 0 ? (double)(j - 1) / (double)nd : 0.0` (a zero-length motion has one point, the fraction 0). -/
def fracOf (j n : Nat) : Int × Nat := if n = 0 then (0, 1) else (fracNum j, n)

/-- `lastValid.second` as an exact fraction `(numerator, denominator)`. -/
def Result.lastValid (r : Result) (n : Nat) : Option (Int × Nat) :=
  r.failAt.map (fun j => fracOf j n)

/-- the same before the F124 fix (e0f5863f3): `(double)(j - 1) / (double)nd` also for `nd = 0`, i.e. `-1/0`. -/
def Result.lastValidOld (r : Result) (n : Nat) : Option (Int × Nat) :=
  r.failAt.map (fun j => (fracNum j, n))

/-! ### two-argument form (end state first, then breadth-first bisection) -/

/-- the two `pos.emplace` calls after a valid midpoint. -/
def push (lo hi mid : Nat) : List (Nat × Nat) :=
  (if lo < mid then [(lo, mid - 1)] else []) ++ (if hi > mid then [(mid + 1, hi)] else [])

/-- termination measure of the queue: `2·width + 1` per entry. -/
def qMeasure : List (Nat × Nat) → Nat
  | [] => 0
  | p :: r => 2 * (p.2 + 1 - p.1) + 1 + qMeasure r

theorem qMeasure_append (a b : List (Nat × Nat)) : qMeasure (a ++ b) = qMeasure a + qMeasure b := by
  induction a with
  | nil => simp [qMeasure]
  | cons p r ih => simp [qMeasure, ih]; omega

theorem qMeasure_push_lt (lo hi : Nat) :
    qMeasure (push lo hi ((lo + hi) / 2)) < 2 * (hi + 1 - lo) + 1 := by
  unfold push
  split <;> split <;> simp [qMeasure] <;> omega

/-- `while (!pos.empty())`: the queue is a list, front first; `pos.emplace` appends.
Returns `(result, midpoints queried in order)`. -/
def bisectLoop (v : Nat → Bool) (q : List (Nat × Nat)) : Bool × List Nat :=
  match q with
  | [] => (true, [])
  | (lo, hi) :: rest =>
    if v ((lo + hi) / 2) then
      let r := bisectLoop v (rest ++ push lo hi ((lo + hi) / 2))
      (r.1, (lo + hi) / 2 :: r.2)
    else (false, [(lo + hi) / 2])
termination_by qMeasure q
decreasing_by
  have := qMeasure_push_lt lo hi
  simp only [qMeasure, qMeasure_append]
  omega

/-- `checkMotion(s1, s2)`.  `countEarly` says whether the early return on an invalid end state
bumps `invalid_` (it does in `DiscreteMotionValidator`; in the Dubins, Reeds-Shepp and Dubins3D
validators it did not before the F7 fix). -/
def checkBisectGen (countEarly : Bool) (n : Nat) (v : Nat → Bool) : Result :=
  if !v n then ⟨false, none, [n], 0, if countEarly then 1 else 0⟩
  else
    let r := if 2 ≤ n then bisectLoop v [(1, n - 1)] else (true, [])
    if r.1 then ⟨true, none, n :: r.2, 1, 0⟩ else ⟨false, none, n :: r.2, 0, 1⟩

/-- `DiscreteMotionValidator::checkMotion(s1, s2)`. -/
def checkBisect (n : Nat) (v : Nat → Bool) : Result := checkBisectGen true n v

/-! ### the shipped validators -/

inductive Validator where
  | discrete | dubins | reedsShepp | dubins3D
deriving Repr, DecidableEq

/-- Dubins3D: `getPath` found no path, `return false`.  As the code stands since the F75 fix (449563fe0) the call
counts one invalid motion (`counted = true`); before it, it changed nothing (`counted = false`).
In both versions `lastValid` is left unset. -/
def noPath (counted : Bool) (queries : List Nat) : Result :=
  ⟨false, none, queries, 0, if counted then 1 else 0⟩

/-- two-argument `checkMotion` of each validator, as the code stands after the F7 and F75 fixes
(every `return false` counts).  `pathOk`: Dubins3D's `getPath(s1, s2)` succeeded (the other
validators never fail to produce a path).  Dubins3D asks about `s2` *before* `getPath`. -/
def checkMotion2 (val : Validator) (pathOk : Bool) (n : Nat) (v : Nat → Bool) : Result :=
  match val with
  | .dubins3D =>
    if !v n then ⟨false, none, [n], 0, 1⟩
    else if !pathOk then noPath true [n]
    else checkBisectGen true n v
  | _ => checkBisectGen true n v

/-- the same after the F7 fix (dec95a161) but before the F75 fix (449563fe0): Dubins3D's no-path return counts nothing. -/
def checkMotion2PreF75 (val : Validator) (pathOk : Bool) (n : Nat) (v : Nat → Bool) : Result :=
  match val with
  | .dubins3D =>
    if !v n then ⟨false, none, [n], 0, 1⟩
    else if !pathOk then noPath false [n]
    else checkBisectGen true n v
  | _ => checkBisectGen true n v

/-- the same before the F7 fix: the Dubins, Reeds-Shepp and Dubins3D validators `return false` on
an invalid end state without touching `invalid_`. -/
def checkMotion2Old (val : Validator) (pathOk : Bool) (n : Nat) (v : Nat → Bool) : Result :=
  match val with
  | .discrete => checkBisectGen true n v
  | .dubins3D =>
    if !v n then ⟨false, none, [n], 0, 0⟩
    else if !pathOk then noPath false [n]
    else checkBisectGen false n v
  | _ => checkBisectGen false n v

/-- three-argument `checkMotion` of each validator (Dubins3D calls `getPath` first), after F75. -/
def checkMotion3 (val : Validator) (pathOk : Bool) (n : Nat) (v : Nat → Bool) : Result :=
  match val with
  | .dubins3D => if !pathOk then noPath true [] else checkLinear n v
  | _ => checkLinear n v

/-- before the F75 fix. -/
def checkMotion3PreF75 (val : Validator) (pathOk : Bool) (n : Nat) (v : Nat → Bool) : Result :=
  match val with
  | .dubins3D => if !pathOk then noPath false [] else checkLinear n v
  | _ => checkLinear n v

/-! ### `SpaceInformation::checkMotion(states, count, firstInvalidStateIndex)` and `(states, count)` -/

structure ListResult where
  verdict : Bool
  /-- `some i`: `firstInvalidStateIndex` was written; `none`: left untouched (only the 3-arg form writes) -/
  firstInvalid : Option Nat
  queries : List Nat
deriving Repr, DecidableEq

/-- linear form: `for (i = 0; i < count; ++i) if (!isValid(states[i])) { first = i; return false; }`. -/
def checkStateListFirst (count : Nat) (v : Nat → Bool) : ListResult :=
  let r := linScan v 0 count
  ⟨r.2.isNone, r.2, r.1⟩

/-- the split rule of the list form: `(first, mid)` if `first < mid - 1`, `(mid, second)` if
`second > mid + 1` (the end points of an interval are already known to be valid). -/
def listPush (a b mid : Nat) : List (Nat × Nat) :=
  (if a < mid - 1 then [(a, mid)] else []) ++ (if b > mid + 1 then [(mid, b)] else [])

/-- termination measure: `2·(number of interior indices) + 1` per entry. -/
def lMeasure : List (Nat × Nat) → Nat
  | [] => 0
  | p :: r => 2 * (p.2 - 1 - p.1) + 1 + lMeasure r

theorem lMeasure_append (a b : List (Nat × Nat)) : lMeasure (a ++ b) = lMeasure a + lMeasure b := by
  induction a with
  | nil => simp [lMeasure]
  | cons p r ih => simp [lMeasure, ih]; omega

theorem lMeasure_push_lt (a b : Nat) :
    lMeasure (listPush a b ((a + b) / 2)) < 2 * (b - 1 - a) + 1 := by
  unfold listPush
  split <;> split <;> simp [lMeasure] <;> omega

def listLoop (v : Nat → Bool) (q : List (Nat × Nat)) : Bool × List Nat :=
  match q with
  | [] => (true, [])
  | (a, b) :: rest =>
    if v ((a + b) / 2) then
      let r := listLoop v (rest ++ listPush a b ((a + b) / 2))
      (r.1, (a + b) / 2 :: r.2)
    else (false, [(a + b) / 2])
termination_by lMeasure q
decreasing_by
  have := lMeasure_push_lt a b
  simp only [lMeasure, lMeasure_append]
  omega

/-- subdivision form `checkMotion(states, count)`. -/
def checkStateList (count : Nat) (v : Nat → Bool) : ListResult :=
  if count = 0 then ⟨true, none, []⟩
  else if count = 1 then ⟨v 0, none, [0]⟩
  else if !v 0 then ⟨false, none, [0]⟩
  else if !v (count - 1) then ⟨false, none, [0, count - 1]⟩
  else if 2 < count then
    let r := listLoop v [(0, count - 1)]
    ⟨r.1, none, 0 :: (count - 1) :: r.2⟩
  else ⟨true, none, [0, count - 1]⟩

/-! ### `SpaceInformation::getMotionStates(s1, s2, states, count, endpoints, alloc)` -/

/-- what a slot of `states` holds after the call: a copy of `s1`, a copy of `s2`, or
`interpolate(s1, s2, (double)j / (double)c)`. -/
inductive Slot where
  | start
  | frac (j c : Nat)
  | goal
deriving Repr, DecidableEq

structure MSResult where
  /-- the slots written, in order; the k-th write goes to `states[k]` (`states[added]`, `added++`) -/
  written : List Slot
  /-- `states.size()` after the call (`alloc` resizes, otherwise unchanged) -/
  newSize : Nat
deriving Repr, DecidableEq

/-- the returned number of states (`added`). -/
def MSResult.returned (r : MSResult) : Nat := r.written.length

/-- `for (j = …; j < count && added < states.size(); ++j)`: `k` iterations left. -/
def msLoop (c sz : Nat) (j added : Nat) : Nat → List Slot
  | 0 => []
  | k + 1 => if added < sz then Slot.frac j c :: msLoop c sz (j + 1) (added + 1) k else []

/-- the body of `getMotionStates` after `count++` (`c` is the incremented, wrapped count = the
number of segments).  `size` is `states.size()` on entry. -/
def getMotionStatesC (c : Nat) (endpoints alloc : Bool) (size : Nat) : MSResult :=
  if c < 2 then
    if endpoints then
      let sz := if alloc then 2 else size
      ⟨(if 0 < sz then [Slot.start] else []) ++ (if 1 < sz then [Slot.goal] else []), sz⟩
    else ⟨[], if alloc then 0 else size⟩
  else
    let sz := if alloc then (if endpoints then c + 1 else c - 1) else size
    let w0 := if endpoints && decide (0 < sz) then [Slot.start] else []
    let w1 := msLoop c sz 1 w0.length (c - 1)
    let added := w0.length + w1.length
    let w2 := if decide (added < sz) && endpoints then [Slot.goal] else []
    ⟨w0 ++ w1 ++ w2, sz⟩

/-- `count++` on a 32-bit unsigned: the callers that pass `validSegmentCount - 1` rely on
`UINT_MAX + 1 = 0` for identical states. -/
def segmentsOf (count : Nat) : Nat := (count + 1) % 4294967296

/-- `getMotionStates(s1, s2, states, count, endpoints, alloc)`.  (Assumption: apart from the
`UINT_MAX` wrap, `count + 2 < 2^32`.) -/
def getMotionStates (count : Nat) (endpoints alloc : Bool) (size : Nat) : MSResult :=
  getMotionStatesC (segmentsOf count) endpoints alloc size

/-- everything the call would write into an unbounded vector: `[s1]`, the `c - 1` interior points
`j/c`, `[s2]` (end points only if asked for). -/
def msFull (c : Nat) (endpoints : Bool) : List Slot :=
  (if endpoints then [Slot.start] else []) ++
    (if c < 2 then [] else (List.range' 1 (c - 1)).map (fun j => Slot.frac j c)) ++
    (if endpoints then [Slot.goal] else [])

/-! ### `ConstrainedMotionValidator` (constrained state spaces)

The subdivision of a constrained motion is the manifold traversal itself
(`ConstrainedStateSpace::discreteGeodesic(s1, s2, false, …)`): it visits states `g_1, g_2, …` one step
`delta` apart, asks `isValid` about each and stops at the first invalid one.  `m` is the number of
states it visits when all are valid, `geom` whether it then ends within tolerance of `s2`
(geometry: projection failures, wandering, no progress are C16's business and enter only through
`m` and `geom`).  `v j` is the validity of `g_j` for `1 ≤ j ≤ m` and `v (m+1)` that of `s2` itself;
`sat` is `constraint->isSatisfied(s2)`.  (The empty-list branch — an Atlas traversal that cannot
start — is modelled in `OmplModel.Constrained`, C16.) -/

structure CResult where
  verdict : Bool
  /-- `some k`: `lastValid.first` (when non-null) received the traversal's state `g_k` (`g_0 = s1`) -/
  back : Option Nat
  /-- `lastValid.second` was written -/
  wroteSecond : Bool
  queries : List Nat
  dValid : Nat
  dInvalid : Nat
deriving Repr, DecidableEq

/-- the traversal: `(reached, indices asked, index of the last state stored)`. -/
def traverse (m : Nat) (geom : Bool) (v : Nat → Bool) : Bool × List Nat × Nat :=
  match (linScan v 1 m).2 with
  | some j => (false, (linScan v 1 m).1, j - 1)
  | none => (geom, (linScan v 1 m).1, m)

/-- `checkMotion(s1, s2)` as the code stood before the fixes 894715569 (F120) and a7ee00eca (F121/F122):
`isSatisfied(s2) && discreteGeodesic(s1, s2, false)` — `s2` is never handed to `isValid` and no
counter moves. -/
def constrained2Old (sat : Bool) (m : Nat) (geom : Bool) (v : Nat → Bool) : CResult :=
  if !sat then ⟨false, none, false, [], 0, 0⟩
  else ⟨(traverse m geom v).1, none, false, (traverse m geom v).2.1, 0, 0⟩

/-- `checkMotion(s1, s2, lastValid)` as the code stood before those fixes: `lastValid` is written only when the
traversal stopped early *and* `lastValid.first` is non-null; the verdict is
`isSatisfied(s2) && reached`; no counter moves. -/
def constrained3Old (hasFirst sat : Bool) (m : Nat) (geom : Bool) (v : Nat → Bool) : CResult :=
  if !(traverse m geom v).1 && hasFirst then
    ⟨sat && (traverse m geom v).1, some (traverse m geom v).2.2, true, (traverse m geom v).2.1, 0, 0⟩
  else ⟨sat && (traverse m geom v).1, none, false, (traverse m geom v).2.1, 0, 0⟩

/-- `checkMotion(s1, s2)` as it is in /repo since F120 (count, 894715569) and F121 (validate the end state, a7ee00eca):
`isValid(s2) && isSatisfied(s2) && discreteGeodesic(…)`, then exactly one counter. -/
def constrained2 (sat : Bool) (m : Nat) (geom : Bool) (v : Nat → Bool) : CResult :=
  if !v (m + 1) then ⟨false, none, false, [m + 1], 0, 1⟩
  else if !sat then ⟨false, none, false, [m + 1], 0, 1⟩
  else if (traverse m geom v).1 then ⟨true, none, false, (m + 1) :: (traverse m geom v).2.1, 1, 0⟩
  else ⟨false, none, false, (m + 1) :: (traverse m geom v).2.1, 0, 1⟩

/-- `checkMotion(s1, s2, lastValid)` as it is in /repo since F120, F121 and F122: the verdict is
`reached && isSatisfied(s2) && isValid(s2)` (short-circuit, so `s2` is asked about last), every
failure writes `lastValid.second` and, when non-null, `lastValid.first := g_back`. -/
def constrained3 (hasFirst sat : Bool) (m : Nat) (geom : Bool) (v : Nat → Bool) : CResult :=
  let askEnd := (traverse m geom v).1 && sat
  let q := (traverse m geom v).2.1 ++ (if askEnd then [m + 1] else [])
  if askEnd && v (m + 1) then ⟨true, none, false, q, 1, 0⟩
  else ⟨false, if hasFirst then some (traverse m geom v).2.2 else none, true, q, 0, 1⟩

/-- the three constrained spaces differ in how their traversal treats the START state `s1` (index 0):
`ProjectedStateSpace` never looks at it; `AtlasStateSpace` asks about it first, before anything is
stored (an invalid start leaves the state list EMPTY); `TangentBundleStateSpace` (since 2365cedab)
asks about it once after storing it, and only when `s2` is not already within tolerance. -/
inductive TMode where
  | proj | atlas | tb
deriving Repr, DecidableEq

/-- the traversal of each space: `(reached, indices asked, index of the last state stored, list empty)`.
`m = 0 ∧ geom` is the adjacent case (`distance(s1, s2) <= delta`: arrived without a step). -/
def traverseG (mode : TMode) (m : Nat) (geom : Bool) (v : Nat → Bool) : Bool × List Nat × Nat × Bool :=
  let go (q : List Nat) : Bool × List Nat × Nat × Bool :=
    ((traverse m geom v).1, q ++ (traverse m geom v).2.1, (traverse m geom v).2.2, false)
  match mode with
  | .proj => go []
  | .atlas => if !v 0 then (false, [0], 0, true) else go [0]
  | .tb => if m == 0 && geom then go [] else if !v 0 then (false, [0], 0, false) else go [0]

/-- `ConstrainedMotionValidator::checkMotion(s1, s2)` over any of the three spaces (current code). -/
def constrained2G (mode : TMode) (sat : Bool) (m : Nat) (geom : Bool) (v : Nat → Bool) : CResult :=
  if !v (m + 1) then ⟨false, none, false, [m + 1], 0, 1⟩
  else if !sat then ⟨false, none, false, [m + 1], 0, 1⟩
  else if (traverseG mode m geom v).1 then ⟨true, none, false, (m + 1) :: (traverseG mode m geom v).2.1, 1, 0⟩
  else ⟨false, none, false, (m + 1) :: (traverseG mode m geom v).2.1, 0, 1⟩

/-- `ConstrainedMotionValidator::checkMotion(s1, s2, lastValid)` over any of the three spaces (current
code), including the `stateList.empty()` branch (Atlas with an invalid start): `lastValid := (s1, 0)`. -/
def constrained3G (mode : TMode) (hasFirst sat : Bool) (m : Nat) (geom : Bool) (v : Nat → Bool) : CResult :=
  let t := traverseG mode m geom v
  if t.2.2.2 then ⟨false, if hasFirst then some 0 else none, true, t.2.1, 0, 1⟩
  else
    let askEnd := t.1 && sat
    let q := t.2.1 ++ (if askEnd then [m + 1] else [])
    if askEnd && v (m + 1) then ⟨true, none, false, q, 1, 0⟩
    else ⟨false, if hasFirst then some t.2.2.1 else none, true, q, 0, 1⟩

/-- `TangentBundleSpaceInformation::checkMotion(s1, s2, lastValid)` as coded before fix 03f44d7d7 (F123): after the
validator, `lastValid.first` is re-projected whenever it is non-null — also after a VALID motion,
where it still holds whatever the caller put there — and a failed projection turns the verdict to
false.  `projOk`: that projection succeeds.  Returns (verdict, `lastValid.first` was modified). -/
def tbWrapOld (hasFirst projOk : Bool) (r : CResult) : Bool × Bool :=
  if hasFirst then (r.verdict && projOk, true) else (r.verdict, false)

/-- the same as it is in /repo since F123 (03f44d7d7): only the state the validator wrote (invalid motion) is
re-projected. -/
def tbWrap (hasFirst _projOk : Bool) (r : CResult) : Bool × Bool :=
  if !r.verdict && hasFirst then (false, true) else (r.verdict, false)

end OmplModel.Motion
