import OmplModel.Model.NN
/-!
The tree-building side of `NearestNeighborsGNAT.h` / `NearestNeighborsGNATNoThreadSafety.h` (the two
headers have the same code here) and `GreedyKCenters.h`, as coded: `Node::add`, `needToSplit`,
`Node::split`, `kcenters`, `add`, `add(vector)`, `remove`, `rebuildDataStructure`, `clear`.

Core Lean only.  The driver runs these in lock-step with the real structure: the state before the
operation is the dump of the real tree, the `uniform01` draws the k-centers RNG made during the
operation are an input (`us`), and the dump of the model's result must equal the real dump.

Abstractions (beyond those of `Model/NN.lean`):
* `GreedyKCenters::kcenters` fills a matrix `dists(j,i) = distFun_(data[j], data[centers[i]])`; the
  model returns the centres only and `split` calls `dist` again (a pure function, same values).
* the only random choice, the first centre `rng_.uniformInt(0, n-1)`, is `pick u n` for the next
  draw `u` (`pick` is a parameter: `floor(n*u)` clamped, computed in `Float`, in the driver).
* `split` recursion runs on fuel `data_.size() + 1` (every child leaf is strictly smaller); running
  out of fuel or of draws is reported (`ok = false`), never hidden.
* `add(data)` first tests `isRemoved(data)` on the *caller's* object — an address that is never in
  `removed_` unless the caller passes a reference into the tree; not modelled.
* only leaves are split, so the `children_` a split appends to are empty (the model overwrites).
-/
namespace OmplModel.NN

variable {α D U : Type}

section Ops
variable [LT D] [DecidableLT D]

/-- `Node(degree, capacity, pivot)`. -/
def Node.new (degree : Nat) (pivot : Elem α) : Node α D :=
  .mk pivot degree none (List.replicate degree none) [] []

def Node.setRanges : Node α D → List (Range D) → Node α D
  | .mk p deg rad _ data ch, rgs => .mk p deg rad rgs data ch

def Node.setRad : Node α D → Range D → Node α D
  | .mk p deg _ rgs data ch, rad => .mk p deg rad rgs data ch

def Node.pushData : Node α D → Elem α → Node α D
  | .mk p deg rad rgs data ch, x => .mk p deg rad rgs (data ++ [x]) ch

/-- `updateRange(i, d)` on the pair of arrays (out of range = no change; the arrays have the
parent's `degree_` entries, never fewer than there are siblings). -/
def updAt : List (Range D) → Nat → D → List (Range D)
  | [], _, _ => []
  | r :: rs, 0, d => r.update d :: rs
  | r :: rs, i + 1, d => r :: updAt rs i d

def argminGo : List D → Nat → Nat → D → Nat
  | [], _, k, _ => k
  | d :: ds, i, k, best => if d < best then argminGo ds (i + 1) i d else argminGo ds (i + 1) k best

/-- index of the first minimum: `k = 0; for i >= 1: if (d[i] < d[k]) k = i`. -/
def argminFirst : List D → Nat
  | [] => 0
  | d :: ds => argminGo ds 1 0 d

/-- `needToSplit`: `sz > maxNumPtsPerLeaf_ && sz > degree_`. -/
def needToSplit (P : Params) (degree sz : Nat) : Bool := decide (sz > P.leaf) && decide (sz > degree)

/-! ### GreedyKCenters -/

/-- `if ((d = distFun_(data[j], center)) < minDist[j]) minDist[j] = d` (`none` = `+inf`): the new entry. -/
def minUpd (m : Option D) (d : D) : D :=
  match m with
  | none => d
  | some v => if d < v then d else v

/-- `minDist[j] > maxDist` (`none` = `-inf`). -/
def newMax (maxD : Option D) (m : D) : Bool :=
  match maxD with
  | none => true
  | some v => decide (m > v)

/-- one pass of the inner `for j` loop: new `minDist`, `ind`, `maxDist` (`none` = `∓inf`). -/
def kcStep (dist : α → α → D) (center : α) :
    List (Elem α) → List (Option D) → Nat → Nat → Option D → List (Option D) × Nat × Option D
  | x :: xs, m :: ms, j, ind, maxD =>
    let m' := minUpd m (dist x.val center)
    let upd := newMax maxD m'
    let r := kcStep dist center xs ms (j + 1) (if upd then j else ind) (if upd then some m' else maxD)
    (some m' :: r.1, r.2)
  | _, _, _, ind, maxD => ([], ind, maxD)

def kcLoop (dist : α → α → D) (eps : D) (data : List (Elem α)) :
    Nat → List Nat → Nat → List (Option D) → List Nat
  | 0, centers, _, _ => centers
  | n + 1, centers, last, minDist =>
    match data[last]? with
    | none => centers
    | some c =>
      let r := kcStep dist c.val data minDist 0 0 none
      let stop : Bool := match r.2.2 with
        | none => true
        | some m => decide (m < eps)
      if stop then centers else kcLoop dist eps data n (centers ++ [r.2.1]) r.2.1 r.1

/-- `kcenters(data, k, centers, dists)` with the first centre given. -/
def kcenters (dist : α → α → D) (eps : D) (data : List (Elem α)) (k first : Nat) : List Nat :=
  kcLoop dist eps data (k - 1) [first] first (data.map (fun _ => none))

/-! ### split -/

structure Ctx (α D U : Type) where
  P : Params
  dist : α → α → D
  /-- `numeric_limits<double>::epsilon()` (k-centers cut-off and the equal-key rule) -/
  eps : D
  /-- `rng_.uniformInt(0, n-1)` as a function of the next `uniform01` draw -/
  pick : U → Nat → Nat

/-- body of the `for j` loop of `split` for `data_[j] = x`: the closest pivot `k` (first minimum)
gets `x` (unless `x` is that pivot itself) and its radius updated; every child `i` gets
`updateRange(k, dists(j,i))`. -/
def distribute1 (dist : α → α → D) (pivots : List Nat) (children : List (Node α D)) (j : Nat) (x : Elem α) :
    List (Node α D) :=
  let k := argminFirst (children.map (fun c => dist x.val c.pivot.val))
  children.mapIdx (fun i c =>
    let di := dist x.val c.pivot.val
    let c1 := c.setRanges (updAt c.ranges k di)
    if i = k ∧ pivots[k]? ≠ some j then (c1.setRad (c1.rad.update di)).pushData x else c1)

def distribute (dist : α → α → D) (pivots : List Nat) :
    List (Elem α) → Nat → List (Node α D) → List (Node α D)
  | [], _, ch => ch
  | x :: xs, j, ch => distribute dist pivots xs (j + 1) (distribute1 dist pivots ch j x)

/-- the per-child loop after the distribution: final `degree_`, and the singleton radius. -/
def finalizeChild [OfNat D 0] (P : Params) (deg' n : Nat) : Node α D → Node α D
  | .mk p _ rad rgs data ch =>
    .mk p (min (max ((deg' * data.length) / n) P.minDegree) P.maxDegree)
      (match rad with
       | none => some (0, 0)
       | some r => some r)
      rgs data ch

/-- state-passing map (draws in, draws out, all ok). -/
def mapSt (f : Node α D → List U → Node α D × List U × Bool) :
    List (Node α D) → List U → List (Node α D) × List U × Bool
  | [], us => ([], us, true)
  | c :: cs, us =>
    let r1 := f c us
    let r2 := mapSt f cs r1.2.1
    (r1.1 :: r2.1, r2.2.1, r1.2.2 && r2.2.2)

/-- `Node::split`. -/
def splitNode [OfNat D 0] (ctx : Ctx α D U) : Nat → Node α D → List U → Node α D × List U × Bool
  | 0, n, us => (n, us, false)
  | fuel + 1, .mk p deg rad rgs data ch, us =>
    match us with
    | [] => (.mk p deg rad rgs data ch, [], false)
    | u :: us =>
      let pivots := kcenters ctx.dist ctx.eps data deg (ctx.pick u data.length)
      let ch0 : List (Node α D) := pivots.filterMap (fun pi => (data[pi]?).map (Node.new deg))
      let deg' := pivots.length
      let ch1 := distribute ctx.dist pivots data 0 ch0
      let ch2 := ch1.map (finalizeChild ctx.P deg' data.length)
      let r := mapSt (fun c us =>
          if needToSplit ctx.P c.degree c.data.length then splitNode ctx fuel c us else (c, us, true)) ch2 us
      (.mk p deg' rad rgs [] r.1, r.2.1, r.2.2)

/-! ### Node::add -/

mutual
/-- `Node::add`: returns the new subtree, the remaining draws, "the leaf needs a rebuild of the
whole structure" and `ok`.  `doSplit` = what `Node::add` does with a leaf that must be split:
`true` = `split(gnat)`, `false` = one of the two `rebuildDataStructure()` branches (decided by the
global state, known before the descent). -/
def Node.insert [OfNat D 0] (ctx : Ctx α D U) (doSplit : Bool) (x : Elem α) :
    Node α D → List U → Node α D × List U × Bool × Bool
  | .mk p deg rad rgs data [], us =>
    if needToSplit ctx.P deg (data ++ [x]).length then
      if doSplit then
        let r := splitNode ctx ((data ++ [x]).length + 1) (.mk p deg rad rgs (data ++ [x]) []) us
        (r.1, r.2.1, false, r.2.2)
      else (.mk p deg rad rgs (data ++ [x]) [], us, true, true)
    else (.mk p deg rad rgs (data ++ [x]) [], us, false, true)
  | .mk p deg rad rgs data (c :: cs), us =>
    let k := argminFirst ((c :: cs).map (fun c => ctx.dist x.val c.pivot.val))
    let r := insertL ctx doSplit x k 0 (c :: cs) us
    (.mk p deg rad rgs data r.1, r.2)
/-- the two loops over the children in `Node::add`: every child `i` gets
`updateRange(minInd, dist[i])`, child `minInd` gets `updateRadius(minDist)` and the element. -/
def insertL [OfNat D 0] (ctx : Ctx α D U) (doSplit : Bool) (x : Elem α) (k : Nat) :
    Nat → List (Node α D) → List U → List (Node α D) × List U × Bool × Bool
  | _, [], us => ([], us, false, true)
  | i, c :: cs, us =>
    let di := ctx.dist x.val c.pivot.val
    if i = k then
      let r1 := Node.insert ctx doSplit x c us
      let c' := (r1.1.setRanges (updAt c.ranges k di)).setRad (c.rad.update di)
      let r2 := insertL ctx doSplit x k (i + 1) cs r1.2.1
      (c' :: r2.1, r2.2.1, r1.2.2.1 || r2.2.2.1, r1.2.2.2 && r2.2.2.2)
    else
      let r2 := insertL ctx doSplit x k (i + 1) cs us
      (c.setRanges (updAt c.ranges k di) :: r2.1, r2.2)
end

/-! ### the public operations -/

/-- `clear`. -/
def Gnat.clear (g : Gnat α D) : Gnat α D :=
  { g with tree := none, size := 0, removed := [],
           rebuildSize := g.rebuildSize.map (fun _ => g.params.leaf * g.params.degree) }

/-- `add(vector)` on an empty structure. -/
def Gnat.build [OfNat D 0] (ctx : Ctx α D U) (g : Gnat α D) (xs : List (Elem α)) (us : List U) :
    Gnat α D × List U × Bool :=
  match xs with
  | [] => (g, us, true)
  | x :: rest =>
    let n0 : Node α D := .mk x g.params.degree none (List.replicate g.params.degree none) rest []
    let r := if needToSplit g.params g.params.degree rest.length then splitNode ctx (rest.length + 1) n0 us
             else (n0, us, true)
    ({ g with tree := some r.1, size := g.size + xs.length }, r.2)

/-- `rebuildDataStructure`: `list(lst); clear(); add(lst)`. -/
def Gnat.rebuild [OfNat D 0] (ctx : Ctx α D U) (g : Gnat α D) (us : List U) : Gnat α D × List U × Bool :=
  Gnat.build ctx g.clear g.list us

/-- `setDistanceFunction(distFun)` after elements were added: the base class and the pivot selector get the
new function (`ctx` is the context with the NEW `dist`), and `if (tree_) rebuildDataStructure();`. -/
def Gnat.setDistanceFunction [OfNat D 0] (ctx : Ctx α D U) (g : Gnat α D) (us : List U) : Gnat α D × List U × Bool :=
  match g.tree with
  | none => (g, us, true)
  | some _ => g.rebuild ctx us

/-- `add(data)` for an element that already has its id. -/
def Gnat.addElem [OfNat D 0] (ctx : Ctx α D U) (g : Gnat α D) (e : Elem α) (us : List U) :
    Gnat α D × List U × Bool :=
  match g.tree with
  | none => ({ g with tree := some (Node.new g.params.degree e), size := 1 }, us, true)
  | some t =>
    let size' := g.size + 1
    let big : Bool := match g.rebuildSize with
      | none => false
      | some rs => decide (size' ≥ rs)
    let r := t.insert ctx (g.removed.isEmpty && !big) e us
    let g1 := { g with tree := some r.1, size := size' }
    if r.2.2.1 then
      if !g.removed.isEmpty then g1.rebuild ctx r.2.1
      else
        let r2 := g1.rebuild ctx r.2.1
        ({ r2.1 with rebuildSize := g.rebuildSize.map (· * 2) }, r2.2)
    else (g1, r.2.1, r.2.2.2)

/-- `add(data)`. -/
def Gnat.add [OfNat D 0] (ctx : Ctx α D U) (g : Gnat α D) (x : α) (us : List U) : Gnat α D × List U × Bool :=
  Gnat.addElem ctx { g with nextId := g.nextId + 1 } ⟨g.nextId, x⟩ us

def idsFrom (n : Nat) : List α → List (Elem α)
  | [] => []
  | x :: xs => ⟨n, x⟩ :: idsFrom (n + 1) xs

/-- `add(vector)`: the bulk build on an empty structure, otherwise one `add` per element. -/
def Gnat.addv [OfNat D 0] (ctx : Ctx α D U) (g : Gnat α D) (xs : List α) (us : List U) :
    Gnat α D × List U × Bool :=
  match g.tree with
  | none => Gnat.build ctx { g with nextId := g.nextId + xs.length } (idsFrom g.nextId xs) us
  | some _ =>
    xs.foldl (fun (acc : Gnat α D × List U × Bool) x =>
      let r := acc.1.add ctx x acc.2.1
      (r.1, r.2.1, acc.2.2 && r.2.2)) (g, us, true)

end Ops

section Remove
variable [BEq α] [Add D] [Sub D] [LE D] [LT D] [DecidableLE D] [DecidableLT D] [OfNat D 0]

/-- `remove`: find the element by a 1-nearest query (the equal-key rule makes it find *itself*
among equal-distance copies), mark it, rebuild if it is a pivot or the cache is full.
Returns the new state and the `bool` result. -/
def Gnat.remove (ctx : Ctx α D U) (ord : Nat → Nat → List Nat) (g : Gnat α D) (x : α) (us : List U) :
    (Gnat α D × List U × Bool) × Bool :=
  if g.size = 0 then ((g, us, true), false)
  else
    match g.tree with
    | none => ((g, us, false), false)
    | some t =>
      let st := nearestKInternal ctx.dist g.removed x 1 ctx.eps ord g.offset t
      let g0 := { g with offset := st.offset }
      match st.nbh with
      | [] => ((g0, us, false), false)
      | top :: _ =>
        if top.2.val != x then ((g0, us, !st.exhausted), false)
        else
          let g1 := { g0 with removed := top.2.id :: g0.removed, size := g0.size - 1 }
          if st.isPivot || decide (g1.removed.length ≥ g1.params.cache) then
            let r := g1.rebuild ctx us
            ((r.1, r.2.1, r.2.2 && !st.exhausted), true)
          else ((g1, us, !st.exhausted), true)

end Remove

end OmplModel.NN

namespace OmplModel.NN

/-! ### operation histories (the mutating part of the `NearestNeighbors` API) -/

section Run
variable {α D U : Type}
variable [BEq α] [Add D] [Sub D] [LE D] [LT D] [DecidableLE D] [DecidableLT D] [OfNat D 0]

/-- one API call; the state carries the not yet consumed k-centers draws. -/
def gnatStep (ctx : Ctx α D U) (ord : Nat → Nat → List Nat) (s : Gnat α D × List U) : Op α → Gnat α D × List U
  | .add x => let r := s.1.add ctx x s.2; (r.1, r.2.1)
  | .addv xs => let r := s.1.addv ctx xs s.2; (r.1, r.2.1)
  | .remove x => let r := s.1.remove ctx ord x s.2; (r.1.1, r.1.2.1)
  | .clear => (s.1.clear, s.2)

def gnatRun (ctx : Ctx α D U) (ord : Nat → Nat → List Nat) (ops : List (Op α)) (g0 : Gnat α D) (us : List U) :
    Gnat α D × List U :=
  ops.foldl (gnatStep ctx ord) (g0, us)

end Run

end OmplModel.NN
