import OmplModel.Model.Copy
/-!
A state space *object* that changes after it was set up (`RealVectorStateSpace::addDimension`,
`CompoundStateSpace::addSubspace` at any depth, `setName`, `lock`, `setSubspaceWeight`) and is set up again.

Core Lean only.  Mirrors /repo/src/ompl/base/src/StateSpace.cpp: `StateSpace::setup()` / `computeLocations()` (both end in
`computeLocationsHelper(this, substateLocationsByName_, valueLocationsInOrder_, valueLocationsByName_)`, which clears and
rebuilds the three tables from the structure the object has *at that moment*), `setName` (recomputes only when
`valueLocationsInOrder_` is not empty), `CompoundStateSpace::setup()` (components first), `addSubspace` (refused when locked),
`WrapperStateSpace::setup()` (sets up the wrapped space and copies its tables).

The cached tables of the root object are a function of the structure they were computed from, so the object is
`cur` (the structure now) + `snap` (the structure at the last recomputation; `none` = never) + the locked compounds.
`copyToReals`, `copyFromReals`, `getValueAddressAtName`, `getSubstateLocationsByName`, `getCommonSubspaces` and the names
overload of `copyStateData` read the tables (`snap`); `copyState`, `serialize`, `getValueAddressAtIndex`, `computeSignature`,
`ScopedState::reals()` read the structure (`cur`).
-/
namespace OmplModel.Copy

inductive Edit where
  | addDim (nm : Nat)                 -- RealVectorStateSpace::addDimension on the node named nm
  | addSub (nm : Nat) (c : Sp)        -- CompoundStateSpace::addSubspace(c, 1.0) on the node named nm
  | rename (old new : Nat)            -- setName
  | lock (nm : Nat)                   -- CompoundStateSpace::lock
  | weight (nm : Nat)                 -- setSubspaceWeight: no table, image or signature depends on it
deriving Repr

mutual
/-- apply `f` to the first node in pre-order (also below wrappers) that carries the name -/
def editFirst (f : Sp → Sp) (nm : Nat) : Sp → Sp × Bool
  | .compound n cs =>
    if n = nm then (f (.compound n cs), true)
    else
      let r := editFirstL f nm cs
      (.compound n r.1, r.2)
  | .wrapper n s =>
    if n = nm then (f (.wrapper n s), true)
    else
      let r := editFirst f nm s
      (.wrapper n r.1, r.2)
  | .real n k => if n = nm then (f (.real n k), true) else (.real n k, false)
  | .so2 n => if n = nm then (f (.so2 n), true) else (.so2 n, false)
  | .so3 n => if n = nm then (f (.so3 n), true) else (.so3 n, false)
  | .time n => if n = nm then (f (.time n), true) else (.time n, false)
  | .discrete n => if n = nm then (f (.discrete n), true) else (.discrete n, false)
def editFirstL (f : Sp → Sp) (nm : Nat) : List Sp → List Sp × Bool
  | [] => ([], false)
  | c :: cs =>
    let r := editFirst f nm c
    if r.2 then (r.1 :: cs, true)
    else
      let rs := editFirstL f nm cs
      (r.1 :: rs.1, rs.2)
end

def addDimF : Sp → Sp
  | .real n k => .real n (k + 1)
  | sp => sp

def addSubF (c : Sp) : Sp → Sp
  | .compound n cs => .compound n (cs ++ [c])
  | sp => sp

def setNameF (new : Nat) : Sp → Sp
  | .real _ k => .real new k
  | .so2 _ => .so2 new
  | .so3 _ => .so3 new
  | .time _ => .time new
  | .discrete _ => .discrete new
  | .compound _ cs => .compound new cs
  | .wrapper _ s => .wrapper new s

structure SpObj where
  cur : Sp
  snap : Option Sp := none
  locked : List Nat := []
deriving Repr

/-- `getValueLocations()` of the object: what was cached at the last recomputation -/
def SpObj.valueLocations (o : SpObj) : List Loc :=
  match o.snap with
  | some s => valueLocationsF s
  | none => []

/-- `getSubstateLocationsByName()` -/
def SpObj.substates (o : SpObj) : List (Nat × List Nat) :=
  match o.snap with
  | some s => OmplModel.Copy.substateLocs s
  | none => []

/-- `setup()` / `computeLocations()` as coded: the tables are rebuilt from the structure the object has now -/
def SpObj.setup (o : SpObj) : SpObj := { o with snap := some o.cur }

/-- the variant "compute the locations only once" (seeded change C09-s6), for the witness only -/
def SpObj.setupIfEmpty (o : SpObj) : SpObj :=
  if o.valueLocations.isEmpty then { o with snap := some o.cur } else o

def SpObj.edit (o : SpObj) : Edit → SpObj
  | .addDim nm => { o with cur := (editFirst addDimF nm o.cur).1 }
  | .addSub nm c =>
    if o.locked.contains nm then o      -- `addSubspace` throws: "This state space is locked"
    else { o with cur := (editFirst (addSubF c) nm o.cur).1 }
  | .rename old new =>
    let cur' := (editFirst (setNameF new) old o.cur).1
    let locked' := o.locked.map (fun n => if n = old then new else n)
    -- `setName` on the root object itself recomputes its tables when they are not empty; renaming a node below leaves the
    -- root's tables as they are until the root is set up again
    if o.cur.name = old && !o.valueLocations.isEmpty then { cur := cur', snap := some cur', locked := locked' }
    else { o with cur := cur', locked := locked' }
  | .lock nm => { o with locked := nm :: o.locked }
  | .weight _ => o

inductive Step where
  | edit (e : Edit)
  | setup

def SpObj.step (o : SpObj) : Step → SpObj
  | .edit e => o.edit e
  | .setup => o.setup

def SpObj.run (o : SpObj) (h : List Step) : SpObj := h.foldl SpObj.step o

/-- `copyToReals` of the object: the cached locations, resolved in the state as it is laid out now -/
def SpObj.copyToReals (o : SpObj) (st : St) : List Nat :=
  o.valueLocations.map (fun loc => readBits st (resolve o.cur loc))

/-- `copyFromReals` -/
def SpObj.copyFromReals (o : SpObj) (st : St) (reals : List Nat) : St :=
  writeAll o.cur st o.valueLocations reals

end OmplModel.Copy
