/-
Planners as oracle machines (DESIGN 1.4).

A planner learns about the world only by asking questions (`isValid(s)`, `checkMotion(a,b)`, …).
A run is therefore a tree `Comp Q A Out`: either it is finished with an output, or it asks a
question `q : Q` and continues with whatever answer `a : A` it gets.  `run env c` plays `c`
against an environment `env : Q → A` and returns the transcript (the questions asked, each with
the answer received, in order) together with the output.

Core Lean only (no Mathlib).  Theorems are in `Proofs/Oracle.lean`.

Also here: the local model of the discrete motion check used by the discipline theorems
(`checkMotion`: the end state and every interior subdivision point `interp a b j n`, `0 < j < n`,
is valid — the *verdict* of `DiscreteMotionValidator::checkMotion`, whose query order is C05's
business, not needed here).
-/
namespace OmplModel.Oracle

inductive Comp (Q A Out : Type) where
  | done (o : Out)
  | ask (q : Q) (k : A → Comp Q A Out)

variable {Q A Out : Type}

/-- play a computation against an environment: (transcript, output) -/
def run (env : Q → A) : Comp Q A Out → List (Q × A) × Out
  | .done o => ([], o)
  | .ask q k =>
    let r := run env (k (env q))
    ((q, env q) :: r.1, r.2)

/-- the questions a run asked -/
def asked (env : Q → A) (c : Comp Q A Out) : List Q := (run env c).1.map (·.1)

/-- sequencing (so that planners can be written as programs) -/
def Comp.bind {Out' : Type} : Comp Q A Out → (Out → Comp Q A Out') → Comp Q A Out'
  | .done o, f => f o
  | .ask q k, f => .ask q (fun a => (k a).bind f)

/-- ask one question -/
def Comp.query (q : Q) : Comp Q A A := .ask q .done

/-- point update of an environment -/
def flip [DecidableEq Q] (env : Q → A) (q0 : Q) (a0 : A) : Q → A :=
  fun q => if q = q0 then a0 else env q

/-- the environment that differs from `env` exactly on the set `S`, where it answers `bad`
(an obstacle dropped onto the stretch `S`) -/
def blockOn (S : Q → Bool) (bad : A) (env : Q → A) : Q → A :=
  fun q => if S q then bad else env q

/-! ### the motion check the discipline theorems talk about -/

/-- the states `checkMotion(a,b)` asks about: `b` itself and the interior subdivision points
`interpolate(a, b, j/n)`, `0 < j < n`, `n = validSegmentCount(a, b)`.  (`a` is assumed valid by
the code and not asked.) -/
def motionPoints {S : Type} (interp : S → S → Nat → Nat → S) (segCount : S → S → Nat) (a b : S) : List S :=
  b :: ((List.range (segCount a b - 1)).map (fun k => interp a b (k + 1) (segCount a b)))

/-- verdict of `DiscreteMotionValidator::checkMotion(a, b)`: every asked state is valid.  The code
stops at the first invalid one; the verdict is the same. -/
def checkMotion {S : Type} (valid : S → Bool) (interp : S → S → Nat → Nat → S) (segCount : S → S → Nat)
    (a b : S) : Bool :=
  (motionPoints interp segCount a b).all valid

end OmplModel.Oracle
