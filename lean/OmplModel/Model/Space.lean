import OmplModel.Model.Num
/-
Shared *types* of the state-space models (C06 distance, C07 interpolation, C08 bounds/samplers).
Core Lean only.  The functions live in the per-property model files.

A compound space/state is a cons-list encoded in the inductive itself (`cnil`/`ccons`), so that
ordinary structural recursion and `induction` work for arbitrarily nested compounds.
The special spaces of src/ompl/base/spaces/special are compounds of SO(2) and R^1 components in
the code as well (Torus = [so2, so2], Mobius = [so2, rv1], Klein = [rv1, so2], Sphere = [so2, rv1]);
their states use the same `ccons` encoding and only their space constructor differs.
-/
namespace OmplModel

inductive Space (α : Type) where
  | rv (lo hi : List α)                       -- RealVectorStateSpace with bounds
  | so2
  | so3
  | time (bounded : Bool) (lo hi : α)         -- TimeStateSpace
  | disc (lo hi : Int)                        -- DiscreteStateSpace
  | cnil                                      -- empty compound
  | ccons (w : α) (head tail : Space α)       -- compound: weighted head component, then the rest
  | torus (R r : α)
  | mobius (imax rad : α)
  | klein
  | sphere (r : α)
  | wrap (s : Space α)                        -- WrapperStateSpace
deriving Repr, Inhabited

inductive St (α : Type) where
  | rv (xs : List α)
  | so2 (v : α)
  | so3 (x y z w : α)
  | time (t : α)
  | disc (v : Int)
  | cnil
  | ccons (head tail : St α)
deriving Repr, Inhabited

namespace Space
variable {α : Type}

/-- the compound structure a special space is built from (weights 1), as its constructor does -/
def expand [Num α] : Space α → Space α
  | torus _ _ => ccons 1 so2 (ccons 1 so2 cnil)
  | mobius imax _ => ccons 1 so2 (ccons 1 (rv [-imax] [imax]) cnil)
  | klein => ccons 1 (rv [0] [Num.pi]) (ccons 1 so2 cnil)
  | sphere _ => ccons 1 so2 (ccons 1 (rv [0] [Num.pi]) cnil)
  | s => s

/-- `st` has the shape of a state of `sp` -/
def wellTyped [Num α] : Space α → St α → Bool
  | rv lo hi, .rv xs => xs.length == lo.length && lo.length == hi.length
  | so2, .so2 _ => true
  | so3, .so3 .. => true
  | time .., .time _ => true
  | disc .., .disc _ => true
  | cnil, .cnil => true
  | ccons _ h t, .ccons sh st => wellTyped h sh && wellTyped t st
  | torus _ _, .ccons (.so2 _) (.ccons (.so2 _) .cnil) => true
  | mobius _ _, .ccons (.so2 _) (.ccons (.rv [_]) .cnil) => true
  | klein, .ccons (.rv [_]) (.ccons (.so2 _) .cnil) => true
  | sphere _, .ccons (.so2 _) (.ccons (.rv [_]) .cnil) => true
  | wrap s, st => wellTyped s st
  | _, _ => false

end Space
end OmplModel
