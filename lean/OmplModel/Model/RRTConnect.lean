import OmplModel.Model.PlannerReport
/-
Executable model of `ompl::geometric::RRTConnect::solve` / `growTree`
(src/ompl/geometric/planners/rrt/src/RRTConnect.cpp).  Core Lean only: linked into `drv_rrt`.

Two trees, each an array of `(state, parent index, root state)` in insertion order
(`NearestNeighborsLinear`, installed by the lock-step harness).  ONE loop iteration consumes one
scripted uniform draw (what `sampler_->sampleUniform(rstate)` returned); goal states come from the
oracle `goalSample k` (the `k`-th `sampleGoal` handed to this planner's `PlannerInputStates`) through the
L0 model of `nextGoal`.  The termination condition is a counter: `ptc = n` answers `false` to the next
`n` evaluations and `true` from then on (what the harness's evaluation-counting condition does);
`nextGoal(ptc)` consumes evaluations exactly as coded (L0 `goalOuter`, without the 10 ms sleeps).

Generic over the state type `S` and number type `D`; every space / environment / goal operation is a
field of `Cfg` (an oracle).

Abstractions (checked by the lock-step correspondence):
* states are values; `Motion*` is an index into its tree; `root` is the root's state;
* `distanceBetweenTrees_` (a progress read-out) is not modelled;
* `while (gsc == ADVANCED) gsc = growTree(...)` is bounded by `connectFuel` (the code's loop is
  unbounded; running out of fuel is reported by the driver and never happened);
* `getMotionStates(a, b, states, validSegmentCount(a,b), true, true)` yields `a`, the `count` interior
  points `interpolate(a, b, j/(count+1))`, `b` (just `a, b` for `count + 1 < 2`);
* when `startMotion` is a root the code steps back on the goal side (`goalMotion = goalMotion->parent`);
  if that is null as well the code would report the start-side path alone — mirrored (`none`), never
  reached because both motions were just added and have parents.
-/
namespace OmplModel.RRTConnect
open OmplModel.PlannerReport

structure Cfg (S D : Type) where
  dist : S → S → D
  interp : S → S → D → S
  lt : D → D → Bool
  div : D → D → D
  frac : Nat → Nat → D
  inf : D
  zero : D
  maxDistance : D
  bounds : S → Bool
  valid : S → Bool
  checkMotion : S → S → Bool
  segCount : S → S → Nat
  equalStates : S → S → Bool
  /-- `goal->isSatisfied(s, &dist)`: only the distance is used -/
  goalDist : S → D
  /-- the `k`-th state `goal->sampleGoal` hands out -/
  goalSample : Nat → S
  /-- `maxSampleCount()` (`canSample() == couldSample() == (maxSampleCount() > 0)`) -/
  maxGoalSamples : Nat
  /-- `goal->isStartGoalPairValid(startRoot, goalRoot)` -/
  pairValid : S → S → Bool
  addIntermediate : Bool
  connectFuel : Nat

structure Node (S : Type) where
  state : S
  parent : Option Nat
  root : S

inductive Grow where
  | trapped | advanced | reached
deriving DecidableEq, Repr

variable {S D : Type}

def nearestStep (cfg : Cfg S D) (tree : Array (Node S)) (q : S) (acc : Nat × D) (i : Nat) : Nat × D :=
  match tree[i]? with
  | none => acc
  | some nd =>
    let d := cfg.dist nd.state q
    if acc.1 == tree.size || cfg.lt d acc.2 then (i, d) else acc

/-- `NearestNeighborsLinear::nearest` (first minimum); `tree.size` for an empty tree -/
def nearest (cfg : Cfg S D) (tree : Array (Node S)) (q : S) : Nat :=
  ((List.range tree.size).foldl (nearestStep cfg tree q) (tree.size, cfg.zero)).1

/-- the interior points and `b` of `getMotionStates(a, b, states, validSegmentCount(a, b), true, true)` -/
def motionStates (cfg : Cfg S D) (a b : S) : List S :=
  let count := cfg.segCount a b - 1
  if count + 1 < 2 then [b]
  else (List.range count).map (fun j => cfg.interp a b (cfg.frac (j + 1) (count + 1))) ++ [b]

/-- `add_state` applied to a list of states: each becomes the child of the previous one -/
def addChain (tree : Array (Node S)) (parent : Nat) (root : S) : List S → Array (Node S) × Nat
  | [] => (tree, parent)
  | s :: r => addChain (tree.push ⟨s, some parent, root⟩) tree.size root r

structure GrowResult (S : Type) where
  gs : Grow
  tree : Array (Node S)
  /-- `tgi.xstate` after the call -/
  xstate : S
  /-- `tgi.xmotion` after the call (unchanged when trapped) -/
  xmotion : Nat

/-- `growTree(tree, tgi, rmotion)`; `startSide = tgi.start`. -/
def growTree (cfg : Cfg S D) (tree : Array (Node S)) (startSide : Bool) (rstate xstate : S) (xmotion : Nat) :
    GrowResult S :=
  let ni := nearest cfg tree rstate
  match tree[ni]? with
  | none => ⟨.trapped, tree, xstate, xmotion⟩
  | some nm =>
    let d := cfg.dist nm.state rstate
    let trunc := cfg.lt cfg.maxDistance d
    let x := cfg.interp nm.state rstate (cfg.div cfg.maxDistance d)
    if trunc && cfg.equalStates nm.state x then ⟨.trapped, tree, x, xmotion⟩
    else
      let dstate := if trunc then x else rstate
      let xstate' := if trunc then x else xstate
      let validMotion := if startSide then cfg.checkMotion nm.state dstate
                         else cfg.valid dstate && cfg.checkMotion dstate nm.state
      if !validMotion then ⟨.trapped, tree, xstate', xmotion⟩
      else
        let toAdd : List S :=
          if cfg.addIntermediate then
            if startSide then motionStates cfg nm.state dstate
            else (dstate :: (motionStates cfg dstate nm.state).dropLast).reverse
          else [dstate]
        let added := addChain tree ni nm.root toAdd
        ⟨if trunc then .advanced else .reached, added.1, xstate', added.2⟩

/-- `while (gsc == ADVANCED) gsc = growTree(otherTree, tgi, rmotion);` -/
def connectLoop (cfg : Cfg S D) (otherSide : Bool) (rstate : S) : Nat → GrowResult S → GrowResult S
  | 0, r => r
  | fuel + 1, r =>
    if r.gs = .advanced then
      connectLoop cfg otherSide rstate fuel (growTree cfg r.tree otherSide rstate r.xstate r.xmotion)
    else r

/-- states from the root to node `i` (as `RRT.pathTo`), prepended to `acc` -/
def pathTo (tree : Array (Node S)) : Nat → Nat → List S → List S
  | 0, _, acc => acc
  | fuel + 1, i, acc =>
    match tree[i]? with
    | none => acc
    | some nd =>
      match nd.parent with
      | none => nd.state :: acc
      | some p => pathTo tree fuel p (nd.state :: acc)

/-- `mpath2`: states from node `i` up to its root, in that order -/
def pathUp (tree : Array (Node S)) (i : Nat) : List S := (pathTo tree (i + 1) i []).reverse

structure St (S D : Type) where
  tStart : Array (Node S)
  tGoal : Array (Node S)
  /-- the member `startTree_` -/
  startTree : Bool
  pis : Pis
  /-- evaluations of the termination condition that will still answer `false` -/
  ptc : Nat
  approxsol : Option Nat
  approxdif : D
  /-- arguments of the exact `addSolutionPath(path, false, 0.0)`, once made -/
  exact : Option (List S)
  status : Status
  done : Bool
  fuelOut : Bool

def ptcScript (n : Nat) : List Bool := List.replicate n false

/-- a goal state handed out by `nextGoal` becomes a root of the goal tree -/
def addGoalRoot (tGoal : Array (Node S)) : Option (Nat × S) → Array (Node S)
  | some x => tGoal.push ⟨x.2, none, x.2⟩
  | none => tGoal

/-- `goal->isStartGoalPairValid(startMotion->root, goalMotion->root)` -/
def rootsValid (cfg : Cfg S D) (tS tG : Array (Node S)) (startMotion goalMotion : Nat) : Bool :=
  match tS[startMotion]?, tG[goalMotion]? with
  | some sm, some gm => cfg.pairValid sm.root gm.root
  | _, _ => false

/-- the solution path at the connection point: one step back on the start side (or, if `startMotion` is a
root, on the goal side), start-tree states from the root down, goal-tree states up to the root -/
def connectPath (tS tG : Array (Node S)) (startMotion goalMotion : Nat) : List S :=
  match tS[startMotion]? with
  | none => []
  | some sm =>
    match sm.parent with
    | some sp => pathTo tS (sp + 1) sp [] ++ pathUp tG goalMotion
    | none =>
      pathTo tS (startMotion + 1) startMotion [] ++
        (match tG[goalMotion]? with
         | some gm => (match gm.parent with | some gp => pathUp tG gp | none => [])
         | none => [])

/-- the goal-sampling block at the top of the loop body. -/
def sampleGoals (cfg : Cfg S D) (st : St S D) : St S D :=
  if st.tGoal.size = 0 || decide (st.pis.sampledGoalsCount < st.tGoal.size / 2) then
    let r := if st.tGoal.size = 0 then
        goalOuter cfg.bounds cfg.valid cfg.goalSample cfg.maxGoalSamples (st.ptc + 1) st.pis.sampledGoalsCount (ptcScript st.ptc)
      else
        goalOuter cfg.bounds cfg.valid cfg.goalSample cfg.maxGoalSamples 1 st.pis.sampledGoalsCount []
    let ptc' := if st.tGoal.size = 0 then r.2.2.length else st.ptc
    let tGoal' := addGoalRoot st.tGoal r.1
    let st' := { st with tGoal := tGoal', pis := { st.pis with sampledGoalsCount := r.2.1 }, ptc := ptc' }
    if tGoal'.size = 0 then { st' with status := .invalidGoal, done := true } else st'
  else st

/-- the rest of the loop body, after `sampler_->sampleUniform(rstate)` returned `u`.
`side` is the value `tgi.start` got at the top of the body (`startTree_` was already flipped). -/
def extend (cfg : Cfg S D) (st : St S D) (side : Bool) (u : S) : St S D :=
  let tree := if side then st.tStart else st.tGoal
  let other := if side then st.tGoal else st.tStart
  let g := growTree cfg tree side u u 0
  if g.gs = .trapped then
    (if side then { st with tStart := g.tree } else { st with tGoal := g.tree })
  else
    let added := g.xmotion
    let rstate := if g.gs = .reached then u else g.xstate
    -- tgi.start = startTree_ (the other side); first attempt to connect
    let c0 := growTree cfg other (!side) rstate g.xstate g.xmotion
    let tgiStart := if c0.gs = .trapped then side else !side
    let c := connectLoop cfg (!side) rstate cfg.connectFuel c0
    let fuelOut := decide (c.gs = .advanced)
    let tStart' := if side then g.tree else c.tree
    let tGoal' := if side then c.tree else g.tree
    let st1 := { st with tStart := tStart', tGoal := tGoal', fuelOut := st.fuelOut || fuelOut }
    let startMotion := if tgiStart then c.xmotion else added
    let goalMotion := if tgiStart then added else c.xmotion
    if c.gs = .reached && rootsValid cfg tStart' tGoal' startMotion goalMotion then
      let path := connectPath tStart' tGoal' startMotion goalMotion
      { st1 with exact := some path, done := true }
    else if tgiStart then
      match tStart'[c.xmotion]? with
      | none => st1
      | some xm =>
        let dist := cfg.goalDist xm.state
        if cfg.lt dist st1.approxdif then { st1 with approxdif := dist, approxsol := some c.xmotion } else st1
    else st1

/-- top of one loop turn: the `while (!ptc)` evaluation (`none`: it answered true), the `startTree_` flip and the
goal-sampling block.  Returns the state and the value `tgi.start` got. -/
def pre (cfg : Cfg S D) (st : St S D) : Option (St S D × Bool) :=
  match st.ptc with
  | 0 => none
  | n + 1 => some (sampleGoals cfg { st with ptc := n, startTree := !st.startTree }, st.startTree)

/-- the `while (!ptc)` loop over the scripted uniform draws.  Returns the state, the draws left over and
whether the script ran out before the termination condition fired. -/
def loop (cfg : Cfg S D) : St S D → List S → St S D × List S × Bool
  | st, [] =>
    match pre cfg st with
    | none => (st, [], false)
    | some (st0, _) => (st0, [], !st0.done)
  | st, u :: rest =>
    match pre cfg st with
    | none => (st, u :: rest, false)
    | some (st0, side) =>
      if st0.done then (st0, u :: rest, false)
      else
        let st1 := extend cfg st0 side u
        if st1.done then (st1, rest, false) else loop cfg st1 rest

structure Report (S D : Type) where
  status : Status
  /-- the arguments of `pdef_->addSolutionPath(path, approximate, difference, name)`, if called -/
  added : Option (List S × Bool × D)
  tStart : Array (Node S)
  tGoal : Array (Node S)
  pis : Pis
  startTree : Bool
  unusedDraws : Nat
  scriptShort : Bool
  fuelOut : Bool

def initTree (cfg : Cfg S D) (starts : Array S) : Array (Node S) × Pis :=
  let r := drainStarts cfg.bounds cfg.valid starts (starts.size + 1) {}
  ((r.1.map (fun x => (⟨x.2, none, x.2⟩ : Node S))).toArray, r.2)

/-- `RRTConnect::solve`; `ptc` = number of evaluations of the termination condition that answer false,
`startTree` = the member `startTree_` on entry (true on a fresh planner). -/
def solve (cfg : Cfg S D) (starts : Array S) (ptc : Nat) (startTree : Bool) (script : List S) : Report S D :=
  let init := initTree cfg starts
  if init.1.size = 0 then ⟨.invalidStart, none, init.1, #[], init.2, startTree, script.length, false, false⟩
  else if cfg.maxGoalSamples = 0 then ⟨.invalidGoal, none, init.1, #[], init.2, startTree, script.length, false, false⟩
  else
    let r := loop cfg ⟨init.1, #[], startTree, init.2, ptc, none, cfg.inf, none, .timeout, false, false⟩ script
    let st := r.1
    let res : Status × Option (List S × Bool × D) :=
      match st.exact with
      | some path => (.exactSolution, some (path, false, cfg.zero))
      | none =>
        match st.approxsol with
        | some i => (.approximateSolution, some (pathTo st.tStart (i + 1) i [], true, st.approxdif))
        | none => (st.status, none)
    ⟨res.1, res.2, st.tStart, st.tGoal, st.pis, st.startTree, r.2.1.length, r.2.2, st.fuelOut⟩

end OmplModel.RRTConnect
