/-
Model of `ompl::geometric::RRTstar::solve` (src/ompl/geometric/planners/rrt/src/RRTstar.cpp) with the
DEFAULT settings, as coded.

Core Lean only (no Mathlib): linked into the native driver `drv_rrtstar`.

Options covered: `useKNearest_ = true` (k = ceil(k_rrt * log(n+1)) nearest,
then the `distance < maxDistance_` filter before every collision check), `delayCC_ = true` (the default: candidates
sorted by cost, collision-checked in that order until one is valid) AND `delayCC_ = false` (round 10: the classic
choose-parent loop over the neighbourhood in `nearestK` order, `Space.delayCC`), `useTreePruning_ = false`,
`useInformedSampling_ = useRejectionSampling_ = useNewStateRejection_ = useOrderedSampling_ = false`,
no intermediate-solution callback, one start state, a sampleable goal (`GoalState`:
`maxSampleCount() = 1`, `canSample()`), `NearestNeighborsLinear`.
NOT covered: r-disc neighbourhoods, pruning, informed / rejection / ordered sampling,
new-state rejection, the intermediate solution callback, several start states added later.

Generic in the state type `σ`, the cost type `α` (objective = abstract `(identity, infinite, combine,
better, motionCost, symmetric, threshold)`) and the distance type `δ`; the driver instantiates
`σ = List Float`, `α = δ = Float` with the path-length objective.

External inputs are oracle pools consumed in the order the code consumes them: the planner's own
`rng_.uniform01()` draws (goal bias; drawn only while fewer goal motions than `maxSampleCount()` are
in the tree), the state sampler's `sampleUniform` results, and the answers of `si_->checkMotion`.

Abstractions (checked by the lock-step run, not assumed silently):
* motions are numbered by creation order = order in `NearestNeighborsLinear::data_`; pointers → indices.
* `std::sort` / `std::partial_sort` (in `nearestK`, and of the candidate indices by cost) are unstable;
  the model sorts stably and raises `tie` when two compared keys are exactly equal, in which case the
  lock-step comparison of that run is inconclusive (counted, never seen on random inputs).
* `updateChildCosts` recurses with fuel = number of motions (the C++ recursion is unbounded; on a
  tree the fuel is never exhausted — `fuelOut` records if it ever were).
* `validLog` (the pairs `checkMotion` answered valid) and `queries` are ghost logs for the theorems
  and the per-iteration digest; they influence nothing.
-/
namespace OmplModel.RRTstar

/-- the optimization objective, abstractly. `symmetric` is `opt_->isSymmetric()`. -/
structure Obj (σ α : Type) where
  identity : α
  infinite : α
  combine : α → α → α
  better : α → α → Bool
  motionCost : σ → σ → α
  symmetric : Bool
  threshold : α

variable {σ α δ : Type}

/-- `opt_->isSatisfied(c)` -/
def Obj.isSatisfied (o : Obj σ α) (c : α) : Bool := o.better c o.threshold

/-- what the planner asks of the space, the goal and its own parameters. -/
structure Space (σ δ : Type) where
  dist : σ → σ → δ
  /-- `<` on `double` -/
  dlt : δ → δ → Bool
  /-- `interpolate(from, to, maxDistance_ / d, xstate)` -/
  steer : σ → σ → δ → σ
  maxDistance : δ
  /-- `goal->distanceGoal(s)` -/
  goalDist : σ → δ
  goalThr : δ
  /-- `goal_s->sampleGoal` -/
  goalState : σ
  /-- `goal_s->maxSampleCount()` -/
  maxGoalSamples : Nat
  goalBias : δ
  /-- `n ↦ (unsigned) ceil(k_rrt_ * log(n + 1))`, `n = nn_->size()` -/
  kNearest : Nat → Nat
  /-- `+inf`, the initial `approxDist` -/
  dinf : δ
  /-- `delayCC_` (`setDelayCC`, parameter `delay_collision_checking`; default true) -/
  delayCC : Bool := true
  /-- the classic loop as coded BEFORE fix e1b5ec649 (F340): `nbh[i] == nmotion` caches `motion->incCost`, the new motion's
  CURRENT edge cost.  `false` (the default) = the code as it is now: it caches `nmotionIncCost`, the edge from `nmotion`. -/
  classicOld : Bool := false

/-- `RRTstar::Motion` -/
structure Motion (σ α : Type) where
  state : σ
  parent : Option Nat
  cost : α
  incCost : α
  children : List Nat
  inGoal : Bool

/-- planner state + oracle pools + ghost logs. -/
structure St (σ α δ : Type) where
  motions : Array (Motion σ α) := #[]
  goalMotions : List Nat := []
  bestGoal : Option Nat := none
  bestCost : α
  iterations : Nat := 0
  /-- locals of one `solve()` call -/
  approxGoal : Option Nat := none
  approxDist : δ
  u01s : List δ := []
  samples : List σ := []
  answers : List Bool := []
  /-- ghost: pairs answered valid so far -/
  validLog : List (σ × σ) := []
  /-- ghost: queries of the current iteration, in call order -/
  queries : List (σ × σ) := []
  tie : Bool := false
  starved : Bool := false
  fuelOut : Bool := false
  /-- ghost (classic choose-parent loop only): some pass cached `motion->incCost` for `nmotion` AFTER a better parent had
  already replaced it (see `classicStep`); sticky. -/
  staleInc : Bool := false

/-- `setup()`: `bestCost_ = opt_->infiniteCost()`. -/
def St.init (o : Obj σ α) (sp : Space σ δ) : St σ α δ :=
  { bestCost := o.infinite, approxDist := sp.dinf }

/-- `pis_.nextStart()` loop of `solve()`: a start motion has `cost = identityCost()`, `incCost = Cost()`
(kept as the identity here), no parent. -/
def St.addStart (o : Obj σ α) (s : St σ α δ) (x : σ) : St σ α δ :=
  let m : Motion σ α :=
    { state := x, parent := none, cost := o.identity, incCost := o.identity, children := [], inGoal := false }
  { s with motions := s.motions.push m }

/-- `si_->checkMotion(a, b)`: next oracle answer (invalid and `starved` when the pool is dry). -/
def St.checkMotion (s : St σ α δ) (a b : σ) : Bool × St σ α δ :=
  match s.answers with
  | [] => (false, { s with starved := true, queries := s.queries ++ [(a, b)] })
  | v :: rest =>
    (v, { s with answers := rest, queries := s.queries ++ [(a, b)],
                 validLog := if v then (a, b) :: s.validLog else s.validLog })

/-- `NearestNeighborsLinear::nearest`: first index of minimal distance (`dmin > distance` is strict). -/
def nearestIdx (sp : Space σ δ) (ms : Array (Motion σ α)) (x : σ) : Option Nat :=
  let rec go (i : Nat) (best : Option (Nat × δ)) : List (Motion σ α) → Option (Nat × δ)
    | [] => best
    | m :: rest =>
      let d := sp.dist m.state x
      match best with
      | none => go (i + 1) (some (i, d)) rest
      | some (_, dmin) => if sp.dlt d dmin then go (i + 1) (some (i, d)) rest else go (i + 1) best rest
  (go 0 none ms.toList).map (·.1)

/-- stable insertion of `(key, idx)` by `lt` on keys; reports whether an equal key was met. -/
def insertKey {κ : Type} (lt : κ → κ → Bool) (x : κ × Nat) : List (κ × Nat) → List (κ × Nat) × Bool
  | [] => ([x], false)
  | y :: ys =>
    if lt x.1 y.1 then (x :: y :: ys, false)
    else
      let (r, t) := insertKey lt x ys
      (y :: r, t || !lt y.1 x.1)

/-- stable sort by key; second component: some comparison met exactly equal keys. -/
def sortKeys {κ : Type} (lt : κ → κ → Bool) (l : List (κ × Nat)) : List (κ × Nat) × Bool :=
  l.foldl (fun (acc : List (κ × Nat) × Bool) x =>
    let (r, t) := insertKey lt x acc.1
    (r, acc.2 || t)) ([], false)

/-- `nn_->nearestK(motion, k, nbh)`: all motions sorted by distance to `x`, the first `k` of them.
(`ElemSort` compares `dist(a, e) < dist(b, e)`; the model's `dist m.state x` is that distance.) -/
def nearestK (sp : Space σ δ) (ms : Array (Motion σ α)) (x : σ) (k : Nat) : List Nat × Bool :=
  let keyed := (List.range ms.size).zip ms.toList |>.map (fun p => (sp.dist p.2.state x, p.1))
  let (sorted, t) := sortKeys sp.dlt keyed
  ((sorted.take k).map (·.2), t)

/-! ### `std::sort` of libstdc++ (introsort), ported statement by statement

The candidate indices are sorted by cost with `std::sort`, which is not stable; candidates of exactly
equal cost are common (a motion steered towards the goal lies on the segment from its parent to the
goal, so the goal's cost through either is the same), and the order among them decides which edge is
collision-checked first.  The lock-step therefore needs the very permutation `std::sort` produces:
`__introsort_loop` (median of three moved to the front, `__unguarded_partition`, depth limit
`2*floor(log2 n)`) followed by `__final_insertion_sort` (threshold 16), as in bits/stl_algo.h of
libstdc++ 12.  The heap-sort fallback at depth 0 is not ported: `stdSort` reports it (second component)
and the run counts as inconclusive.  `c x y` is the comparator on *values* of the array.
Every loop carries fuel; no theorem depends on what this function returns. -/

def linearInsert (c : Nat → Nat → Bool) (a : Array Nat) (last : Nat) : Array Nat :=
  let val := a[last]!
  let rec go : Nat → Array Nat → Nat → Array Nat
    | 0, a, last => a.set! last val
    | f + 1, a, last =>
      if last = 0 then a.set! last val
      else if c val a[last - 1]! then go f (a.set! last a[last - 1]!) (last - 1)
      else a.set! last val
  go (last + 1) a last

/-- `__insertion_sort(first, last)` -/
def insertionSort (c : Nat → Nat → Bool) (a : Array Nat) (first last : Nat) : Array Nat :=
  (List.range (last - first)).foldl (fun (a : Array Nat) k =>
    let i := first + k
    if k = 0 then a
    else if c a[i]! a[first]! then
      -- move_backward(first, i, i + 1); *first = val
      let val := a[i]!
      let a := (List.range k).foldl (fun (a : Array Nat) j => a.set! (i - j) a[i - j - 1]!) a
      a.set! first val
    else linearInsert c a i) a

/-- `__final_insertion_sort(first, last)` -/
def finalInsertionSort (c : Nat → Nat → Bool) (a : Array Nat) (first last : Nat) : Array Nat :=
  if last - first > 16 then
    let a := insertionSort c a first (first + 16)
    (List.range (last - first - 16)).foldl (fun (a : Array Nat) k => linearInsert c a (first + 16 + k)) a
  else insertionSort c a first last

/-- `__move_median_to_first(result, a, b, c)` -/
def moveMedianToFirst (c : Nat → Nat → Bool) (arr : Array Nat) (result ia ib ic : Nat) : Array Nat :=
  let va := arr[ia]!
  let vb := arr[ib]!
  let vc := arr[ic]!
  if c va vb then
    if c vb vc then arr.swapIfInBounds result ib
    else if c va vc then arr.swapIfInBounds result ic
    else arr.swapIfInBounds result ia
  else if c va vc then arr.swapIfInBounds result ia
  else if c vb vc then arr.swapIfInBounds result ic
  else arr.swapIfInBounds result ib

/-- `__unguarded_partition(first, last, pivot)` -/
def unguardedPartition (c : Nat → Nat → Bool) (pivot : Nat) : Nat → Array Nat → Nat → Nat → Array Nat × Nat
  | 0, a, first, _ => (a, first)
  | fuel + 1, a, first, last =>
    let pv := a[pivot]!
    let rec up : Nat → Nat → Nat
      | 0, i => i
      | f + 1, i => if i < a.size && c a[i]! pv then up f (i + 1) else i
    let first := up a.size first
    let last := last - 1
    let rec down : Nat → Nat → Nat
      | 0, j => j
      | f + 1, j => if c pv a[j]! then down f (j - 1) else j
    let last := down a.size last
    if !(first < last) then (a, first)
    else unguardedPartition c pivot fuel (a.swapIfInBounds first last) (first + 1) last

/-- `__introsort_loop(first, last, depth_limit)`; the flag reports the (unported) heap-sort fallback. -/
def introsortLoop (c : Nat → Nat → Bool) : Nat → Array Nat → Nat → Nat → Nat → Array Nat × Bool
  | 0, a, _, _, _ => (a, true)
  | fuel + 1, a, first, last, depth =>
    if last - first > 16 then
      if depth = 0 then (a, true)
      else
        let mid := first + (last - first) / 2
        let a := moveMedianToFirst c a first (first + 1) mid (last - 1)
        let (a, cut) := unguardedPartition c first a.size a (first + 1) last
        let (a, h1) := introsortLoop c fuel a cut last (depth - 1)
        let (a, h2) := introsortLoop c fuel a first cut (depth - 1)
        (a, h1 || h2)
    else (a, false)

/-- `std::sort(v.begin(), v.end(), comp)` on the values `v`. -/
def stdSort (c : Nat → Nat → Bool) (v : Array Nat) : Array Nat × Bool :=
  if v.size = 0 then (v, false)
  else
    let (a, h) := introsortLoop c (v.size + 2) v 0 v.size (2 * Nat.log2 v.size)
    (finalInsertionSort c a 0 a.size, h)

/-- the candidate loop of the `delayCC_` branch: in increasing order of cost, take the first candidate
that is `nmotion` or (closer than `maxDistance_` and) collision-free; `valid[i] = 1` for it, `-1` for
the ones rejected before it, `0` for the ones never looked at.
`cands` are `(position i in nbh, motion index nbh[i])` in sorted order. -/
def chooseParent (sp : Space σ δ) (ms : Array (Motion σ α)) (nmotion : Nat) (x : σ) :
    List (Nat × Nat) → St σ α δ → List (Nat × Int) → Option Nat × List (Nat × Int) × St σ α δ
  | [], s, valid => (none, valid, s)
  | (i, mi) :: rest, s, valid =>
    if mi = nmotion then (some i, (i, 1) :: valid, s)
    else
      match ms[mi]? with
      | none => chooseParent sp ms nmotion x rest s ((i, -1) :: valid)
      | some m =>
        if sp.dlt (sp.dist m.state x) sp.maxDistance then
          let (v, s') := s.checkMotion m.state x
          if v then (some i, (i, 1) :: valid, s')
          else chooseParent sp ms nmotion x rest s' ((i, -1) :: valid)
        else chooseParent sp ms nmotion x rest s ((i, -1) :: valid)

/-- `removeFromParent(m)`: erase the first occurrence of `m` from `m->parent->children`. -/
def removeFromParent (ms : Array (Motion σ α)) (m : Nat) : Array (Motion σ α) :=
  match ms[m]? with
  | none => ms
  | some mm =>
    match mm.parent with
    | none => ms
    | some p => ms.modify p (fun pm => { pm with children := pm.children.erase m })

/-- the body of the `for` loop of `updateChildCosts(m)` for child `c`:
`c->cost = combine(m->cost, c->incCost); updateChildCosts(c)` (`recur` is the recursive call). -/
def childStep (o : Obj σ α) (recur : Array (Motion σ α) → Nat → Array (Motion σ α) × Bool) (m : Nat)
    (acc : Array (Motion σ α) × Bool) (c : Nat) : Array (Motion σ α) × Bool :=
  match acc.1[m]?, acc.1[c]? with
  | some cur, some cm =>
    let r := recur (acc.1.set! c { cm with cost := o.combine cur.cost cm.incCost }) c
    (r.1, acc.2 || r.2)
  | _, _ => acc

/-- `updateChildCosts(m)`: `child->cost = combine(m->cost, child->incCost)`, recursively.
Returns the array and whether the fuel ran out. -/
def updateChildCosts (o : Obj σ α) : Nat → Array (Motion σ α) → Nat → Array (Motion σ α) × Bool
  | 0, ms, m =>
    match ms[m]? with
    | some mm => (ms, !mm.children.isEmpty)
    | none => (ms, false)
  | fuel + 1, ms, m =>
    match ms[m]? with
    | none => (ms, false)
    | some mm => mm.children.foldl (childStep o (updateChildCosts o fuel) m) (ms, false)

def validOf (valid : List (Nat × Int)) (i : Nat) : Int :=
  match valid.find? (·.1 = i) with
  | some p => p.2
  | none => 0

/-- `motionValid` of the rewiring loop: the cached answer of the choose-parent loop when there is one
(`valid[i] = ±1`), otherwise (closer than `maxDistance_` and) a fresh `checkMotion(motion, nbh[i])`. -/
def rewireCheck (sp : Space σ δ) (valid : List (Nat × Int)) (i : Nat) (s : St σ α δ) (mot nb : Motion σ α) :
    Bool × St σ α δ :=
  if validOf valid i = 0 then
    if sp.dlt (sp.dist nb.state mot.state) sp.maxDistance then s.checkMotion mot.state nb.state
    else (false, s)
  else (decide (validOf valid i = 1), s)

/-- the body of `if (motionValid)`: `removeFromParent`, new parent / incCost / cost, push to the new
parent's children, `updateChildCosts`. -/
def applyRewire (o : Obj σ α) (s : St σ α δ) (new ni : Nat) (inc cost : α) : St σ α δ :=
  let ms1 := removeFromParent s.motions ni
  let ms2 := ms1.modify ni (fun m => { m with parent := some new, incCost := inc, cost := cost })
  let ms3 := ms2.modify new (fun m => { m with children := m.children ++ [ni] })
  let r := updateChildCosts o ms3.size ms3 ni
  { s with motions := r.1, fuelOut := s.fuelOut || r.2 }

/-- `nbhIncCost`: the cached reverse cost when `opt_->isSymmetric()`, else recomputed. -/
def rewireInc (o : Obj σ α) (incs : List α) (i : Nat) (mot nb : Motion σ α) : α :=
  if o.symmetric then incs.getD i o.identity else o.motionCost mot.state nb.state

/-- one pass of the rewiring loop body for neighbour position `i`, motion index `ni`;
`new` is the index of the freshly inserted motion, `incs[i]` the cached `motionCost(nbh[i], motion)`. -/
def rewireOne (o : Obj σ α) (sp : Space σ δ) (new : Nat) (valid : List (Nat × Int)) (incs : List α)
    (acc : St σ α δ × Bool) (p : Nat × Nat) : St σ α δ × Bool :=
  match acc.1.motions[new]?, acc.1.motions[p.2]? with
  | some mot, some nb =>
    if mot.parent = some p.2 then acc
    else
      if o.better (o.combine mot.cost (rewireInc o incs p.1 mot nb)) nb.cost then
        match rewireCheck sp valid p.1 acc.1 mot nb with
        | (true, s1) =>
          (applyRewire o s1 new p.2 (rewireInc o incs p.1 mot nb) (o.combine mot.cost (rewireInc o incs p.1 mot nb)), true)
        | (false, s1) => (s1, acc.2)
      else acc
  | _, _ => acc

/-- the solution bookkeeping after `checkForSolution`. -/
def updateBest (o : Obj σ α) (s : St σ α δ) : St σ α δ :=
  match s.bestGoal, s.goalMotions with
  | none, g :: _ =>
    -- first solution: `bestGoalMotion_ = goalMotions_.front(); bestCost_ = bestGoalMotion_->cost`
    match s.motions[g]? with
    | some gm => { s with bestGoal := some g, bestCost := gm.cost }
    | none => s
  | _, gs =>
    -- `for goalMotion in goalMotions_: if better(goalMotion->cost, bestCost_) {update; if satisfied break}`
    let rec loop (s : St σ α δ) : List Nat → St σ α δ
      | [] => s
      | g :: rest =>
        match s.motions[g]? with
        | some gm =>
          if o.better gm.cost s.bestCost then
            let s' := { s with bestGoal := some g, bestCost := gm.cost }
            if o.isSatisfied s'.bestCost then s' else loop s' rest
          else loop s rest
        | none => loop s rest
    loop s gs

/-- sampling with goal biasing (the `&&` chain short-circuits: the draw happens only while goals may
still be sampled). -/
def drawSample (sp : Space σ δ) (s : St σ α δ) : Option σ × St σ α δ :=
  if s.goalMotions.length < sp.maxGoalSamples then
    match s.u01s with
    | [] => (none, { s with starved := true })
    | u :: us =>
      let s := { s with u01s := us }
      if sp.dlt u sp.goalBias then (some sp.goalState, s)
      else
        match s.samples with
        | [] => (none, { s with starved := true })
        | x :: xs => (some x, { s with samples := xs })
  else
    match s.samples with
    | [] => (none, { s with starved := true })
    | x :: xs => (some x, { s with samples := xs })

/-- what the insertion stage hands to the rewiring loop. -/
structure Grown (σ α δ : Type) where
  st : St σ α δ
  new : Nat
  valid : List (Nat × Int)
  incs : List α
  nbhP : List (Nat × Nat)

/-- `incCosts[i] = motionCost(nbh[i]->state, motion->state)` -/
def nbhIncs (o : Obj σ α) (ms : Array (Motion σ α)) (dstate : σ) (nbh : List Nat) : List α :=
  nbh.map (fun ni => match ms[ni]? with
    | some m => o.motionCost m.state dstate
    | none => o.identity)

/-- `costs[i] = combineCosts(nbh[i]->cost, incCosts[i])` -/
def nbhCosts (o : Obj σ α) (ms : Array (Motion σ α)) (nbh : List Nat) (incs : List α) : List α :=
  (nbh.zip incs).map (fun p => match ms[p.1]? with
    | some m => o.combine m.cost p.2
    | none => o.identity)

/-- the chosen neighbour's entry of a cache, or the value computed for `nmotion` before the loop. -/
def pickVal {β : Type} (oi : Option Nat) (l : List β) (d : β) : β :=
  match oi with
  | some i => l.getD i d
  | none => d

/-- `nn_->add(motion); motion->parent->children.push_back(motion)` -/
def insertMotion (s1 : St σ α δ) (dstate : σ) (par : Nat) (cost inc : α) (tie : Bool) : St σ α δ :=
  let newMotion : Motion σ α :=
    { state := dstate, parent := some par, cost := cost, incCost := inc, children := [], inGoal := false }
  { s1 with motions := (s1.motions.push newMotion).modify par (fun m => { m with children := m.children ++ [s1.motions.size] }),
            tie := s1.tie || tie }

/-! ### the classic choose-parent loop (`delayCC_ = false`)

```
motion->incCost = motionCost(nmotion, motion); motion->cost = combine(nmotion->cost, motion->incCost);
for i in 0..nbh.size():
  if nbh[i] != nmotion:
    incCosts[i] = motionCost(nbh[i], motion); costs[i] = combine(nbh[i]->cost, incCosts[i]);
    if better(costs[i], motion->cost):
      if ((!useKNearest_ || distance(nbh[i], motion) < maxDistance_) && checkMotion(nbh[i], motion))
        { motion->incCost = incCosts[i]; motion->cost = costs[i]; motion->parent = nbh[i]; valid[i] = 1; }
      else valid[i] = -1;
  else { incCosts[i] = motion->incCost; costs[i] = motion->cost; valid[i] = 1; }
```
Since fix e1b5ec649 the `else` branch reads `incCosts[i] = nmotionIncCost; costs[i] = nmotionCost` (two locals saved before
the loop): `inc0` below.  BEFORE the fix (`Space.classicOld`, kept for trees that do not have it) it cached the new motion's
CURRENT `incCost` — which is `motionCost(nmotion, motion)` only as long as no earlier neighbour has replaced `nmotion` as
the parent.  `stale` records when that was not so (old variant only). -/

/-- the loop variables: `motion->parent/incCost/cost`, `valid[]`, `incCosts[0..i)`, the planner state, the ghost. -/
structure Classic (σ α δ : Type) where
  par : Nat
  inc : α
  cost : α
  valid : List (Nat × Int)
  incs : List α
  st : St σ α δ
  stale : Bool

/-- one pass of the classic loop for neighbour position `p.1`, motion index `p.2`. -/
def classicStep (o : Obj σ α) (sp : Space σ δ) (ms : Array (Motion σ α)) (nmotion : Nat) (x : σ) (inc0 : α)
    (a : Classic σ α δ) (p : Nat × Nat) : Classic σ α δ :=
  if p.2 = nmotion then
    if sp.classicOld then
      { a with incs := a.incs ++ [a.inc], valid := (p.1, 1) :: a.valid, stale := a.stale || decide (a.par ≠ nmotion) }
    else
      { a with incs := a.incs ++ [inc0], valid := (p.1, 1) :: a.valid }
  else
    match ms[p.2]? with
    | none => { a with incs := a.incs ++ [o.identity] }
    | some m =>
      let inc := o.motionCost m.state x
      let cost := o.combine m.cost inc
      if o.better cost a.cost then
        if sp.dlt (sp.dist m.state x) sp.maxDistance then
          match a.st.checkMotion m.state x with
          | (true, s') => { a with par := p.2, inc := inc, cost := cost, valid := (p.1, 1) :: a.valid, incs := a.incs ++ [inc], st := s' }
          | (false, s') => { a with valid := (p.1, -1) :: a.valid, incs := a.incs ++ [inc], st := s' }
        else { a with valid := (p.1, -1) :: a.valid, incs := a.incs ++ [inc] }
      else { a with incs := a.incs ++ [inc] }

/-- `getNeighbors`, then the classic loop, then the insertion of the new motion under the chosen parent. -/
def growInsertClassic (o : Obj σ α) (sp : Space σ δ) (s : St σ α δ) (nmotion : Nat) (nm : Motion σ α) (dstate : σ) :
    Grown σ α δ :=
  let inc0 := o.motionCost nm.state dstate
  let nk := nearestK sp s.motions dstate (sp.kNearest s.motions.size)
  let nbhP := (List.range nk.1.length).zip nk.1
  let a := nbhP.foldl (classicStep o sp s.motions nmotion dstate inc0)
    { par := nmotion, inc := inc0, cost := o.combine nm.cost inc0, valid := [], incs := [], st := s, stale := false }
  { st := insertMotion { a.st with staleInc := a.st.staleInc || a.stale } dstate a.par a.cost a.inc nk.2,
    new := a.st.motions.size, valid := a.valid, incs := a.incs, nbhP := nbhP }

/-- `getNeighbors`, the cost caches, the choose-parent loop (delayed collision checking) and the
insertion of the new motion under the chosen parent. -/
def growInsertDelayed (o : Obj σ α) (sp : Space σ δ) (s : St σ α δ) (nmotion : Nat) (nm : Motion σ α) (dstate : σ) :
    Grown σ α δ :=
  let inc0 := o.motionCost nm.state dstate
  let cost0 := o.combine nm.cost inc0
  -- getNeighbors
  let nk := nearestK sp s.motions dstate (sp.kNearest s.motions.size)
  let nbh := nk.1
  let incs := nbhIncs o s.motions dstate nbh
  let costs := nbhCosts o s.motions nbh incs
  -- sort positions by cost with std::sort (CostIndexCompare = isCostBetterThan on costs[i], costs[j])
  let costArr := costs.toArray
  let sc := stdSort (fun i j => match costArr[i]?, costArr[j]? with
    | some ci, some cj => o.better ci cj
    | _, _ => false) (Array.range nbh.length)
  let cands := sc.1.toList.map (fun p => (p, nbh.getD p 0))
  let cp := chooseParent sp s.motions nmotion dstate cands s []
  { st := insertMotion cp.2.2 dstate (pickVal cp.1 nbh nmotion) (pickVal cp.1 costs cost0) (pickVal cp.1 incs inc0) (nk.2 || sc.2),
    new := cp.2.2.motions.size, valid := cp.2.1, incs := incs, nbhP := (List.range nbh.length).zip nbh }

/-- `if (delayCC_) … else …` -/
def growInsert (o : Obj σ α) (sp : Space σ δ) (s : St σ α δ) (nmotion : Nat) (nm : Motion σ α) (dstate : σ) :
    Grown σ α δ :=
  if sp.delayCC then growInsertDelayed o sp s nmotion nm dstate else growInsertClassic o sp s nmotion nm dstate

/-- from `getNeighbors` to the end of the rewiring loop. Returns the state, the new motion's index and
`checkForSolution`. -/
def grow (o : Obj σ α) (sp : Space σ δ) (s : St σ α δ) (nmotion : Nat) (nm : Motion σ α) (dstate : σ) :
    St σ α δ × Nat × Bool :=
  let g := growInsert o sp s nmotion nm dstate
  let r := g.nbhP.foldl (rewireOne o sp g.new g.valid g.incs) (g.st, false)
  (r.1, g.new, r.2)

/-- `goal->isSatisfied(motion->state, &distanceFromGoal)`: `d2g <= threshold_`; a goal motion is appended
to `goalMotions_` and forces `checkForSolution`. -/
def goalStep (sp : Space σ δ) (s : St σ α δ) (new : Nat) (chk : Bool) (dstate : σ) : St σ α δ × Bool :=
  if !sp.dlt sp.goalThr (sp.goalDist dstate) then
    ({ s with motions := s.motions.modify new (fun m => { m with inGoal := true }),
              goalMotions := s.goalMotions ++ [new] }, true)
  else (s, chk)

/-- `if (checkForSolution) …` -/
def bestStep (o : Obj σ α) (p : St σ α δ × Bool) : St σ α δ :=
  if p.2 then updateBest o p.1 else p.1

/-- `if (goalMotions_.size() == 0 && distanceFromGoal < approxDist)` -/
def approxStep (sp : Space σ δ) (s : St σ α δ) (new : Nat) (dstate : σ) : St σ α δ :=
  if s.goalMotions.isEmpty && sp.dlt (sp.goalDist dstate) s.approxDist then
    { s with approxGoal := some new, approxDist := sp.goalDist dstate }
  else s

/-- goal test, solution bookkeeping, approximate-solution bookkeeping for the new motion. -/
def finishIter (o : Obj σ α) (sp : Space σ δ) (s : St σ α δ) (new : Nat) (chk : Bool) (dstate : σ) : St σ α δ :=
  approxStep sp (bestStep o (goalStep sp s new chk dstate)) new dstate

/-- the state to add: the sample itself, or the point at `maxDistance_` towards it. -/
def steerTo (sp : Space σ δ) (nm : Motion σ α) (rstate : σ) : σ :=
  if sp.dlt sp.maxDistance (sp.dist nm.state rstate) then sp.steer nm.state rstate (sp.dist nm.state rstate) else rstate

/-- one pass of the `while (ptc == false)` body. -/
def iterate (o : Obj σ α) (sp : Space σ δ) (s0 : St σ α δ) : St σ α δ :=
  let s := { s0 with iterations := s0.iterations + 1, queries := [] }
  match drawSample sp s with
  | (none, s) => s
  | (some rstate, s) =>
    match nearestIdx sp s.motions rstate with
    | none => s
    | some nmotion =>
      match s.motions[nmotion]? with
      | none => s
      | some nm =>
        match s.checkMotion nm.state (steerTo sp nm rstate) with
        | (false, s) => s
        | (true, s) =>
          finishIter o sp (grow o sp s nmotion nm (steerTo sp nm rstate)).1 (grow o sp s nmotion nm (steerTo sp nm rstate)).2.1
            (grow o sp s nmotion nm (steerTo sp nm rstate)).2.2 (steerTo sp nm rstate)

/-- `if (bestGoalMotion_ && opt_->isSatisfied(bestCost_)) break;` -/
def shouldBreak (o : Obj σ α) (s : St σ α δ) : Bool :=
  s.bestGoal.isSome && o.isSatisfied s.bestCost

/-- the loop: at most `budget` passes (the termination condition), with the break. -/
def loop (o : Obj σ α) (sp : Space σ δ) : Nat → St σ α δ → St σ α δ
  | 0, s => s
  | n + 1, s =>
    let s' := iterate o sp s
    if shouldBreak o s' then s' else loop o sp n s'

/-- what `solve()` registers with the problem definition. -/
structure Report (σ α δ : Type) where
  path : List σ
  pathIdx : List Nat
  approximate : Bool
  difference : δ
  storedCost : α
  optimized : Bool

/-- `mpath`: the motion and its ancestors, root last (fuel = number of motions). -/
def chainUp (ms : Array (Motion σ α)) : Nat → Nat → List Nat
  | 0, _ => []
  | fuel + 1, i =>
    match ms[i]? with
    | none => []
    | some m =>
      match m.parent with
      | none => [i]
      | some p => i :: chainUp ms fuel p

/-- the end of `solve()`: pick `bestGoalMotion_`, else `approxGoalMotion`; build the path root first;
`setApproximate(approxDist)` when there is no goal motion;
`setOptimized(opt_, newSolution->cost, opt_->isSatisfied(bestCost_))`. -/
def report (o : Obj σ α) (s : St σ α δ) : Option (Report σ α δ) :=
  let pick : Option Nat := match s.bestGoal with
    | some g => some g
    | none => s.approxGoal
  match pick with
  | none => none
  | some n =>
    match s.motions[n]? with
    | none => none
    | some nm =>
      let idx := (chainUp s.motions s.motions.size n).reverse
      some { path := idx.filterMap (fun i => s.motions[i]?.map (·.state)), pathIdx := idx,
             approximate := s.bestGoal.isNone, difference := s.approxDist,
             storedCost := nm.cost, optimized := o.isSatisfied s.bestCost }

/-- the beginning of a (continued) `solve()`: the approximate-solution locals are fresh. -/
def beginSolve (sp : Space σ δ) (s : St σ α δ) : St σ α δ :=
  { s with approxGoal := none, approxDist := sp.dinf }

/-- one `solve()` call with an evaluation budget. -/
def solve (o : Obj σ α) (sp : Space σ δ) (budget : Nat) (s : St σ α δ) : St σ α δ × Option (Report σ α δ) :=
  let s' := loop o sp budget (beginSolve sp s)
  (s', report o s')

/-- everything that can happen to a planner instance between `setup()` and now: start states are added,
the oracles deliver more answers, `solve()` is entered (again), the loop body runs once.  A run of
`solve()` with any termination condition, interrupted anywhere, continued any number of times, is a
list of these (the `break` and the termination condition only decide *how many* `iter` there are). -/
inductive Op (σ δ : Type) where
  | start (x : σ)
  | feed (u01s : List δ) (samples : List σ) (answers : List Bool)
  | beginSolve
  | iter

def applyOp (o : Obj σ α) (sp : Space σ δ) (s : St σ α δ) : Op σ δ → St σ α δ
  | .start x => s.addStart o x
  | .feed us xs as => { s with u01s := s.u01s ++ us, samples := s.samples ++ xs, answers := s.answers ++ as }
  | .beginSolve => beginSolve sp s
  | .iter => iterate o sp s

def run (o : Obj σ α) (sp : Space σ δ) (s : St σ α δ) (ops : List (Op σ δ)) : St σ α δ :=
  ops.foldl (applyOp o sp) s

end OmplModel.RRTstar
