import OmplModel.Model.PlannerReport
/-
Executable model of `ompl::geometric::LazyPRM` with default settings
(src/ompl/geometric/planners/prm/src/LazyPRM.cpp, ConnectionStrategy.h: `KBoundedStrategy`).
Core Lean only: linked into `drv_lazyprm`.

The roadmap: vertices are numbered in creation order (the boost `listS` descriptors are stable, so a
number names one vertex for ever); per vertex its state, whether it is still in the graph (`alive`), its
validity flag (`VALIDITY_TRUE` or not) and its component id; edges in insertion order with weight and
validity flag; the nearest-neighbour list (`NearestNeighborsLinear::data_`); `componentCount_`;
`componentSize_` (a `std::map`, here an association list with default 0).

What is NOT modelled: `boost::astar_search`.  `constructSolution` takes the vertex sequence the real
run's A* returned (start … goal) from the script, CHECKS that it is a walk from the start vertex to the
goal vertex along edges currently in the roadmap, and then runs the coded lazy validation.  A script
whose oracle answers fail this check sets `oracleBad` and stops the model.

Script: a list of events, `draw s` (what `sampler_->sampleUniform` returned in one loop turn) and
`astar p` (one per `constructSolution` call).  The termination condition is the counter of
`Model/RRTConnect.lean` (`ptc = n`: `false` for the next `n` evaluations).

Other abstractions (checked by the lock-step run):
* component ids are compared up to renaming: after a vertex removal the code visits the former neighbours
  in `std::set<Vertex>` order, i.e. by *address*; the model visits them by vertex number.  Behaviour
  depends on ids only through equality and `componentSize_`, both invariant under renaming;
* `std::partial_sort`/`std::sort` in `nearestK` are not stable; the model selects the first minimum
  repeatedly (ties have probability 0 for sampled states);
* `markComponent`'s queue is bounded by `2·|E| + 2` pops (enough: every pop either relabels a vertex or
  is one of its ≤ deg pushes);
* the optimization objective enters through `pathCost`, `satisfied`, `better` (oracles).
-/
namespace OmplModel.LazyPRM
open OmplModel.PlannerReport

structure Cfg (S D : Type) where
  /-- `si_->distance` (nearest-neighbour distance function, argument order (neighbour, new)) -/
  dist : S → S → D
  /-- `opt_->motionCost` (edge weight; only stored) -/
  cost : S → S → D
  lt : D → D → Bool
  /-- `KBoundedStrategy::bound_` (the range at the time the strategy was made) -/
  bound : D
  /-- `magic::DEFAULT_NEAREST_NEIGHBORS_LAZY` -/
  k : Nat
  bounds : S → Bool
  valid : S → Bool
  checkMotion : S → S → Bool
  goalSample : Nat → S
  maxGoalSamples : Nat
  /-- `connectionFilter_(m, n)` (default: always true) -/
  filter : Nat → Nat → Bool
  /-- `solution->cost(opt_)` -/
  pathCost : List S → D
  /-- `opt_->isSatisfied(c)` -/
  satisfied : D → Bool
  /-- `opt_->isCostBetterThan(c1, c2)` -/
  better : D → D → Bool
  infCost : D

structure Edge (D : Type) where
  u : Nat
  v : Nat
  w : D
  flag : Bool

structure Roadmap (S D : Type) where
  states : Array S := #[]
  alive : Array Bool := #[]
  vflag : Array Bool := #[]
  comp : Array Nat := #[]
  edges : List (Edge D) := []
  nn : List Nat := []
  compCount : Nat := 0
  sizes : List (Nat × Nat) := []
  /-- set by the model's own self-checks on the component bookkeeping (`checkSame`, `checkNone`); never set on any
  lock-step run; `lazyprm_components_sound` is stated for runs on which it stays false -/
  stale : Bool := false

variable {S D : Type}

/-! ### `componentSize_` -/

def sizeGet (m : List (Nat × Nat)) (c : Nat) : Nat :=
  match m.find? (fun p => p.1 == c) with
  | some p => p.2
  | none => 0

def sizeErase (m : List (Nat × Nat)) (c : Nat) : List (Nat × Nat) := m.filter (fun p => p.1 != c)

def sizeSet (m : List (Nat × Nat)) (c n : Nat) : List (Nat × Nat) := (c, n) :: sizeErase m c

/-! ### graph helpers -/

def Edge.touches (e : Edge D) (n : Nat) : Bool := e.u == n || e.v == n

def Edge.other (e : Edge D) (n : Nat) : Nat := if e.u == n then e.v else e.u

def Edge.joins (e : Edge D) (a b : Nat) : Bool := (e.u == a && e.v == b) || (e.u == b && e.v == a)

/-- `boost::adjacent_vertices(n, g_)` -/
def adjacent (edges : List (Edge D)) (n : Nat) : List Nat :=
  (edges.filter (·.touches n)).map (·.other n)

def compOf (r : Roadmap S D) (v : Nat) : Nat := r.comp[v]?.getD 0

/-- `markComponent(v, newComponent)`: breadth-first relabelling; stops at vertices that already carry
`newComponent`. -/
def markLoop (edges : List (Edge D)) (newC : Nat) :
    Nat → List Nat → Array Nat → List (Nat × Nat) → Array Nat × List (Nat × Nat)
  | 0, _, comp, sizes => (comp, sizes)
  | _ + 1, [], comp, sizes => (comp, sizes)
  | fuel + 1, n :: q, comp, sizes =>
    let c := comp[n]?.getD 0
    if c == newC then markLoop edges newC fuel q comp sizes
    else
      let sizes1 := if sizeGet sizes c == 1 then sizeErase sizes c else sizeSet sizes c (sizeGet sizes c - 1)
      let sizes2 := sizeSet sizes1 newC (sizeGet sizes1 newC + 1)
      markLoop edges newC fuel (q ++ adjacent edges n) (comp.setIfInBounds n newC) sizes2

def markComponent (r : Roadmap S D) (v newC : Nat) : Roadmap S D :=
  let res := markLoop r.edges newC (2 * r.edges.length + 2) [v] r.comp r.sizes
  { r with comp := res.1, sizes := res.2 }

/-- self-check after a relabelling: every edge joins two vertices with the same component id (i.e. the fuel-bounded
breadth-first traversal of `markLoop` was complete).  Not part of the C++; it only ever sets `stale`. -/
def checkSame (r : Roadmap S D) : Roadmap S D :=
  { r with stale := r.stale || !(r.edges.all (fun e => compOf r e.u == compOf r e.v)) }

/-- self-check after the relabelling that follows a vertex removal: no vertex still in the graph carries the old id -/
def checkNone (r : Roadmap S D) (c0 : Nat) : Roadmap S D :=
  { r with stale := r.stale ||
      (List.range r.alive.size).any (fun v => r.alive[v]?.getD false && compOf r v == c0) }

/-- `uniteComponents(a, b)` -/
def uniteComponents (r : Roadmap S D) (a b : Nat) : Roadmap S D :=
  let ca := compOf r a
  let cb := compOf r b
  if ca == cb then r
  else if sizeGet r.sizes ca > sizeGet r.sizes cb then checkSame (markComponent r b ca)
  else checkSame (markComponent r a cb)

/-! ### connection strategy -/

/-- index of the first minimum of `ds` (`none` for the empty list) -/
def firstMin (lt : D → D → Bool) : List (Nat × D) → Option (Nat × D)
  | [] => none
  | x :: rest =>
    match firstMin lt rest with
    | none => some x
    | some y => if lt y.2 x.2 then some y else some x

/-- the `k` nearest in ascending order (`nearestK` of `NearestNeighborsLinear`) -/
def selectK (lt : D → D → Bool) : Nat → List (Nat × D) → List (Nat × D)
  | 0, _ => []
  | k + 1, l =>
    match firstMin lt l with
    | none => []
    | some x => x :: selectK lt k (l.eraseP (fun y => y.1 == x.1))

/-- `KBoundedStrategy::operator()(m)` for a new vertex with state `s` -/
def neighbours (cfg : Cfg S D) (r : Roadmap S D) (s : S) : List Nat :=
  let ds := r.nn.filterMap (fun n => (r.states[n]?).map (fun sn => (n, cfg.dist sn s)))
  let sel := selectK cfg.lt cfg.k ds
  -- while (newCount > 0 && dist(result[newCount-1], m) > bound_) --newCount
  ((sel.reverse.dropWhile (fun x => cfg.lt cfg.bound x.2)).reverse).map (·.1)

/-- `boost::add_edge(m, n, weight)` with an UNKNOWN flag -/
def addEdge (r : Roadmap S D) (m n : Nat) (w : D) : Roadmap S D := { r with edges := r.edges ++ [⟨m, n, w, false⟩] }

/-- `addMilestone(state)`: returns the roadmap and the new vertex -/
def connectAll (cfg : Cfg S D) (m : Nat) (s : S) : List Nat → Roadmap S D → Roadmap S D
  | [], r => r
  | n :: rest, r =>
    if cfg.filter m n then
      connectAll cfg m s rest (uniteComponents (addEdge r m n (cfg.cost s (r.states[n]?.getD s))) m n)
    else connectAll cfg m s rest r

/-- `boost::add_vertex` with the property writes of `addMilestone`: UNKNOWN flag, a fresh component of size 1 -/
def pushVertex (r : Roadmap S D) (s : S) : Roadmap S D :=
  { r with states := r.states.push s, alive := r.alive.push true, vflag := r.vflag.push false,
           comp := r.comp.push r.compCount, compCount := r.compCount + 1,
           sizes := sizeSet r.sizes r.compCount 1 }

def addMilestone (cfg : Cfg S D) (r : Roadmap S D) (s : S) : Roadmap S D × Nat :=
  let m := r.states.size
  let r1 := connectAll cfg m s (neighbours cfg r s) (pushVertex r s)
  ({ r1 with nn := r1.nn ++ [m] }, m)

/-! ### constructSolution -/

def isAlive (r : Roadmap S D) (v : Nat) : Bool := r.alive[v]?.getD false

def hasEdge (r : Roadmap S D) (a b : Nat) : Bool := r.edges.any (·.joins a b)

/-- the oracle's answer is a walk start … goal along edges of the current roadmap -/
def walkOk (r : Roadmap S D) : List Nat → Bool
  | [] => true
  | [a] => isAlive r a
  | a :: b :: rest => isAlive r a && hasEdge r a b && walkOk r (b :: rest)

def pathOk (r : Roadmap S D) (start goal : Nat) (p : List Nat) : Bool :=
  p.head? == some start && p.getLast? == some goal && 2 ≤ p.length && walkOk r p

/-- vertex phase: the intermediate vertices, from the goal side; returns the flags and the set to remove -/
def checkVertices (cfg : Cfg S D) (r : Roadmap S D) : List Nat → Array Bool → List Nat → Array Bool × List Nat
  | [], vf, rm => (vf, rm)
  | pos :: rest, vf, rm =>
    let known := vf[pos]?.getD false
    let ok := known || (match r.states[pos]? with | some s => cfg.valid s | none => false)
    let vf' := if ok then vf.setIfInBounds pos true else vf
    checkVertices cfg r rest vf' (if ok then rm else rm ++ [pos])

/-- `newComponent = componentCount_++; componentSize_[newComponent] = 0` -/
def freshComp (r : Roadmap S D) : Roadmap S D :=
  { r with compCount := r.compCount + 1, sizes := sizeSet r.sizes r.compCount 0 }

def relabelNeighbours (comp0 : Nat) : List Nat → Roadmap S D → Roadmap S D
  | [], r => r
  | n :: rest, r =>
    if compOf r n == comp0 then relabelNeighbours comp0 rest (checkSame (markComponent (freshComp r) n r.compCount))
    else relabelNeighbours comp0 rest r

def insertSorted (x : Nat) : List Nat → List Nat
  | [] => [x]
  | y :: r => if x < y then x :: y :: r else if x == y then y :: r else y :: insertSorted x r

/-- `nn_->remove`, `clear_vertex`, `remove_vertex` for every vertex of `rm` -/
def killVertices (r : Roadmap S D) (rm : List Nat) : Roadmap S D :=
  { r with alive := rm.foldl (fun a v => a.setIfInBounds v false) r.alive,
           edges := r.edges.filter (fun e => !(rm.contains e.u || rm.contains e.v)),
           nn := r.nn.filter (fun n => !rm.contains n) }

/-- the `std::set` of former neighbours (outside `rm`), here in increasing vertex number -/
def formerNeighbours (r : Roadmap S D) (rm : List Nat) : List Nat :=
  ((rm.flatMap (adjacent r.edges)).filter (fun n => !rm.contains n)).foldl (fun acc n => insertSorted n acc) []

/-- removal of the invalid vertices with their edges, then fresh component ids for the former neighbours
that still carry the start's component id -/
def removeVertices (r : Roadmap S D) (start : Nat) (rm : List Nat) : Roadmap S D :=
  checkNone (relabelNeighbours (compOf r start) (formerNeighbours r rm) (killVertices r rm)) (compOf r start)

def setEdgeFlag (edges : List (Edge D)) (a b : Nat) : List (Edge D) :=
  edges.map (fun e => if e.joins a b then { e with flag := true } else e)

def edgeFlag (r : Roadmap S D) (a b : Nat) : Bool :=
  match r.edges.find? (·.joins a b) with
  | some e => e.flag
  | none => false

def flagEdge (r : Roadmap S D) (a b : Nat) : Roadmap S D := { r with edges := setEdgeFlag r.edges a b }

def dropEdge (r : Roadmap S D) (a b : Nat) : Roadmap S D := { r with edges := r.edges.filter (fun e => !e.joins a b) }

/-- edge phase, from the goal side: `pairs` are (pos, prevVertex), `prevVertex` nearer the goal.
Returns the roadmap and whether every edge was (or became) valid. -/
def checkEdges (cfg : Cfg S D) : List (Nat × Nat) → Roadmap S D → Roadmap S D × Bool
  | [], r => (r, true)
  | (pos, prevV) :: rest, r =>
    let known := edgeFlag r pos prevV
    let ok := known || (match r.states[pos]?, r.states[prevV]? with
                        | some a, some b => cfg.checkMotion a b
                        | _, _ => false)
    if ok then checkEdges cfg rest (flagEdge r pos prevV)
    else
      let r1 := dropEdge r pos prevV
      (checkSame (markComponent (freshComp r1) pos r1.compCount), false)

def pairsOf : List Nat → List (Nat × Nat)
  | a :: b :: rest => (a, b) :: pairsOf (b :: rest)
  | _ => []

def withFlags (r : Roadmap S D) (vf : Array Bool) : Roadmap S D := { r with vflag := vf }

/-- `constructSolution(start, goal)` given the A* answer `p` (start … goal): the new roadmap and the path's
states if everything on it was valid -/
def constructSolution (cfg : Cfg S D) (r : Roadmap S D) (start : Nat) (p : List Nat) : Roadmap S D × Option (List S) :=
  -- intermediate vertices, from the goal side
  let inter := (p.drop 1).dropLast.reverse
  let cv := checkVertices cfg r inter r.vflag []
  let r1 := withFlags r cv.1
  if !cv.2.isEmpty then (removeVertices r1 start cv.2, none)
  else
    -- edges from the goal side: (pos, prevVertex) with prevVertex nearer the goal
    let ce := checkEdges cfg ((pairsOf p).reverse) r1
    if ce.2 then (ce.1, some (p.filterMap (fun v => r.states[v]?)))
    else (ce.1, none)

/-! ### solve -/

inductive Event (S : Type) where
  | draw (s : S)
  | astar (p : List Nat)

structure St (S D : Type) where
  rm : Roadmap S D
  startM : List Nat
  goalM : List Nat
  pis : Pis
  ptc : Nat
  iterations : Nat := 0
  someSolutionFound : Bool := false
  optSegments : Nat := 0
  best : Option (List S) := none
  bestCost : D
  fullyOptimized : Bool := false
  oracleBad : Bool := false
  done : Bool := false

/-- `solutionComponent(&startGoalPair)`: first (start, goal) pair in the same component -/
def solutionPair (r : Roadmap S D) (startM goalM : List Nat) : Option (Nat × Nat) :=
  startM.findSome? (fun s => (goalM.find? (fun g => compOf r s == compOf r g)).map (fun g => (s, g)))

def ptcEvalN : Nat → Bool × Nat
  | 0 => (true, 0)
  | n + 1 => (false, n)

/-- the `do { solution = constructSolution(startV, goalV); } while (!solution && same component && !ptc)` loop;
one `astar` event per call.  Returns (state, remaining events, solution). -/
def constructLoop (cfg : Cfg S D) (startV goalV : Nat) :
    Nat → St S D → List (Event S) → St S D × List (Event S) × Option (List S)
  | 0, st, evs => ({ st with oracleBad := true }, evs, none)
  | fuel + 1, st, evs =>
    match evs with
    | .astar p :: rest =>
      if pathOk st.rm startV goalV p then
        let cs := constructSolution cfg st.rm startV p
        let st1 := { st with rm := cs.1 }
        match cs.2 with
        | some path => (st1, rest, some path)
        | none =>
          if compOf st1.rm startV == compOf st1.rm goalV then
            let t := ptcEvalN st1.ptc
            if t.1 then ({ st1 with ptc := t.2 }, rest, none)
            else constructLoop cfg startV goalV fuel { st1 with ptc := t.2 } rest
          else (st1, rest, none)
      else ({ st with oracleBad := true }, evs, none)
    | _ => ({ st with oracleBad := true }, evs, none)

/-- one turn of the `while (!ptc)` loop after `sampleUniform` returned `s` -/
def iterate (cfg : Cfg S D) (st : St S D) (s : S) (evs : List (Event S)) : St S D × List (Event S) :=
  let am := addMilestone cfg st.rm s
  let st1 := { st with rm := am.1, iterations := st.iterations + 1 }
  match solutionPair st1.rm st1.startM st1.goalM with
  | none => (st1, evs)
  | some (startV, goalV) =>
    if !st1.someSolutionFound || compOf st1.rm am.2 == compOf st1.rm startV then
      let skip := st1.someSolutionFound && decide (st1.optSegments + 1 < 5)
      if skip then ({ st1 with optSegments := st1.optSegments + 1 }, evs)
      else
        let st2 := if st1.someSolutionFound then { st1 with optSegments := 0 } else st1
        let cl := constructLoop cfg startV goalV (evs.length + 1) st2 evs
        let st3 := cl.1
        match cl.2.2 with
        | none => (st3, cl.2.1)
        | some path =>
          let c := cfg.pathCost path
          if cfg.satisfied c then
            ({ st3 with someSolutionFound := true, fullyOptimized := true, best := some path, bestCost := c, done := true },
              cl.2.1)
          else if cfg.better c st3.bestCost then
            ({ st3 with someSolutionFound := true, best := some path, bestCost := c }, cl.2.1)
          else ({ st3 with someSolutionFound := true }, cl.2.1)
    else (st1, evs)

/-- the `while (!ptc)` loop -/
def loop (cfg : Cfg S D) : Nat → St S D → List (Event S) → St S D × List (Event S)
  | 0, st, evs => ({ st with oracleBad := true }, evs)
  | fuel + 1, st, evs =>
    if st.done || st.oracleBad then (st, evs)
    else
      let t := ptcEvalN st.ptc
      if t.1 then ({ st with ptc := t.2 }, evs)
      else
        match evs with
        | .draw s :: rest =>
          let it := iterate cfg { st with ptc := t.2 } s rest
          loop cfg fuel it.1 it.2
        | [] => ({ st with ptc := t.2, oracleBad := true }, [])
        | _ => ({ st with ptc := t.2, oracleBad := true }, evs)

structure Report (S D : Type) where
  status : Status
  added : Option (List S × Bool × D)
  rm : Roadmap S D
  startM : List Nat
  goalM : List Nat
  pis : Pis
  iterations : Nat
  unusedEvents : Nat
  oracleBad : Bool
  fullyOptimized : Bool

def addStarts (cfg : Cfg S D) : List (Nat × S) → Roadmap S D → List Nat → Roadmap S D × List Nat
  | [], r, acc => (r, acc)
  | x :: rest, r, acc =>
    let am := addMilestone cfg r x.2
    addStarts cfg rest am.1 (acc ++ [am.2])

/-- the planner state when the `while (!ptc)` loop is entered -/
def initSt (cfg : Cfg S D) (rm : Roadmap S D) (startM : List Nat) (goalV : Nat) (pis : Pis) (ptc : Nat) : St S D :=
  { rm := rm, startM := startM, goalM := [goalV], pis := pis, ptc := ptc, bestCost := cfg.infCost }

def solve.pisOf (p : Pis) (n : Nat) : Pis := { p with sampledGoalsCount := n }

/-- `LazyPRM::solve` on a fresh planner -/
def solve (cfg : Cfg S D) (starts : Array S) (ptc : Nat) (evs : List (Event S)) : Report S D :=
  let ds := drainStarts cfg.bounds cfg.valid starts (starts.size + 1) {}
  let as := addStarts cfg ds.1 {} []
  if as.2.isEmpty then ⟨.invalidStart, none, as.1, [], [], ds.2, 0, evs.length, false, false⟩
  else if cfg.maxGoalSamples = 0 then ⟨.invalidGoal, none, as.1, as.2, [], ds.2, 0, evs.length, false, false⟩
  else
    -- goalM_ is empty: nextGoal(ptc)
    let g := goalOuter cfg.bounds cfg.valid cfg.goalSample cfg.maxGoalSamples (ptc + 1) ds.2.sampledGoalsCount
      (List.replicate ptc false)
    let pis := solve.pisOf ds.2 g.2.1
    match g.1 with
    | none => ⟨.invalidGoal, none, as.1, as.2, [], pis, 0, evs.length, false, false⟩
    | some x =>
      let am := addMilestone cfg as.1 x.2
      let r := loop cfg (evs.length + 1) (initSt cfg am.1 as.2 am.2 pis g.2.2.length) evs
      let st := r.1
      match st.best with
      | some path =>
        ⟨.exactSolution, some (path, false, st.bestCost), st.rm, st.startM, st.goalM, st.pis, st.iterations, r.2.length,
          st.oracleBad, st.fullyOptimized⟩
      | none =>
        ⟨.timeout, none, st.rm, st.startM, st.goalM, st.pis, st.iterations, r.2.length, st.oracleBad, st.fullyOptimized⟩

end OmplModel.LazyPRM
