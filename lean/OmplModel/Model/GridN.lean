import OmplModel.Model.Grid
/-
Model of plain `ompl::GridN<_T>` (src/ompl/datastructures/GridN.h) with the SPLIT protocol its API documents:
`createCell(coord)` (updates the neighbour counters of the adjacent cells of the grid immediately, and returns a cell that
is NOT yet in the grid), then either `add(cell)` or `remove(cell)` + `destroyCell(cell)` -- "Remove a cell from the grid.
If the cell has not been added to the grid, only update the neighbor list": `remove` on a created-but-never-added cell is
how the side effect of `createCell` is undone; and `remove(cell)` + `destroyCell(cell)` for a cell of the grid.
(`GridB` overrides `createCell`/`add`/`remove` completely; its model is Model/Grid.lean.)  Core Lean only.

As coded: `createCell` lists `Grid::neighbors(coord)` (cells of `hash_` only), `c->neighbors++`, `border` cleared when the
count reaches `interiorCellNeighborsLimit_`; the new cell's count is `numberOfBoundaryDimensions(coord) + list.size()`.
`remove(cell)` lists the neighbours again, `c->neighbors--` (unsigned), `border` set when the count drops below the
limit -- UNCONDITIONALLY -- and only then looks the cell up in `hash_`: erase + `true`, or `false`.

Abstraction: the order of the two neighbour loops is not observable in `GridN` (no heaps, no callbacks): they are a
`map` over the cells of the grid that touches exactly the cells whose coordinate is one of the `2*dim` probe
coordinates (`hash_` has one cell per coordinate).  One created-but-not-added cell at a time (`pending`): the discipline
under which the counters are exact (a second pending cell would not be seen by `Grid::neighbors`).
-/
namespace OmplModel.GridN
open OmplModel.Grid

/-- `c->neighbors++; if (c->border && c->neighbors >= limit) c->border = false;` -/
def incCell (limit : Nat) (c : Cell) : Cell :=
  { c with nbrs := c.nbrs + 1, border := if c.border && decide (c.nbrs + 1 ≥ limit) then false else c.border }

/-- `c->neighbors--; if (!c->border && c->neighbors < limit) c->border = true;` -/
def decCell (limit : Nat) (c : Cell) : Cell :=
  { c with nbrs := decr c.nbrs, border := if !c.border && decide (decr c.nbrs < limit) then true else c.border }

/-- apply `f` to the cells of the grid adjacent to `x` (the loop over `Grid::neighbors(x)`) -/
def touchAll (f : Cell → Cell) (dim : Nat) (cells : List Cell) (x : Coord) : List Cell :=
  cells.map (fun c => if (neighborCoords dim x).contains c.coord then f c else c)

structure GridN where
  /-- `hash_` -/
  cells : List Cell := []
  /-- the cell returned by `createCell` and not yet added / removed -/
  pending : Option Cell := none
  nextId : Nat := 0

/-- `GridN::createCell(x)` (+ the user writing `cell->data = d`) -/
def createCell (cfg : Cfg) (g : GridN) (x : Coord) (d : Int) : GridN :=
  let n := boundaryDims cfg x + (neighbors cfg.dim g.cells x).length
  let c : Cell := { id := g.nextId, coord := x, data := d, nbrs := n, border := !decide (n ≥ cfg.limit) }
  { cells := touchAll (incCell cfg.limit) cfg.dim g.cells x, pending := some c, nextId := g.nextId + 1 }

/-- `Grid::add(cell)` for the pending cell -/
def addPending (g : GridN) : GridN :=
  match g.pending with
  | some c => { g with cells := addCell g.cells c, pending := none }
  | none => g

/-- `GridN::remove(cell)`: the neighbour loop, then the conditional erase; returns the code's `bool` -/
def removeAt (cfg : Cfg) (cells : List Cell) (x : Coord) : List Cell × Bool :=
  let cells1 := touchAll (decCell cfg.limit) cfg.dim cells x
  if has cells1 x then (eraseCoord cells1 x, true) else (cells1, false)

/-- `remove(pending)` + `destroyCell(pending)`: giving a tentative cell back -/
def abandon (cfg : Cfg) (g : GridN) : GridN × Bool :=
  match g.pending with
  | some c => let r := removeAt cfg g.cells c.coord; ({ g with cells := r.1, pending := none }, r.2)
  | none => (g, false)

/-- `remove(cell)` + `destroyCell(cell)` for the cell of the grid at `x` -/
def removeCell (cfg : Cfg) (g : GridN) (x : Coord) : GridN × Bool :=
  let r := removeAt cfg g.cells x
  ({ g with cells := r.1 }, r.2)

inductive Op where
  | create (x : Coord) (d : Int)
  | add
  | abandon
  | rm (x : Coord)

/-- one protocol step: `createCell` for an absent coordinate while no cell is pending; `add` / `abandon` for the
pending cell; `remove` of a present cell while no cell is pending -/
def step (cfg : Cfg) (g : GridN) : Op → GridN
  | .create x d => if g.pending.isSome || has g.cells x then g else createCell cfg g x d
  | .add => addPending g
  | .abandon => (abandon cfg g).1
  | .rm x => if g.pending.isSome || !has g.cells x then g else (removeCell cfg g x).1

def run (cfg : Cfg) (ops : List Op) : GridN := ops.foldl (step cfg) {}

end OmplModel.GridN
