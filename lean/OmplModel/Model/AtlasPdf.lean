import OmplModel.Model.Pdf
/-
Model of the PDF protocol of `ompl::base::AtlasStateSpace::newChart`
(src/ompl/base/spaces/constraint/src/AtlasStateSpace.cpp), an anchored user of `ompl::PDF`, on top of the PDF
model.  Core Lean only.

As far as `chartPDF_` is concerned one `newChart` call is: for every nearby chart (when `separate_`), in loop
order, `chartPDF_.update(chartPDF_.getElements()[near.second], biasFunction_(other))` — the element is addressed
BY POSITION with the chart's index in `charts_` —, then `chartPDF_.add(chart, biasFunction_(chart))`.
`NewChart.refresh` lists (chart index, bias computed for it), `NewChart.bias` is the new chart's bias; the bias
function, the neighbour search and the geometry are oracles (whatever they return is in the script).
`anchorChart`, `getChart(force)`, sampling and `discreteGeodesic` reach the PDF only through `newChart`;
`clear` empties the PDF and replays `newChart` for the anchors.

`newChartSkip` is the seeded variant "a chart whose bias is not positive is not added" (C12-s5), kept for the
witness that skipping an add breaks the position addressing.
-/
namespace OmplModel.AtlasPdf
open OmplModel.Pdf

structure NewChart (α : Type) where
  refresh : List (Nat × α)
  bias : α

variable {α : Type}

/-- `chartPDF_.update(chartPDF_.getElements()[idx], b)` (checked read of `getElements()`) -/
def refreshAt [WOps α] (p : Pdf α) (idx : Nat) (b : α) : Pdf α :=
  match p.data[idx]? with
  | some h => p.update h b
  | none => p

def refreshAll [WOps α] (p : Pdf α) (l : List (Nat × α)) : Pdf α :=
  l.foldl (fun q ib => refreshAt q ib.1 ib.2) p

/-- the PDF part of `AtlasStateSpace::newChart` -/
def newChart [WOps α] (p : Pdf α) (c : NewChart α) : Pdf α :=
  (refreshAll p c.refresh).add c.bias

def run [WOps α] (p : Pdf α) (cs : List (NewChart α)) : Pdf α := cs.foldl newChart p

/-- the seeded variant: zero-bias charts are kept out of the PDF -/
def newChartSkip [WOps α] (p : Pdf α) (c : NewChart α) : Pdf α :=
  if WOps.lt (WOps.zero : α) c.bias then (refreshAll p c.refresh).add c.bias else refreshAll p c.refresh

def runSkip [WOps α] (p : Pdf α) (cs : List (NewChart α)) : Pdf α := cs.foldl newChartSkip p

/-- what the weights should be: chart `i` carries the bias most recently computed for chart `i` -/
def specStep (ws : List α) (c : NewChart α) : List α :=
  (c.refresh.foldl (fun w ib => w.set ib.1 ib.2) ws) ++ [c.bias]

def specRun (ws : List α) (cs : List (NewChart α)) : List α := cs.foldl specStep ws

end OmplModel.AtlasPdf
