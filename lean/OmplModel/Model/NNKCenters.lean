import OmplModel.Model.NNGnatOps
/-!
`GreedyKCenters::kcenters` **with its `dists` matrix** (round 10).

`Model/NNGnatOps.lean` returns the centres only and lets `split` call `dist` again.  Here the matrix is part of
the model, as coded in `GreedyKCenters.h`:

```
if (dists.rows() < data.size() || dists.cols() < k) dists.resize(max(2*dists.rows()+1, data.size()), k);
centers.push_back(uniformInt(0, n-1));
for (i = 1; i < k; ++i) { center = data[centers[i-1]];
    for (j < n) { dists(j, i-1) = distFun_(data[j], center); …minDist / ind / maxDist… }
    if (maxDist < eps) break;  centers.push_back(ind); }
center = data[centers.back()];  i = centers.size() - 1;
for (j < n) dists(j, i) = distFun_(data[j], center);
```

* `Mat`: dimensions and cells; a cell is `none` until it is written (Eigen leaves a fresh / resized matrix
  uninitialised), so "split reads only what kcenters wrote" is a statement about `some`.
* every write is bounds-checked: `Mat.writeCol` returns `none` when a write `dists(j,i)` lies outside the
  matrix (Eigen's index assertion; an out-of-bounds store under `NDEBUG`).  `kcentersM` therefore returns
  `none` exactly when the real function leaves defined behaviour.
* the `minDist` / `ind` / `maxDist` part of the inner loop is `kcStep` of `Model/NNGnatOps.lean`, unchanged.

Also here: the constructor's parameter normalisation seen as a function of the *user's* arguments
(`Gnat.init`, `Model/NN.lean`) has its facts proved in `Proofs/NNKCenters.lean`.
Core Lean only.
-/
namespace OmplModel.NN

variable {α D : Type}

/-- `GreedyKCenters<_T>::Matrix` (`Eigen::MatrixXd`). -/
structure Mat (D : Type) where
  rows : Nat
  cols : Nat
  /-- `none` = not written since construction / the last `resize` -/
  cell : Nat → Nat → Option D

/-- `Matrix dists(rows, cols)`: nothing written yet. -/
def Mat.new (rows cols : Nat) : Mat D := ⟨rows, cols, fun _ _ => none⟩

/-- one run of `for (j = 0; j < n; ++j) dists(j, i) = vals[j]`.  `none`: some `dists(j, i)` is outside the
matrix (for `n > 0`: `n <= rows` and `i < cols` is exactly "every write is inside"). -/
def Mat.writeCol (M : Mat D) (i : Nat) (vals : List D) : Option (Mat D) :=
  if vals.isEmpty || (decide (vals.length ≤ M.rows) && decide (i < M.cols)) then
    some ⟨M.rows, M.cols, fun a b =>
      if b = i then
        match vals[a]? with
        | some v => some v
        | none => M.cell a b
      else M.cell a b⟩
  else none

/-- the `resize` at the top of `kcenters` (destructive: Eigen does not keep the old coefficients). -/
def kcResize (M : Mat D) (n k : Nat) : Mat D :=
  if decide (M.rows < n) || decide (M.cols < k) then Mat.new (max (2 * M.rows + 1) n) k else M

section Loop
variable [LT D] [DecidableLT D]

/-- the `for (i = 1; i < k; ++i)` loop with the matrix: iteration `i = centers.size()` fills column `i-1` with
the distances to `data[centers[i-1]]` (= `last`), then does what `kcLoop` does. -/
def kcLoopM (dist : α → α → D) (eps : D) (data : List (Elem α)) :
    Nat → List Nat → Nat → List (Option D) → Mat D → Option (List Nat × Mat D)
  | 0, centers, _, _, M => some (centers, M)
  | n + 1, centers, last, minDist, M =>
    match data[last]? with
    | none => some (centers, M)
    | some c =>
      match M.writeCol (centers.length - 1) (data.map (fun x => dist x.val c.val)) with
      | none => none
      | some M' =>
        let r := kcStep dist c.val data minDist 0 0 none
        let stop : Bool := match r.2.2 with
          | none => true
          | some m => decide (m < eps)
        if stop then some (centers, M') else kcLoopM dist eps data n (centers ++ [r.2.1]) r.2.1 r.1 M'

/-- `kcenters(data, k, centers, dists)` with the first centre given and the caller's matrix `M0` (only its
dimensions matter: every cell the function guarantees is written by it).  `none` = a write outside the matrix. -/
def kcentersM (dist : α → α → D) (eps : D) (data : List (Elem α)) (k first : Nat) (M0 : Mat D) :
    Option (List Nat × Mat D) :=
  match kcLoopM dist eps data (k - 1) [first] first (data.map (fun _ => none)) (kcResize M0 data.length k) with
  | none => none
  | some (cs, M) =>
    match cs.getLast? with
    | none => none
    | some l =>
      match data[l]? with
      | none => none
      | some c => (M.writeCol (cs.length - 1) (data.map (fun x => dist x.val c.val))).map (fun M' => (cs, M'))

end Loop

/-- number of cells of the matrix that are still unwritten. -/
def Mat.unwritten (M : Mat D) : Nat :=
  (List.range M.rows).foldl (fun acc a =>
    (List.range M.cols).foldl (fun acc b => if (M.cell a b).isNone then acc + 1 else acc) acc) 0

/-! ### histories that change the distance function -/

section Seg
variable {U : Type}
variable [BEq α] [Add D] [Sub D] [LE D] [LT D] [DecidableLE D] [DecidableLT D] [OfNat D 0]

/-- a history in which the distance function is changed between operations: each segment is
`setDistanceFunction(ctx.dist)` (for the GNATs: `if (tree_) rebuildDataStructure()` under the new function) followed by
operations under that function.  (The first segment's call is the one every user makes after construction.) -/
def gnatRunSeg (ord : Nat → Nat → List Nat) :
    List (Ctx α D U × List (Op α)) → Gnat α D × List U → Gnat α D × List U
  | [], s => s
  | (ctx, ops) :: rest, s =>
    let r := s.1.setDistanceFunction ctx s.2
    gnatRunSeg ord rest (gnatRun ctx ord ops r.1 r.2.1)

/-- the context of the last `setDistanceFunction` (`ctx0` if there was none). -/
def lastCtx (ctx0 : Ctx α D U) : List (Ctx α D U × List (Op α)) → Ctx α D U
  | [] => ctx0
  | (ctx, _) :: rest => lastCtx ctx rest

end Seg

end OmplModel.NN
