import OmplModel.Model.Interleave
/-
C19 round 10 — pRRT as the code runs it: the parameters of `PEnv` made concrete, and `solve()`'s epilogue.

Core Lean only (links into `drv_conc`).

What of `src/ompl/geometric/planners/rrt/src/pRRT.cpp` this file mirrors (on top of `PStep` in Interleave.lean):

* states are RealVector states carried as their u64 bit patterns (`Vec = List UInt64`), so that "the same state" is
  bitwise identity (the C++ identifies motions by pointer; two motions with bitwise equal states are interchangeable
  for everything the model says);
* `rvDistance`   — `RealVectorStateSpace::distance` (squared differences accumulated by index, then `sqrt`);
* `rvInterpolate` — `RealVectorStateSpace::interpolate` (`from + (to - from) * t` per component);
* `nearestOf`    — what `nn_->nearest(rmotion)` must answer: the first tree node (insertion order) at minimal
                   distance from the sample (brute force; the real structure is a GNAT queried under `nnLock_`);
* `steerRV`      — `d = distance(near, sample); if (d > maxDistance_) interpolate(near, sample, maxDistance_/d)` else
                   the sample itself;
* goal           — `GoalRegion::isSatisfied(st, &dist)`: `dist = distance(st, goalState)`, satisfied iff
                   `dist < threshold` (strict);
* `rvEnv`        — the `PEnv` built from these; the validity oracle (`si_->checkMotion`) stays a parameter: the
                   driver supplies the answers the real motion validator gave (a table), nothing is assumed of it;
* `report`       — the epilogue of `pRRT::solve()`: the exact solution if there is one, else the approximate one
                   (`approximate = true`), the path obtained by walking `parent` pointers back from it and
                   reversing, and `sol.approxdif` as the difference — which `addSolutionPath` records only for an
                   approximate solution (an exact one keeps `PlannerSolution::difference_ = 0`; found by the
                   lock-step replay, which first had the model report the goal distance there).

`pathFuel` walks parents by *state* (first tree entry holding that state); fuel = number of tree nodes.  Proofs/
InterleavePrrtRun.lean shows the fuel always suffices (the walk ends at a parentless node).
-/
namespace OmplModel.Interleave

/-! ## generic: the epilogue of `solve()` -/

section Epilogue
variable {S D : Type} [DecidableEq S]

/-- first tree entry whose state is `c` -/
def findNode (tree : List (S × Option S)) (c : S) : Option (S × Option S) :=
  tree.find? (fun n => decide (n.1 = c))

/-- `mpath` of `solve()`: the solution motion first, then its ancestors -/
def pathFuel : Nat → List (S × Option S) → S → List S
  | 0, _, c => [c]
  | f + 1, tree, c =>
    match findNode tree c with
    | some (_, some p) => c :: pathFuel f tree p
    | _ => [c]

/-- the path handed to `addSolutionPath`: `mpath` reversed (start first) -/
def solutionPath (tree : List (S × Option S)) (c : S) : List S := (pathFuel tree.length tree c).reverse

structure Report (S D : Type) where
  approximate : Bool
  difference : Option D       -- `none`: nothing recorded.  `ProblemDefinition::addSolutionPath(path, approximate, difference)`
                              -- stores the difference only `if (approximate)`; an exact solution keeps the default 0
  path : List S

/-- what `solve()` reports after the workers have been joined -/
def report (s : PStore S D) : Option (Report S D) :=
  match s.sol with
  | some c => some ⟨false, none, solutionPath s.tree c⟩
  | none =>
    match s.approx with
    | some c => some ⟨true, s.approxdif, solutionPath s.tree c⟩
    | none => none

end Epilogue

/-- the states on which a worker executed its solution update (`.upd t` with the state of this iteration added), oldest
first — a function of the step sequence; used only to STATE what the approximate solution is the best of -/
def updatedCands {S D : Type} (e : PEnv S D) : List (PStep S) → PStore S D → List S
  | [], _ => []
  | a :: rest, s =>
    (match a with
      | .upd t => if (s.loc t).added then [(s.loc t).cand] else []
      | _ => []) ++ updatedCands e rest (PStep.apply e a s)

/-! ## concrete: RealVector states as bit patterns -/

abbrev Vec := List UInt64

def Vec.val (v : Vec) : List Float := v.map Float.ofBits

/-- `RealVectorStateSpace::distance` -/
def rvDistance (a b : Vec) : Float :=
  let rec go : List Float → List Float → Float → Float
    | x :: xs, y :: ys, acc => let diff := x - y; go xs ys (acc + diff * diff)
    | _, _, acc => acc
  Float.sqrt (go a.val b.val 0.0)

/-- `RealVectorStateSpace::interpolate` -/
def rvInterpolate (a b : Vec) (t : Float) : Vec :=
  let rec go : List Float → List Float → List UInt64
    | x :: xs, y :: ys => (x + (y - x) * t).toBits :: go xs ys
    | _, _ => []
  go a.val b.val

/-- brute-force nearest: the first node at minimal distance (strict `<` keeps the earlier one) -/
def nearestFrom (x : Vec) : Vec → Float → List Vec → Vec
  | best, _, [] => best
  | best, bd, n :: ns =>
    let d := rvDistance n x
    if d < bd then nearestFrom x n d ns else nearestFrom x best bd ns

def nearestOf (nodes : List Vec) (x : Vec) : Vec :=
  match nodes with
  | [] => x
  | n :: ns => nearestFrom x n (rvDistance n x) ns

/-- the same with the real structure's answer as a *validated hint*: if that answer is a tree node at exactly the minimal
distance it is taken (a nearest-neighbour structure may return any of several equidistant nodes), otherwise the
brute-force choice stands and the replay shows the difference -/
def nearestHinted (hint : Option Vec) (nodes : List Vec) (x : Vec) : Vec :=
  let n := nearestOf nodes x
  match hint with
  | some h => if h ∈ nodes ∧ (rvDistance h x == rvDistance n x) = true then h else n
  | none => n

/-- the state pRRT tries to add -/
def steerRV (maxDistance : Float) (near x : Vec) : Vec :=
  let d := rvDistance near x
  if d > maxDistance then rvInterpolate near x (maxDistance / d) else x

/-- the recorded answers of the validity oracle: `(from, to, answer)` -/
abbrev ValidTable := List (Vec × Vec × Bool)

def ValidTable.lookup (tab : ValidTable) (a b : Vec) : Option Bool :=
  (tab.find? (fun r => decide (r.1 = a ∧ r.2.1 = b))).map (·.2.2)

structure RvParams where
  maxDistance : Float
  threshold : Float
  goalState : Vec
  root : Vec

/-- pRRT's environment on a RealVector space with a `GoalState` goal.  `D = Float`; `lt` is `<` on doubles. -/
def rvEnv (p : RvParams) (tab : ValidTable) (hint : Option Vec := none) : PEnv Vec Float where
  root := p.root
  valid := fun a b => (tab.lookup a b).getD false     -- the driver never asks outside the table (it checks first)
  sel := nearestHinted hint
  steer := steerRV p.maxDistance
  goal := fun c => rvDistance c p.goalState < p.threshold
  dist := fun c => rvDistance c p.goalState
  lt := fun a b => a < b

end OmplModel.Interleave
