import OmplModel.Model.Constrained
/-
Model of the control flow of the atlas-based constrained spaces, *as coded*:

  * `AtlasStateSpace::discreteGeodesic`                 spaces/constraint/src/AtlasStateSpace.cpp
  * `TangentBundleStateSpace::discreteGeodesic`, `::project`, `::geodesicInterpolate`
                                                        spaces/constraint/src/TangentBundleStateSpace.cpp
  * `AtlasStateSampler::sampleUniform / sampleUniformNear / sampleGaussian` (also TangentBundle's sampler)

Core Lean only.  Everything a chart or the atlas does is a *stateful oracle* (`AtlasOracle`):
`AtlasChart::psi / phi / psiInverse / inPolytope / borderCheck`, `AtlasStateSpace::getChart /
owningChart / sampleChart` (so also `newChart`, which only runs inside `getChart`),
`Constraint::isSatisfied / distance`, `isValid`, the random draws, and the two pieces of Eigen
arithmetic done in chart coordinates (`u_j += s * (u_b - u_j).normalized()` and
`(u_b - u_j).squaredNorm() <= delta²`).  States `S`, chart coordinates `U`, chart handles `C`,
distances `D` are type parameters.  `unsigned int tries` is a `Nat` below 2³² with C's wrap-around
(`dec32`).  A null `AtlasChart*` is `none`; dereferencing it (TangentBundle's `project`) makes the
model answer `none` (undefined behaviour in C++).  Loops get fuel; `none`/`Exit.fuel` if it runs
out (never with the fuel the driver passes).
-/
namespace OmplModel.Constrained

structure AtlasOracle (σ S U C D : Type) where
  /-- `constraint_->isSatisfied(x)` -/
  isSat : σ → S → Bool × σ
  /-- `svc->isValid(x)` -/
  valid : σ → S → Bool × σ
  /-- `getChart(x, force, &created)`: the chart (or null) and whether one was created -/
  getChart : σ → S → Bool → (Option C × Bool) × σ
  /-- `c->psiInverse(x, u)` -/
  psiInv : σ → C → S → U × σ
  /-- `c->psi(u, x)`: verdict and what it left in `x` -/
  psi : σ → C → U → (Bool × S) × σ
  /-- `c->phi(u, x)` -/
  phi : σ → C → U → S × σ
  /-- `c->inPolytope(u)` -/
  inPoly : σ → C → U → Bool × σ
  /-- `constraint_->distance(x)` -/
  conDist : σ → S → D × σ
  /-- `u_j += s * (u_b - u_j).normalized()` -/
  advance : σ → U → U → D → U × σ
  /-- `(u_b - u_j).squaredNorm() <= delta_ * delta_` -/
  uClose : σ → U → U → Bool × σ
  /-- `atlas_->sampleChart()` -/
  sampleChart : σ → C × σ
  /-- the draw of `sampleUniform`: `ru` -/
  drawBall : σ → U × σ
  /-- the draw of `sampleUniformNear` / `sampleGaussian` around `ru` -/
  drawNear : σ → U → D → U × σ
  /-- `atlas_->owningChart(x)` -/
  owning : σ → S → Option C × σ
  /-- `c->borderCheck(u)` -/
  border : σ → C → U → σ
  /-- `c->getOrigin()` -/
  origin : C → S

structure AtlasParams (D : Type) where
  delta : D
  lambda : D
  epsilon : D
  cosAlpha : D
  backoff : D
  maxCharts : Nat

variable {σ S U C D : Type}

/-! ### `AtlasStateSpace::discreteGeodesic` -/

inductive AExit where
  | notOnManifold   -- `!constraint_->isSatisfied(from)`
  | fromInvalid     -- `!(interpolate || svc->isValid(from))`
  | noChart         -- `getChart(afrom) == nullptr`
  | already         -- `distTo <= tolerance`
  | factorSmall     -- `factor < delta_`
  | psiFail         -- `!c->psi(u_j, *temp)`
  | stalled         -- `step < epsilon()`
  | invalid         -- `!(interpolate || svc->isValid(scratch))`
  | leftBall        -- `distance(from, scratch) > distMax`
  | wandered        -- `dist > distMax`
  | chartLimit      -- `chartsCreated > maxChartsPerExtension_`
  | singular        -- `getChart(scratch, true, &created) == nullptr`
  | nonFinite       -- TangentBundle: `!std::isfinite(dist)`
  | reached         -- `while (!done)` ended
  | fuel            -- model only
deriving DecidableEq, Repr, Inhabited

def AExit.name : AExit → String
  | .notOnManifold => "notOnManifold" | .fromInvalid => "fromInvalid" | .noChart => "noChart"
  | .already => "already" | .factorSmall => "factorSmall" | .psiFail => "psiFail"
  | .stalled => "stalled" | .invalid => "invalid" | .leftBall => "leftBall" | .wandered => "wandered"
  | .chartLimit => "chartLimit" | .singular => "singular" | .nonFinite => "nonFinite"
  | .reached => "reached" | .fuel => "fuel"

structure AGeoOut (σ S : Type) where
  exit : AExit
  ok : Bool
  /-- `none`: `*geodesic` was not touched (the early `return false`s) -/
  states : Option (List S)
  st : σ

/-- one pass through the loop body after the `factor < delta_` test -/
inductive AStep (σ S U C D : Type) where
  /-- a `break` (`done` is `false` at every one of them) -/
  | stop (why : AExit) (s : σ)
  /-- `factor *= backoff_; continue;` — `u_j` keeps the rejected advance -/
  | backoff (s : σ) (uj : U)
  /-- the state is accepted and pushed -/
  | accept (x : S) (s : σ) (c : C) (uj ub : U) (dist : D) (created : Nat) (done : Bool)

/-- `interpolate || svc->isValid(x)` -/
def validOrSkip (O : AtlasOracle σ S U C D) (interpolate : Bool) (s : σ) (x : S) : Bool × σ :=
  if interpolate then (true, s) else O.valid s x

/-- `distance(scratch, temp) > epsilon_ || delta_ / step < cos_alpha_ || !c->inPolytope(u_j)`
(short-circuit: `inPolytope` is only asked when the first two are false) -/
def leavesChart (A : Arith D) (O : AtlasOracle σ S U C D) (P : AtlasParams D) (s : σ) (c : C) (u : U)
    (off step : D) : Bool × σ :=
  if A.lt P.epsilon off then (true, s)
  else if A.lt (A.div P.delta step) P.cosAlpha then (true, s)
  else ((O.inPoly s c u).1 == false, (O.inPoly s c u).2)

/-- TangentBundle: `done || !c->inPolytope(u_j) || constraint_->distance(*temp) > epsilon_` -/
def tbNeedsProjection (A : Arith D) (O : AtlasOracle σ S U C D) (P : AtlasParams D) (done : Bool)
    (s : σ) (c : C) (u : U) (temp : S) : Bool × σ :=
  if done then (true, s)
  else if (O.inPoly s c u).1 = false then (true, (O.inPoly s c u).2)
  else (A.lt P.epsilon (O.conDist (O.inPoly s c u).2 temp).1, (O.conDist (O.inPoly s c u).2 temp).2)

def atlasStep (A : Arith D) (Am : Ambient S D) (O : AtlasOracle σ S U C D) (P : AtlasParams D)
    (interpolate : Bool) (frm to : S) (distMax : D) (s : σ) (c : C) (uj ub : U) (scratch : S)
    (dist factor : D) (created : Nat) : AStep σ S U C D :=
  -- u_j += factor * delta_ * (u_b - u_j).normalized();
  let a := O.advance s uj ub (A.mul factor P.delta)
  -- const bool onManifold = c->psi(u_j, *temp);
  let p := O.psi a.2 c a.1
  if p.1.1 = false then .stop .psiFail p.2 else
  let temp := p.1.2
  let step := Am.dist scratch temp
  if A.lt step A.eps then .stop .stalled p.2 else
  -- const bool exceedStepSize = step >= lambda_ * delta_;
  if A.le (A.mul P.lambda P.delta) step then .backoff p.2 a.1 else
  let dist' := A.add dist step
  -- copyState(scratch, temp);  `!(interpolate || svc->isValid(scratch))`
  let v := validOrSkip O interpolate p.2 temp
  if v.1 = false then .stop .invalid v.2 else
  if A.lt distMax (Am.dist frm temp) then .stop .leftBall v.2 else
  if A.lt distMax dist' then .stop .wandered v.2 else
  if P.maxCharts < created then .stop .chartLimit v.2 else
  -- c->phi(u_j, *temp);
  let f := O.phi v.2 c a.1
  -- `distance(scratch, temp) > epsilon_ || delta_ / step < cos_alpha_ || !c->inPolytope(u_j)`
  let ip := leavesChart A O P f.2 c a.1 (Am.dist temp f.1) step
  if ip.1 then
    let g := O.getChart ip.2 temp true
    match g.1.1 with
    | none => .stop .singular g.2
    | some c' =>
      let i1 := O.psiInv g.2 c' temp
      let i2 := O.psiInv i1.2 c' to
      .accept temp i2.2 c' i1.1 i2.1 dist' (created + (if g.1.2 then 1 else 0)) (A.le (Am.dist temp to) P.delta)
  else .accept temp ip.2 c a.1 ub dist' created (A.le (Am.dist temp to) P.delta)

structure ALoopOut (σ S : Type) where
  exit : AExit
  ok : Bool
  states : List S
  st : σ

/-- the `do { … } while (!done)` loop; returns the states pushed from here on -/
def atlasLoop (A : Arith D) (Am : Ambient S D) (O : AtlasOracle σ S U C D) (P : AtlasParams D)
    (interpolate : Bool) (frm to : S) (distMax : D) :
    Nat → σ → C → U → U → S → D → D → Nat → ALoopOut σ S
  | 0, s, _, _, _, _, _, _, _ => ⟨.fuel, false, [], s⟩
  | k + 1, s, c, uj, ub, scratch, dist, factor, created =>
    if A.lt factor P.delta then ⟨.factorSmall, false, [], s⟩ else
    match atlasStep A Am O P interpolate frm to distMax s c uj ub scratch dist factor created with
    | .stop why s' => ⟨why, false, [], s'⟩
    | .backoff s' uj' =>
      atlasLoop A Am O P interpolate frm to distMax k s' c uj' ub scratch dist (A.mul factor P.backoff) created
    | .accept x s' c' uj' ub' dist' created' done =>
      if done then
        -- `const bool ret = done && distance(to, scratch) <= delta_;`
        ⟨.reached, A.le (Am.dist to x) P.delta, [x], s'⟩
      else
        let r := atlasLoop A Am O P interpolate frm to distMax k s' c' uj' ub' x dist' A.one created'
        { r with states := x :: r.states }

def atlasGeodesic (A : Arith D) (Am : Ambient S D) (O : AtlasOracle σ S U C D) (P : AtlasParams D)
    (fuel : Nat) (s : σ) (frm to : S) (interpolate : Bool) : AGeoOut σ S :=
  let a := O.isSat s frm
  if a.1 = false then ⟨.notOnManifold, false, none, a.2⟩ else
  let v := validOrSkip O interpolate a.2 frm
  if v.1 = false then ⟨.fromInvalid, false, none, v.2⟩ else
  let g := O.getChart v.2 frm false
  match g.1.1 with
  | none => ⟨.noChart, false, none, g.2⟩
  | some c =>
    let distTo := Am.dist frm to
    if A.le distTo P.delta then ⟨.already, true, some [frm], g.2⟩ else
    let i1 := O.psiInv g.2 c frm
    let i2 := O.psiInv i1.2 c to
    let r := atlasLoop A Am O P interpolate frm to (A.mul P.lambda distTo) fuel i2.2 c i1.1 i2.1 frm
      A.zero A.one 0
    ⟨r.exit, r.ok, some (frm :: r.states), r.st⟩

def atlasGeo (A : Arith D) (Am : Ambient S D) (O : AtlasOracle σ S U C D) (P : AtlasParams D)
    (fuel : Nat) : Geo σ S :=
  fun s a b i =>
    let r := atlasGeodesic A Am O P fuel s a b i
    (r.ok, r.states.getD [], r.st)

/-! ### `TangentBundleStateSpace::discreteGeodesic` -/

inductive TStep (σ S U C D : Type) where
  /-- a `break`; `scratch` is the value of `scratch` at that point -/
  | stop (why : AExit) (s : σ) (scratch : S)
  | accept (x : S) (s : σ) (c : C) (uj ub : U) (dist : D) (created : Nat) (done : Bool)

/-- `if (reproject && !c->psi(u_j, *temp)) break;` — `psi` is only asked when `reproject` -/
def psiIfNeeded (O : AtlasOracle σ S U C D) (need : Bool) (s : σ) (c : C) (u : U) (temp : S) : (Bool × S) × σ :=
  if need then O.psi s c u else ((true, temp), s)

/-- one pass through the loop body **after the repair of F175**: the validity test no longer looks at
`scratch` (the previous state) at the top; instead the state about to be stored (`temp`, after the
optional re-projection, while `scratch` still holds the last stored state) is handed to `isValid`
right before it is stored.  `from` is validated once, before the loop (`tbGeodesic`). -/
def tbStep (A : Arith D) (Am : Ambient S D) (O : AtlasOracle σ S U C D) (P : AtlasParams D)
    (isFin : D → Bool) (interpolate : Bool) (frm to : S) (distMax : D) (s : σ) (c : C) (uj ub : U)
    (scratch : S) (dist : D) (created : Nat) : TStep σ S U C D :=
  -- u_j += delta_ * (u_b - u_j).normalized();  c->phi(u_j, *temp);
  let a := O.advance s uj ub P.delta
  let f := O.phi a.2 c a.1
  let temp := f.1
  let step := Am.dist temp scratch
  if A.lt step A.eps then .stop .stalled f.2 scratch else
  let dist' := A.add dist step
  if A.lt distMax (Am.dist temp frm) then .stop .leftBall f.2 scratch else
  if isFin dist' = false then .stop .nonFinite f.2 scratch else
  if A.lt distMax dist' then .stop .wandered f.2 scratch else
  if P.maxCharts < created then .stop .chartLimit f.2 scratch else
  let d1 := O.uClose f.2 ub a.1
  -- `reproject = done || !c->inPolytope(u_j) || constraint_->distance(*temp) > epsilon_`
  let need := tbNeedsProjection A O P d1.1 d1.2 c a.1 temp
  -- `if (reproject && !c->psi(u_j, *temp)) break;`
  let p := psiIfNeeded O need.1 need.2 c a.1 temp
  if p.1.1 = false then .stop .psiFail p.2 scratch else
  let x := p.1.2
  -- `if (!(interpolate || svc->isValid(temp))) break;` — the state about to be stored
  let v := validOrSkip O interpolate p.2 x
  if v.1 = false then .stop .invalid v.2 scratch else
  if need.1 then
    let g := O.getChart v.2 x true
    match g.1.1 with
    | none => .stop .singular g.2 x
    | some c' =>
      let i1 := O.psiInv g.2 c' x
      let i2 := O.psiInv i1.2 c' to
      let d2 := O.uClose i2.2 i2.1 i1.1
      .accept x d2.2 c' i1.1 i2.1 dist' (created + (if g.1.2 then 1 else 0)) d2.1
  else .accept x v.2 c a.1 ub dist' created d1.1

def tbLoop (A : Arith D) (Am : Ambient S D) (O : AtlasOracle σ S U C D) (P : AtlasParams D)
    (isFin : D → Bool) (interpolate : Bool) (frm to : S) (distMax : D) :
    Nat → σ → C → U → U → S → D → Nat → ALoopOut σ S
  | 0, s, _, _, _, _, _, _ => ⟨.fuel, false, [], s⟩
  | k + 1, s, c, uj, ub, scratch, dist, created =>
    match tbStep A Am O P isFin interpolate frm to distMax s c uj ub scratch dist created with
    -- `const bool ret = distance(to, scratch) <= delta_;` whatever ended the loop
    | .stop why s' scratch' => ⟨why, A.le (Am.dist to scratch') P.delta, [], s'⟩
    | .accept x s' c' uj' ub' dist' created' done =>
      if done then ⟨.reached, A.le (Am.dist to x) P.delta, [x], s'⟩
      else
        let r := tbLoop A Am O P isFin interpolate frm to distMax k s' c' uj' ub' x dist' created'
        { r with states := x :: r.states }

def tbGeodesic (A : Arith D) (Am : Ambient S D) (O : AtlasOracle σ S U C D) (P : AtlasParams D)
    (isFin : D → Bool) (fuel : Nat) (s : σ) (frm to : S) (interpolate : Bool) : AGeoOut σ S :=
  let a := O.isSat s frm
  if a.1 = false then ⟨.notOnManifold, false, none, a.2⟩ else
  let g := O.getChart a.2 frm false
  match g.1.1 with
  | none => ⟨.noChart, false, none, g.2⟩
  | some c =>
    let distTo := Am.dist frm to
    if A.le distTo P.delta then ⟨.already, true, some [frm], g.2⟩ else
    let i1 := O.psiInv g.2 c frm
    let i2 := O.psiInv i1.2 c to
    -- `if (!(interpolate || svc->isValid(from))) return false;` (the list already holds `from`)
    let v := validOrSkip O interpolate i2.2 frm
    if v.1 = false then ⟨.fromInvalid, false, some [frm], v.2⟩ else
    let r := tbLoop A Am O P isFin interpolate frm to (A.mul P.lambda distTo) fuel v.2 c i1.1 i2.1 frm
      A.zero 0
    ⟨r.exit, r.ok, some (frm :: r.states), r.st⟩

/-! #### before the repair of F175 (kept for the witness `tb_geodesic_old_last_state_unvalidated`)
the loop validates `scratch`, the state stored by the *previous* iteration, never the state it is
about to store -/

def tbStepOld (A : Arith D) (Am : Ambient S D) (O : AtlasOracle σ S U C D) (P : AtlasParams D)
    (isFin : D → Bool) (interpolate : Bool) (frm to : S) (distMax : D) (s : σ) (c : C) (uj ub : U)
    (scratch : S) (dist : D) (created : Nat) : TStep σ S U C D :=
  -- u_j += delta_ * (u_b - u_j).normalized();  c->phi(u_j, *temp);
  let a := O.advance s uj ub P.delta
  let f := O.phi a.2 c a.1
  let temp := f.1
  let step := Am.dist temp scratch
  if A.lt step A.eps then .stop .stalled f.2 scratch else
  let dist' := A.add dist step
  -- `!(interpolate || svc->isValid(scratch))`: the *previous* state is the one validated
  let v := validOrSkip O interpolate f.2 scratch
  if v.1 = false then .stop .invalid v.2 scratch else
  if A.lt distMax (Am.dist temp frm) then .stop .leftBall v.2 scratch else
  if isFin dist' = false then .stop .nonFinite v.2 scratch else
  if A.lt distMax dist' then .stop .wandered v.2 scratch else
  if P.maxCharts < created then .stop .chartLimit v.2 scratch else
  let d1 := O.uClose v.2 ub a.1
  -- `done || !c->inPolytope(u_j) || constraint_->distance(*temp) > epsilon_`
  let need := tbNeedsProjection A O P d1.1 d1.2 c a.1 temp
  if need.1 then
    let p := O.psi need.2 c a.1
    if p.1.1 = false then .stop .psiFail p.2 scratch else
    let x := p.1.2
    let g := O.getChart p.2 x true
    match g.1.1 with
    | none => .stop .singular g.2 x
    | some c' =>
      let i1 := O.psiInv g.2 c' x
      let i2 := O.psiInv i1.2 c' to
      let d2 := O.uClose i2.2 i2.1 i1.1
      .accept x d2.2 c' i1.1 i2.1 dist' (created + (if g.1.2 then 1 else 0)) d2.1
  else .accept temp need.2 c a.1 ub dist' created d1.1

def tbLoopOld (A : Arith D) (Am : Ambient S D) (O : AtlasOracle σ S U C D) (P : AtlasParams D)
    (isFin : D → Bool) (interpolate : Bool) (frm to : S) (distMax : D) :
    Nat → σ → C → U → U → S → D → Nat → ALoopOut σ S
  | 0, s, _, _, _, _, _, _ => ⟨.fuel, false, [], s⟩
  | k + 1, s, c, uj, ub, scratch, dist, created =>
    match tbStepOld A Am O P isFin interpolate frm to distMax s c uj ub scratch dist created with
    -- `const bool ret = distance(to, scratch) <= delta_;` whatever ended the loop
    | .stop why s' scratch' => ⟨why, A.le (Am.dist to scratch') P.delta, [], s'⟩
    | .accept x s' c' uj' ub' dist' created' done =>
      if done then ⟨.reached, A.le (Am.dist to x) P.delta, [x], s'⟩
      else
        let r := tbLoopOld A Am O P isFin interpolate frm to distMax k s' c' uj' ub' x dist' created'
        { r with states := x :: r.states }

def tbGeodesicOld (A : Arith D) (Am : Ambient S D) (O : AtlasOracle σ S U C D) (P : AtlasParams D)
    (isFin : D → Bool) (fuel : Nat) (s : σ) (frm to : S) (interpolate : Bool) : AGeoOut σ S :=
  let a := O.isSat s frm
  if a.1 = false then ⟨.notOnManifold, false, none, a.2⟩ else
  let g := O.getChart a.2 frm false
  match g.1.1 with
  | none => ⟨.noChart, false, none, g.2⟩
  | some c =>
    let distTo := Am.dist frm to
    if A.le distTo P.delta then ⟨.already, true, some [frm], g.2⟩ else
    let i1 := O.psiInv g.2 c frm
    let i2 := O.psiInv i1.2 c to
    let r := tbLoopOld A Am O P isFin interpolate frm to (A.mul P.lambda distTo) fuel i2.2 c i1.1 i2.1 frm
      A.zero 0
    ⟨r.exit, r.ok, some (frm :: r.states), r.st⟩

def tbGeo (A : Arith D) (Am : Ambient S D) (O : AtlasOracle σ S U C D) (P : AtlasParams D)
    (isFin : D → Bool) (fuel : Nat) : Geo σ S :=
  fun s a b i =>
    let r := tbGeodesic A Am O P isFin fuel s a b i
    (r.ok, r.states.getD [], r.st)

def tbGeoOld (A : Arith D) (Am : Ambient S D) (O : AtlasOracle σ S U C D) (P : AtlasParams D)
    (isFin : D → Bool) (fuel : Nat) : Geo σ S :=
  fun s a b i =>
    let r := tbGeodesicOld A Am O P isFin fuel s a b i
    (r.ok, r.states.getD [], r.st)

/-- `TangentBundleStateSpace::project(state)`; `none` = `chart` was null and is dereferenced. -/
def tbProject (O : AtlasOracle σ S U C D) (s : σ) (x : S) : Option (Bool × S × σ) :=
  let g := O.getChart s x true
  match g.1.1 with
  | none => none
  | some c =>
    let i := O.psiInv g.2 c x
    let p := O.psi i.2 c i.1
    if p.1.1 then
      let v := O.valid p.2 p.1.2
      some (v.1, p.1.2, v.2)
    else some (false, p.1.2, p.2)

/-- `TangentBundleStateSpace::geodesicInterpolate(geodesic, t)` **before** the fix 8af6fc6c7 (F74),
kept for the witness `tb_interpolate_old_alias_fails`.  `project` works in place on the picked list
element (`psi` writes its iterate into it whether or not it converges), and the failure path returns
`geodesic[0]` — which *is* that overwritten element when the pick was index 0.  `r.2.1` is what
`psi` left behind. -/
def tbPickOld (A : Arith D) (Am : Ambient S D) (O : AtlasOracle σ S U C D) (s : σ) (g : List S) (t : D) :
    Option (S × σ) :=
  match geodesicInterpolateIdx A Am g t with
  | none => none
  | some i =>
    match g[i]? with
    | none => none
    | some x =>
      match tbProject O s x with
      | none => none
      | some r =>
        if r.1 then some (r.2.1, r.2.2)
        else if i = 0 then some (r.2.1, r.2.2)          -- geodesic[0] was overwritten by the failed projection
        else (g.head?).map (fun y => (y, r.2.2))

/-- `TangentBundleStateSpace::geodesicInterpolate(geodesic, t)` as it is now:
`if (state == geodesic[0]) return state;` (pointer equality = the pick is index 0: no projection at
all), otherwise `project` in place and `geodesic[0]` (untouched) on failure. -/
def tbPick (A : Arith D) (Am : Ambient S D) (O : AtlasOracle σ S U C D) (s : σ) (g : List S) (t : D) :
    Option (S × σ) :=
  match geodesicInterpolateIdx A Am g t with
  | none => none
  | some i =>
    match g[i]? with
    | none => none
    | some x =>
      if i = 0 then some (x, s)
      else
        match tbProject O s x with
        | none => none
        | some r => if r.1 then some (r.2.1, r.2.2) else (g.head?).map (fun y => (y, r.2.2))

/-- `ConstrainedStateSpace::interpolate` on a TangentBundle space (virtual dispatch to the
functions above). -/
def tbInterpolateG (A : Arith D) (Am : Ambient S D) (O : AtlasOracle σ S U C D) (geo : Geo σ S)
    (s : σ) (frm to : S) (t : D) : Option (S × σ) :=
  let r := geo s frm to true
  if r.1 then tbPick A Am O r.2.2 r.2.1 t else some (frm, r.2.2)

def tbInterpolate (A : Arith D) (Am : Ambient S D) (O : AtlasOracle σ S U C D) (P : AtlasParams D)
    (isFin : D → Bool) (fuel : Nat) (s : σ) (frm to : S) (t : D) : Option (S × σ) :=
  tbInterpolateG A Am O (tbGeo A Am O P isFin fuel) s frm to t

/-- the same before the fix -/
def tbInterpolateOld (A : Arith D) (Am : Ambient S D) (O : AtlasOracle σ S U C D) (P : AtlasParams D)
    (isFin : D → Bool) (fuel : Nat) (s : σ) (frm to : S) (t : D) : Option (S × σ) :=
  let r := tbGeo A Am O P isFin fuel s frm to true
  if r.1 then tbPickOld A Am O r.2.2 r.2.1 t else some (frm, r.2.2)

/-! ### `AtlasStateSampler` -/

/-- `unsigned int` decrement -/
def dec32 (t : Nat) : Nat := (t + 4294967296 - 1) % 4294967296

/-- where the coordinates handed back came from -/
inductive Via where
  | psi        -- a `psi` call that returned `true`
  | fallback   -- `tries == 0`: chart origin / `near` / `mean`
  | garbage    -- neither (cannot happen in the code as it is, see `Props/C16`)
deriving DecidableEq, Repr

structure SampleOut (σ S : Type) where
  /-- the coordinates after `enforceBounds` -/
  state : S
  /-- before `enforceBounds` -/
  raw : S
  via : Via
  /-- number of `psi` calls made -/
  psiCalls : Nat
  st : σ

/-- inner `do { c = sampleChart(); ru = … } while (tries-- > 0 && !c->inPolytope(ru));` -/
def uniInner (O : AtlasOracle σ S U C D) : Nat → σ → Nat → Option (C × U × Nat × σ)
  | 0, _, _ => none
  | f + 1, s, tries =>
    let c := O.sampleChart s
    let ru := O.drawBall c.2
    if 0 < tries then
      let ip := O.inPoly ru.2 c.1 ru.1
      if ip.1 = false then uniInner O f ip.2 (dec32 tries) else some (c.1, ru.1, dec32 tries, ip.2)
    else some (c.1, ru.1, dec32 tries, ru.2)

/-- outer `do { … } while (tries > 0 && !c->psi(ru, *astate));` then `if (tries == 0) origin`.
`buf` is what `*astate` holds. -/
def uniOuter (O : AtlasOracle σ S U C D) (fuel : Nat) :
    Nat → σ → Nat → S → Via → Nat → Option (S × Via × C × U × Nat × σ)
  | 0, _, _, _, _, _ => none
  | f + 1, s, tries, _buf, _via, n =>
    match uniInner O fuel s tries with
    | none => none
    | some (c, ru, tries', s') =>
      if 0 < tries' then
        let p := O.psi s' c ru
        if p.1.1 = false then uniOuter O fuel f p.2 tries' p.1.2 .garbage (n + 1)
        else some (p.1.2, .psi, c, ru, n + 1, p.2)
      else
        -- `tries == 0`: `atlas_->copyState(astate, c->getOrigin());`
        some (O.origin c, .fallback, c, ru, n, s')

/-- `AtlasStateSampler::sampleUniform(state)`; `T` is `ATLAS_STATE_SPACE_SAMPLES`. -/
def atlasSampleUniform (Am : Ambient S D) (O : AtlasOracle σ S U C D) (T fuel : Nat) (s : σ) (buf : S) :
    Option (SampleOut σ S) :=
  match uniOuter O fuel fuel s T buf .garbage 0 with
  | none => none
  | some (x, via, c, _, n, s') =>
    let y := Am.clamp x
    -- c->psiInverse(*astate, ru); c->borderCheck(ru); astate->setChart(atlas_->owningChart(astate));
    let i := O.psiInv s' c y
    let b := O.border i.2 c i.1
    let o := O.owning b y
    some ⟨y, x, via, n, o.2⟩

/-- `do { draw } while (--tries > 0 && !c->psi(uoffset, *astate));` of `sampleUniformNear` /
`sampleGaussian` — **pre**-decrement, as coded. -/
def nearLoop (O : AtlasOracle σ S U C D) (c : C) (ru : U) (d : D) :
    Nat → σ → Nat → S → Via → Nat → Option (S × Via × Nat × Nat × σ)
  | 0, _, _, _, _, _ => none
  | f + 1, s, tries, buf, via, n =>
    let u := O.drawNear s ru d
    let tries' := dec32 tries
    if 0 < tries' then
      let p := O.psi u.2 c u.1
      if p.1.1 = false then nearLoop O c ru d f p.2 tries' p.1.2 .garbage (n + 1)
      else some (p.1.2, .psi, tries', n + 1, p.2)
    else some (buf, via, tries', n, u.2)

/-- the variant with a **post**-decrement (`tries-- > 0 && !psi`), *not* the code: kept for the
witness that it skips the fallback. -/
def nearLoopPostDec (O : AtlasOracle σ S U C D) (c : C) (ru : U) (d : D) :
    Nat → σ → Nat → S → Via → Nat → Option (S × Via × Nat × Nat × σ)
  | 0, _, _, _, _, _ => none
  | f + 1, s, tries, buf, via, n =>
    let u := O.drawNear s ru d
    let tries' := dec32 tries
    if 0 < tries then
      let p := O.psi u.2 c u.1
      if p.1.1 = false then nearLoopPostDec O c ru d f p.2 tries' p.1.2 .garbage (n + 1)
      else some (p.1.2, .psi, tries', n + 1, p.2)
    else some (buf, via, tries', n, u.2)

/-- the part after the loop: fallback, `enforceBounds`, chart bookkeeping -/
def nearFinish (Am : Ambient S D) (O : AtlasOracle σ S U C D) (c : C) (near : S)
    (r : S × Via × Nat × Nat × σ) : SampleOut σ S :=
  -- `if (tries == 0) atlas_->copyState(state, near);`
  let x := if r.2.2.1 = 0 then near else r.1
  let via := if r.2.2.1 = 0 then Via.fallback else r.2.1
  let y := Am.clamp x
  -- c->psiInverse(*astate, ru); if (!c->inPolytope(ru)) c = getChart(astate, true); else c->borderCheck(ru);
  let i := O.psiInv r.2.2.2.2 c y
  let ip := O.inPoly i.2 c i.1
  let s' := if ip.1 = false then (O.getChart ip.2 y true).2 else O.border ip.2 c i.1
  ⟨y, x, via, r.2.2.2.1, s'⟩

/-- `AtlasStateSampler::sampleUniformNear(state, near, dist)` and `sampleGaussian(state, mean,
stdDev)` (they differ only in the draw). -/
def atlasSampleNear (Am : Ambient S D) (O : AtlasOracle σ S U C D) (T fuel : Nat) (s : σ) (buf near : S)
    (d : D) : Option (SampleOut σ S) :=
  let g := O.getChart s near true
  match g.1.1 with
  | none => atlasSampleUniform Am O T fuel g.2 buf     -- "Falling back to uniform sample."
  | some c =>
    let i := O.psiInv g.2 c near
    match nearLoop O c i.1 d fuel i.2 T buf .garbage 0 with
    | none => none
    | some r => some (nearFinish Am O c near r)

abbrev atlasSampleGaussian := @atlasSampleNear

/-- the same with the post-decrement loop (not the code) -/
def atlasSampleNearPostDec (Am : Ambient S D) (O : AtlasOracle σ S U C D) (T fuel : Nat) (s : σ)
    (buf near : S) (d : D) : Option (SampleOut σ S) :=
  let g := O.getChart s near true
  match g.1.1 with
  | none => atlasSampleUniform Am O T fuel g.2 buf
  | some c =>
    let i := O.psiInv g.2 c near
    match nearLoopPostDec O c i.1 d fuel i.2 T buf .garbage 0 with
    | none => none
    | some r => some (nearFinish Am O c near r)

end OmplModel.Constrained
