import OmplModel.Model.Dubins
/-
Model of `ompl::base::ReedsSheppStateSpace` (src/ompl/base/spaces/src/ReedsSheppStateSpace.cpp):
`mod2pi`, `polar`, `tauOmega`, the nine base-word solvers (`LpSpLp … LpRmSLmRp`, formulas 8.1–8.11 of
the Reeds–Shepp paper as coded), the five families `CSC, CCC, CCCC, CCSC, CCSCC` with their
timeflip / reflect / backwards transforms in the code's order, `reedsShepp(x, y, phi)`,
`reedsShepp(s1, s2)`, `distance`, and `interpolate` (segment-by-segment integration, a negative segment
length = reversing).

Core Lean only (linked into `drv_dubins`).  Generic over `[RSNum α]` (`DNum` plus `asin`), same
operation order as the C++ so that the `Float` instance reproduces the doubles bit for bit.

How the C++ control flow is rendered:
* every `if (Solver(x', y', phi', t, u, v) && Lmin > (L = …)) { path = …; Lmin = L; }` is one *candidate*
  `Option (key, path)` (`none` when the solver returns false) and `consider` is the `Lmin > L` update;
  a family is the `foldl` of `consider` over its candidates in the code's order (`runFamily`), started
  from `Lmin = path.length()` (minus `π/2` for CCSC, minus `π` for CCSCC, as coded).  Ties keep the
  first candidate found (strict `>`), as coded.
* the four images of a base solver — plain, timeflip `(-x, y, -phi)` with all lengths negated,
  reflect `(x, -y, -phi)` with the mirrored word type, both — are `four`.
* a default-constructed `ReedsSheppPath` (`t = DBL_MAX`) is `none` (`Lmin = +∞`).
* the solvers' `assert`s are not part of the model (they are the `rs_word_reaches` theorems and the
  oracle's end-pose check).
-/
namespace OmplModel.RS
open OmplModel OmplModel.Dubins

class RSNum (α : Type) extends DNum α where
  asin : α → α
  /-- `ZERO` of ReedsSheppStateSpace.cpp.  As coded `10 * DBL_EPSILON` (`DBL_EPSILON = 2^-52 = 5^52 / 10^52`, exactly
  representable) — the default; a second `Float` instance (`rsFix67`) carries the value proposed as the repair of finding
  F67 so that the check can ask what the repaired code would return. -/
  zeroTol : α := 10 * Num.ofDec (5 ^ 52) 52

instance : RSNum Float where
  asin := Float.asin

/-- the `Float` run with `ZERO = 1e-12` (notes/C14-fix-F67.diff): used only by the driver's `…fix` ops -/
@[instance_reducible] def rsFix67 : RSNum Float where
  asin := Float.asin
  zeroTol := 1e-12

/-- `ZERO = 1e-9`: at unit-radius distances below ~1e-3 the degenerate segment of the optimal word is `ulp(coordinate) / distance`
(5e-12 at distance 7.7e-5), beyond the `1e-12` of the proposed repair; used only by the driver's `bothfixw` op (finding F440) -/
@[instance_reducible] def rsFix67w : RSNum Float where
  asin := Float.asin
  zeroTol := 1e-9

/-- `ReedsSheppPathSegmentType` -/
inductive RSeg where
  | N | L | S | R
deriving DecidableEq, Repr

def RSeg.letter : RSeg → String
  | .N => "N" | .L => "L" | .S => "S" | .R => "R"

/-- `reedsSheppPathType[18][5]` -/
def rsType : Nat → List RSeg
  | 0 => [.L, .R, .L, .N, .N]
  | 1 => [.R, .L, .R, .N, .N]
  | 2 => [.L, .R, .L, .R, .N]
  | 3 => [.R, .L, .R, .L, .N]
  | 4 => [.L, .R, .S, .L, .N]
  | 5 => [.R, .L, .S, .R, .N]
  | 6 => [.L, .S, .R, .L, .N]
  | 7 => [.R, .S, .L, .R, .N]
  | 8 => [.L, .R, .S, .R, .N]
  | 9 => [.R, .L, .S, .L, .N]
  | 10 => [.R, .S, .R, .L, .N]
  | 11 => [.L, .S, .L, .R, .N]
  | 12 => [.L, .S, .R, .N, .N]
  | 13 => [.R, .S, .L, .N, .N]
  | 14 => [.L, .S, .L, .N, .N]
  | 15 => [.R, .S, .R, .N, .N]
  | 16 => [.L, .R, .S, .L, .R]
  | 17 => [.R, .L, .S, .R, .L]
  | _ => [.N, .N, .N, .N, .N]

/-- `ReedsSheppPath`: word type index and the five signed segment lengths -/
structure RSPath (α : Type) where
  ty : Nat
  l0 : α
  l1 : α
  l2 : α
  l3 : α
  l4 : α

section
variable {α : Type} [RSNum α]

def rpi : α := Num.pi
def rtwopi : α := 2 * Num.pi
def rhalf : α := Num.ofDec 5 1
/-- `ZERO = 10 * DBL_EPSILON` (`DBL_EPSILON = 2^-52 = 5^52 / 10^52`, exactly representable) -/
def rzero : α := RSNum.zeroTol
/-- `.5 * pi` -/
def hpi : α := rhalf * Num.pi

/-- the constructor's `totalLength_ = fabs(t) + fabs(u) + fabs(v) + fabs(w) + fabs(x)` -/
def RSPath.len (p : RSPath α) : α :=
  Num.abs p.l0 + Num.abs p.l1 + Num.abs p.l2 + Num.abs p.l3 + Num.abs p.l4

def RSPath.lens (p : RSPath α) : List α := [p.l0, p.l1, p.l2, p.l3, p.l4]

/-- `mod2pi` of ReedsSheppStateSpace.cpp (into `[-π, π]`).  C `fmod(±0, y)` is `±0` (the shared
`Num.fmod` of the `Float` instance drops the sign of a zero dividend), hence the first test. -/
def rmod2pi (x : α) : α :=
  let v := if x < 0 ∨ 0 < x then Num.fmod x rtwopi else x
  if v < -rpi then v + rtwopi
  else if rpi < v then v - rtwopi
  else v

/-- `polar(x, y, r, theta)` -/
def polar (x y : α) : α × α := (Num.sqrt (x * x + y * y), Num.atan2 y x)

/-- `tauOmega(u, v, xi, eta, phi, tau, omega)` -/
def tauOmega (u v xi eta phi : α) : α × α :=
  let delta := rmod2pi (u - v)
  let A := Num.sin u - Num.sin delta
  let B := Num.cos u - Num.cos delta - 1
  let t1 := Num.atan2 (eta * A - xi * B) (xi * A + eta * B)
  let t2 := 2 * (Num.cos delta - Num.cos v - Num.cos u) + 3
  let tau := if t2 < 0 then rmod2pi (t1 + rpi) else rmod2pi t1
  let omega := rmod2pi (tau - u + v - phi)
  (tau, omega)

abbrev Sol (α : Type) := Option (α × α × α)

/-! ## the base-word solvers -/

/-- formula 8.1 -/
def LpSpLp (x y phi : α) : Sol α :=
  let (u, t) := polar (x - Num.sin phi) (y - 1 + Num.cos phi)
  if -rzero ≤ t then
    let v := rmod2pi (phi - t)
    if -rzero ≤ v then some (t, u, v) else none
  else none

/-- formula 8.2 -/
def LpSpRp (x y phi : α) : Sol α :=
  let (u1, t1) := polar (x + Num.sin phi) (y - 1 - Num.cos phi)
  let u1 := u1 * u1
  if 4 ≤ u1 then
    let u := Num.sqrt (u1 - 4)
    let theta := Num.atan2 2 u
    let t := rmod2pi (t1 + theta)
    let v := rmod2pi (t - phi)
    if -rzero ≤ t ∧ -rzero ≤ v then some (t, u, v) else none
  else none

/-- formula 8.3 / 8.4 -/
def LpRmL (x y phi : α) : Sol α :=
  let xi := x - Num.sin phi
  let eta := y - 1 + Num.cos phi
  let (u1, theta) := polar xi eta
  if u1 ≤ 4 then
    let u := -2 * RSNum.asin (Num.ofDec 25 2 * u1)
    let t := rmod2pi (theta + rhalf * u + rpi)
    let v := rmod2pi (phi - t + u)
    if -rzero ≤ t ∧ u ≤ rzero then some (t, u, v) else none
  else none

/-- formula 8.7 -/
def LpRupLumRm (x y phi : α) : Sol α :=
  let xi := x + Num.sin phi
  let eta := y - 1 - Num.cos phi
  let rho := Num.ofDec 25 2 * (2 + Num.sqrt (xi * xi + eta * eta))
  if rho ≤ 1 then
    let u := Num.acos rho
    let (t, v) := tauOmega u (-u) xi eta phi
    if -rzero ≤ t ∧ v ≤ rzero then some (t, u, v) else none
  else none

/-- formula 8.8 -/
def LpRumLumRp (x y phi : α) : Sol α :=
  let xi := x + Num.sin phi
  let eta := y - 1 - Num.cos phi
  let rho := (20 - xi * xi - eta * eta) / 16
  if 0 ≤ rho ∧ rho ≤ 1 then
    let u := -Num.acos rho
    if -(rhalf * rpi) ≤ u then
      let (t, v) := tauOmega u u xi eta phi
      if -rzero ≤ t ∧ -rzero ≤ v then some (t, u, v) else none
    else none
  else none

/-- formula 8.9 -/
def LpRmSmLm (x y phi : α) : Sol α :=
  let xi := x - Num.sin phi
  let eta := y - 1 + Num.cos phi
  let (rho, theta) := polar xi eta
  if 2 ≤ rho then
    let r := Num.sqrt (rho * rho - 4)
    let u := 2 - r
    let t := rmod2pi (theta + Num.atan2 r (-2))
    let v := rmod2pi (phi - rhalf * rpi - t)
    if -rzero ≤ t ∧ u ≤ rzero ∧ v ≤ rzero then some (t, u, v) else none
  else none

/-- formula 8.10 -/
def LpRmSmRm (x y phi : α) : Sol α :=
  let xi := x + Num.sin phi
  let eta := y - 1 - Num.cos phi
  let (rho, theta) := polar (-eta) xi
  if 2 ≤ rho then
    let t := theta
    let u := 2 - rho
    let v := rmod2pi (t + rhalf * rpi - phi)
    if -rzero ≤ t ∧ u ≤ rzero ∧ v ≤ rzero then some (t, u, v) else none
  else none

/-- formula 8.11 -/
def LpRmSLmRp (x y phi : α) : Sol α :=
  let xi := x + Num.sin phi
  let eta := y - 1 - Num.cos phi
  let (rho, _theta) := polar xi eta
  if 2 ≤ rho then
    let u := 4 - Num.sqrt (rho * rho - 4)
    if u ≤ rzero then
      let t := rmod2pi (Num.atan2 ((4 - u) * xi - 2 * eta) (-2 * xi + (u - 4) * eta))
      let v := rmod2pi (t - phi)
      if -rzero ≤ t ∧ -rzero ≤ v then some (t, u, v) else none
    else none
  else none

/-! ## candidates and families -/

/-- `fabs(t) + fabs(u) + fabs(v)` -/
def key3 (t u v : α) : α := Num.abs t + Num.abs u + Num.abs v
/-- `fabs(t) + 2. * fabs(u) + fabs(v)` -/
def key4 (t u v : α) : α := Num.abs t + 2 * Num.abs u + Num.abs v

/-- `-z` under timeflip, `z` otherwise -/
def sg (flip : Bool) (z : α) : α := if flip then -z else z

/-- path builders: `(type, flip, t, u, v) ↦ ReedsSheppPath(type, …)`; unused entries are the constructor's `0.` -/
def bCSC (ty : Nat) (f : Bool) (t u v : α) : RSPath α := ⟨ty, sg f t, sg f u, sg f v, 0, 0⟩
/-- backwards: `(v, u, t)` -/
def bCCCrev (ty : Nat) (f : Bool) (t u v : α) : RSPath α := ⟨ty, sg f v, sg f u, sg f t, 0, 0⟩
/-- `(t, u, -u, v)` -/
def bCCCCa (ty : Nat) (f : Bool) (t u v : α) : RSPath α := ⟨ty, sg f t, sg f u, sg f (-u), sg f v, 0⟩
/-- `(t, u, u, v)` -/
def bCCCCb (ty : Nat) (f : Bool) (t u v : α) : RSPath α := ⟨ty, sg f t, sg f u, sg f u, sg f v, 0⟩
/-- `(t, -.5*pi, u, v)` -/
def bCCSC (ty : Nat) (f : Bool) (t u v : α) : RSPath α := ⟨ty, sg f t, sg f (-hpi), sg f u, sg f v, 0⟩
/-- backwards: `(v, u, -.5*pi, t)` -/
def bCCSCrev (ty : Nat) (f : Bool) (t u v : α) : RSPath α := ⟨ty, sg f v, sg f u, sg f (-hpi), sg f t, 0⟩
/-- `(t, -.5*pi, u, -.5*pi, v)` -/
def bCCSCC (ty : Nat) (f : Bool) (t u v : α) : RSPath α :=
  ⟨ty, sg f t, sg f (-hpi), sg f u, sg f (-hpi), sg f v⟩

/-- a candidate: the `L` the code compares and the path it would store -/
abbrev Cand (α : Type) := Option (α × RSPath α)

def mkCand (key : α → α → α → α) (b : Bool → α → α → α → RSPath α) (f : Bool) (s : Sol α) : Cand α :=
  match s with
  | some (t, u, v) => some (key t u v, b f t u v)
  | none => none

/-- the four images of a base solver in the code's order: plain, timeflip, reflect, timeflip + reflect -/
def four (S : α → α → α → Sol α) (key : α → α → α → α) (b : Nat → Bool → α → α → α → RSPath α)
    (tyA tyB : Nat) (x y phi : α) : List (Cand α) :=
  [ mkCand key (b tyA) false (S x y phi),
    mkCand key (b tyA) true (S (-x) y (-phi)),
    mkCand key (b tyB) false (S x (-y) (-phi)),
    mkCand key (b tyB) true (S (-x) (-y) phi) ]

structure Acc (α : Type) where
  lmin : Option α          -- `none` = `DBL_MAX`
  path : Option (RSPath α)

/-- `Lmin > L` -/
def gtOpt : Option α → α → Bool
  | none, _ => true
  | some m, L => decide (L < m)

/-- `if (solver && Lmin > L) { path = …; Lmin = L; }` -/
def consider (acc : Acc α) (c : Cand α) : Acc α :=
  match c with
  | none => acc
  | some (L, p) => if gtOpt acc.lmin L then ⟨some L, some p⟩ else acc

/-- `Lmin = path.length() - off` -/
def startLmin (off : Option α) (cur : Option (RSPath α)) : Option α :=
  match cur with
  | none => none
  | some p => some (match off with | none => p.len | some o => p.len - o)

def runFamily (off : Option α) (cands : List (Cand α)) (cur : Option (RSPath α)) : Option (RSPath α) :=
  (cands.foldl consider ⟨startLmin off cur, cur⟩).path

/-- `xb = x*cos(phi) + y*sin(phi)`, `yb = x*sin(phi) - y*cos(phi)` -/
def backX (x y phi : α) : α := x * Num.cos phi + y * Num.sin phi
def backY (x y phi : α) : α := x * Num.sin phi - y * Num.cos phi

def candsCSC (x y phi : α) : List (Cand α) :=
  four LpSpLp key3 bCSC 14 15 x y phi ++ four LpSpRp key3 bCSC 12 13 x y phi

def candsCCC (x y phi : α) : List (Cand α) :=
  four LpRmL key3 bCSC 0 1 x y phi ++ four LpRmL key3 bCCCrev 0 1 (backX x y phi) (backY x y phi) phi

def candsCCCC (x y phi : α) : List (Cand α) :=
  four LpRupLumRm key4 bCCCCa 2 3 x y phi ++ four LpRumLumRp key4 bCCCCb 2 3 x y phi

def candsCCSC (x y phi : α) : List (Cand α) :=
  four LpRmSmLm key3 bCCSC 4 5 x y phi ++ four LpRmSmRm key3 bCCSC 8 9 x y phi ++
  four LpRmSmLm key3 bCCSCrev 6 7 (backX x y phi) (backY x y phi) phi ++
  four LpRmSmRm key3 bCCSCrev 10 11 (backX x y phi) (backY x y phi) phi

def candsCCSCC (x y phi : α) : List (Cand α) :=
  four LpRmSLmRp key3 bCCSCC 16 17 x y phi

/-- `::reedsShepp(x, y, phi)`: CSC, CCC, CCCC, CCSC, CCSCC in this order on one `path` -/
def reedsShepp (x y phi : α) : Option (RSPath α) :=
  let p := runFamily none (candsCSC x y phi) none
  let p := runFamily none (candsCCC x y phi) p
  let p := runFamily none (candsCCCC x y phi) p
  let p := runFamily (some hpi) (candsCCSC x y phi) p
  runFamily (some rpi) (candsCCSCC x y phi) p

/-- `ReedsSheppStateSpace::reedsShepp(state1, state2)` -/
def reedsSheppStates (rho : α) (s1 s2 : Pose α) : Option (RSPath α) :=
  let dx := s2.x - s1.x
  let dy := s2.y - s1.y
  let c := Num.cos s1.th
  let s := Num.sin s1.th
  let x := c * dx + s * dy
  let y := -s * dx + c * dy
  let phi := s2.th - s1.th
  reedsShepp (x / rho) (y / rho) phi

/-- `distance`: `rho_ * reedsShepp(s1, s2).length()` -/
def rsDistance (rho : α) (s1 s2 : Pose α) : Option α :=
  (reedsSheppStates rho s1 s2).map (fun p => rho * p.len)

/-! ## interpolation -/

/-- one segment; `v < 0` is reversing.  The L/S/R formulas are those of the Dubins forward loop. -/
def rsStep (s : RSeg) (v : α) (P : Pose α) : Pose α :=
  match s with
  | .L => stepFwd .L v P
  | .R => stepFwd .R v P
  | .S => stepFwd .S v P
  | .N => P

/-- `for (i = 0; i < 5 && seg > 0; ++i) { if (len[i] < 0) { v = max(-seg, len[i]); seg += v; } else { v = min(seg, len[i]); seg -= v; } … }` -/
def rsInteg : List (RSeg × α) → α → Pose α → Pose α
  | [], _, P => P
  | (s, l) :: rest, seg, P =>
    if 0 < seg then
      if l < 0 then
        let v := Num.max (-seg) l
        rsInteg rest (seg + v) (rsStep s v P)
      else
        let v := Num.min seg l
        rsInteg rest (seg - v) (rsStep s v P)
    else P

/-- the signed truncated word the loop actually drives -/
def rsTruncate : List (RSeg × α) → α → List (RSeg × α)
  | [], _ => []
  | (s, l) :: rest, seg =>
    if 0 < seg then
      if l < 0 then
        let v := Num.max (-seg) l
        (s, v) :: rsTruncate rest (seg + v)
      else
        let v := Num.min seg l
        (s, v) :: rsTruncate rest (seg - v)
    else []

/-- drive every (signed) segment fully -/
def rsIntegFull : List (RSeg × α) → Pose α → Pose α
  | [], P => P
  | (s, l) :: rest, P => rsIntegFull rest (rsStep s l P)

def RSPath.segList (p : RSPath α) : List (RSeg × α) := (rsType p.ty).zip p.lens

/-- `interpolate(from, path, t, state)` -/
def rsInterpPath (rho : α) (frm : Pose α) (p : RSPath α) (t : α) : Pose α :=
  let seg := t * p.len
  let e := rsInteg p.segList seg ⟨0, 0, frm.th⟩
  ⟨e.x * rho + frm.x, e.y * rho + frm.y, so2Enforce e.th⟩

/-- `interpolate(from, to, t, state)` -/
def rsInterpolate (rho : α) (frm to : Pose α) (t : α) : Option (Pose α) :=
  if 1 ≤ t then some to
  else if t ≤ 0 then some frm
  else (reedsSheppStates rho frm to).map (fun p => rsInterpPath rho frm p t)

/-- the caching overload `interpolate(from, to, t, firstTime, path, state)` called repeatedly with the same `firstTime` /
`path` variables (see `Dubins.interpCached`) -/
def rsInterpCached (rho : α) (frm to : Pose α) : Option (RSPath α) → List α → List (Option (Pose α))
  | _, [] => []
  | some P, t :: ts => some (rsInterpPath rho frm P t) :: rsInterpCached rho frm to (some P) ts
  | none, t :: ts =>
    if 1 ≤ t then some to :: rsInterpCached rho frm to none ts
    else if t ≤ 0 then some frm :: rsInterpCached rho frm to none ts
    else
      match reedsSheppStates rho frm to with
      | some P => some (rsInterpPath rho frm P t) :: rsInterpCached rho frm to (some P) ts
      | none => [none]

end
end OmplModel.RS
