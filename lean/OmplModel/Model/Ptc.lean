/-
Model of the planner termination conditions
  src/ompl/base/PlannerTerminationCondition.h, src/ompl/base/src/PlannerTerminationCondition.cpp,
  src/ompl/base/terminationconditions/{Iteration,CostConvergence}TerminationCondition.{h,cpp},
  `Planner::solve(double)` in src/ompl/base/src/Planner.cpp, `time::seconds(double)` in util/Time.h.

Core Lean only (no Mathlib): this file is linked into the native driver `drv_ptc`.

What a C++ object is here
* A `PlannerTerminationCondition` value is a `shared_ptr` to an *impl object*; copies share it.  A
  condition is described by an immutable syntax tree `Cond` whose every node carries the number of
  its impl object.  Everything mutable lives in `St`, keyed by impl number: the `terminate_` flag,
  the poller's cache `evalValue_`, and the `timesCalled_` counter of the
  `IterationTerminationCondition` copy captured inside the lambda.  A copy of a condition is the
  same tree (same impl numbers), so copies share flag, cache and counter, exactly as in C++.
  `or`/`and` capture *copies* of their operands, i.e. the operand trees with their impl numbers.
* The environment (`Env`) holds what the code cannot know: for every scripted predicate the value
  of its k-th invocation, and the value of the k-th reading of the clock (theorems assume the clock
  monotone; `system_clock` is not guaranteed to be - that is an assumption).
* `eval` follows `PlannerTerminationConditionImpl::eval`: `terminate_` first, then (polled form)
  the cache, otherwise the function; `||`/`&&` short-circuit left to right.  Every invocation of a
  leaf function is appended to `St.log` (impl number, result) and counted per scripted predicate.
* The polled form is a two-step model: `poll` is one iteration of `periodicEval` (it calls the
  function and writes the cache unless `terminate_` is set), `eval` only reads the cache.  *When*
  polls happen is the scheduler's business (assumption `σ` in notes/C18.md).
* `CostConvergenceTerminationCondition`: the base object shares the impl of a never-terminating
  condition; the `(averageCost_, solutions_)` pair lives in the copy captured by the callback that
  is stored in the problem definition (`World.cb`); `CC.step` is `processNewSolution` statement by
  statement, generic in the number type (`Float` in the driver, `ℚ` in the proofs).

Abstractions (checked by the correspondence run where reachable, listed in notes/C18.md):
* `timesCalled_` is `unsigned long long` since /repo 354f9f45d (it was `unsigned int`, finding F16):
  the model counts modulo `Env.ctrMod`, which is `counterMod = 2^64` for the code as it is and
  `oldCounterMod = 2^32` for the code before the fix (kept for the `iter_spec_old_fails` witness);
  `maxCalls_` is still an `unsigned int` (`uintMod`).  `solutions_` (`size_t`) is a `Nat` (2^64
  reported solutions are out of reach), but the `(solutions - 1)` factor wraps as `size_t` does when
  the window is 0.
* the problem definition's solution set is reduced to the list of `approximate_` flags; its top
  element (after `std::sort` with `PlannerSolution::operator<`, which ranks every exact solution
  before every approximate one) is approximate iff all are.
* destruction of impl objects has no observable effect in the model (the harness really destroys
  them, under ASan).
-/
namespace OmplModel.Ptc

/-- the function `fn_` of a leaf condition -/
inductive Leaf where
  | pred (id : Nat)        -- user predicate: scripted queue number `id`
  | always                 -- `[] { return true; }`
  | never                  -- `[] { return false; }`
  | iter (max : Nat)       -- `[c]() mutable { return c.eval(); }`, `c` an IterationTerminationCondition
  | timed (endT : Int)     -- `[endTime] { return time::now() > endTime; }`
  | exact                  -- `[pdef] { return pdef->hasExactSolution(); }`
deriving Repr, DecidableEq, Inhabited

/-- a condition: syntax tree, every node tagged with its impl object; `polled` = `period_ > 0`. -/
inductive Cond where
  | leaf (impl : Nat) (polled : Bool) (k : Leaf)
  | or (impl : Nat) (a b : Cond)     -- plannerOrTerminationCondition(a, b)
  | and (impl : Nat) (a b : Cond)    -- plannerAndTerminationCondition(a, b)
deriving Repr, Inhabited

def Cond.impl : Cond → Nat
  | .leaf i _ _ => i
  | .or i _ _ => i
  | .and i _ _ => i

def Cond.polled : Cond → Bool
  | .leaf _ p _ => p
  | _ => false

/-- impl numbers occurring in a tree (the objects a condition keeps alive) -/
def Cond.impls : Cond → List Nat
  | .leaf i _ _ => [i]
  | .or i a b => i :: (a.impls ++ b.impls)
  | .and i a b => i :: (a.impls ++ b.impls)

def upd {β : Type} (f : Nat → β) (i : Nat) (v : β) : Nat → β := fun j => if j = i then v else f j

/-- 2^32, the modulus of `unsigned int` (the type of `maxCalls_`) -/
def uintMod : Nat := 4294967296

/-- 2^64: modulus of `timesCalled_` (`unsigned long long`) in the code as it is -/
def counterMod : Nat := 18446744073709551616

/-- 2^32: modulus of `timesCalled_` before /repo 354f9f45d, when it was an `unsigned int` -/
def oldCounterMod : Nat := 4294967296

structure Env where
  /-- `pred id k`: what the `k`-th invocation (0-based) of scripted predicate `id` returns -/
  pred : Nat → Nat → Bool
  /-- `clock k`: the `k`-th reading of `time::now()` -/
  clock : Nat → Int
  /-- modulus of the iteration counter's type (a parameter, so that the 32-bit behaviour of the code
  before the fix stays expressible: `{ env with ctrMod := oldCounterMod }`) -/
  ctrMod : Nat := counterMod

structure St where
  term : Nat → Bool := fun _ => false      -- `terminate_` per impl
  cache : Nat → Bool := fun _ => false     -- `evalValue_` per impl
  cnt : Nat → Nat := fun _ => 0            -- `timesCalled_` of the copy captured by impl's lambda
  calls : Nat → Nat := fun _ => 0          -- invocations so far, per scripted predicate
  reads : Nat := 0                         -- clock readings so far
  solns : List Bool := []                  -- `approximate_` flags held by the problem definition
  log : List (Nat × Bool) := []            -- leaf-function invocations (impl, result), newest first

/-- `pdef->hasExactSolution()`: `hasSolution() && !hasApproximateSolution()`; the top solution is
approximate iff every stored solution is. -/
def hasExact (solns : List Bool) : Bool := solns.any (fun approx => !approx)

/-- one call of a leaf's `fn_()` -/
def callLeaf (env : Env) (i : Nat) (k : Leaf) (s : St) : Bool × St :=
  match k with
  | .pred id =>
    let r := env.pred id (s.calls id)
    (r, { s with calls := upd s.calls id (s.calls id + 1), log := (i, r) :: s.log })
  | .always => (true, { s with log := (i, true) :: s.log })
  | .never => (false, { s with log := (i, false) :: s.log })
  | .iter max =>
    -- ++timesCalled_; return (timesCalled_ > maxCalls_);
    let c := (s.cnt i + 1) % env.ctrMod
    let r := decide (c > max)
    (r, { s with cnt := upd s.cnt i c, log := (i, r) :: s.log })
  | .timed e =>
    let r := decide (env.clock s.reads > e)
    (r, { s with reads := s.reads + 1, log := (i, r) :: s.log })
  | .exact =>
    let r := hasExact s.solns
    (r, { s with log := (i, r) :: s.log })

/-- `PlannerTerminationCondition::eval()` = `impl_->eval()` -/
def eval (env : Env) : Cond → St → Bool × St
  | .leaf i p k, s =>
    if s.term i then (true, s)
    else if p then (s.cache i, s)
    else callLeaf env i k s
  | .or i a b, s =>
    if s.term i then (true, s)
    else
      let r := eval env a s
      if r.1 then (true, r.2) else eval env b r.2        -- c1() || c2()
  | .and i a b, s =>
    if s.term i then (true, s)
    else
      let r := eval env a s
      if r.1 then eval env b r.2 else (false, r.2)       -- c1() && c2()

/-- `fn_()` of the impl object at the root of `c` (what the poller thread calls) -/
def callFn (env : Env) : Cond → St → Bool × St
  | .leaf i _ k, s => callLeaf env i k s
  | .or _ a b, s =>
    let r := eval env a s
    if r.1 then (true, r.2) else eval env b r.2
  | .and _ a b, s =>
    let r := eval env a s
    if r.1 then eval env b r.2 else (false, r.2)

/-- `terminate()` -/
def terminate (c : Cond) (s : St) : St := { s with term := upd s.term c.impl true }

/-- one iteration of `periodicEval`'s loop: `while (!terminate_ && …) { evalValue_ = fn_(); … }` -/
def poll (env : Env) (c : Cond) (s : St) : St :=
  if s.term c.impl then s
  else
    let r := callFn env c s
    { r.2 with cache := upd r.2.cache c.impl r.1 }

/-- `timedPlannerTerminationCondition(d)` created now: reads the clock once; `d` already converted
to clock ticks.  Returns the condition and the state after the reading. -/
def mkTimed (env : Env) (i : Nat) (polled : Bool) (d : Int) (s : St) : Cond × St :=
  (.leaf i polled (.timed (env.clock s.reads + d)), { s with reads := s.reads + 1 })

/-- `addSolutionPath` / `clearSolutionPaths`, reduced to the approximate flag -/
def addSoln (approx : Bool) (s : St) : St := { s with solns := approx :: s.solns }
def clearSolns (s : St) : St := { s with solns := [] }

/-! ### IterationTerminationCondition as an object of its own (`eval`, `reset`, cast) -/

structure Itc where
  max : Nat
  called : Nat := 0
deriving Repr

/-- `IterationTerminationCondition::eval()`; `m` is the modulus of the counter's type -/
def Itc.eval (m : Nat) (o : Itc) : Bool × Itc :=
  let c := (o.called + 1) % m
  (decide (c > o.max), { o with called := c })

def Itc.reset (o : Itc) : Itc := { o with called := 0 }

/-- `k` calls of the public `eval()` in a row, closed form (`Itc.spin_succ` in Proofs/Ptc) -/
def Itc.spin (m : Nat) (o : Itc) (k : Nat) : Itc := { o with called := (o.called + k) % m }

/-- `operator PlannerTerminationCondition()`: the lambda captures a *copy* of the object, so the new
impl starts from the object's current counter and the object itself no longer moves with it. -/
def Itc.cast (o : Itc) (i : Nat) (polled : Bool) (s : St) : Cond × St :=
  (.leaf i polled (.iter o.max), { s with cnt := upd s.cnt i o.called })

/-! ### numbers: one definition, run at `Float`, proved at `ℚ` -/

class PNum (α : Type) extends Add α, Sub α, Mul α, Div α, LT α where
  ofNat : Nat → α
  /-- the literal `0.1` -/
  tenth : α
  decLt : (a b : α) → Decidable (a < b)

instance {α} [PNum α] (a b : α) : Decidable (a < b) := PNum.decLt a b

instance : PNum Float where
  ofNat := Nat.toFloat
  tenth := 0.1
  decLt := Float.decLt

/-- 2^64, the modulus of `size_t` -/
def sizeMod : Nat := 18446744073709551616

/-- state of the `CostConvergenceTerminationCondition` copy captured by the callback -/
structure CC (α : Type) where
  impl : Nat
  window : Nat
  eps : α
  avg : α
  count : Nat

/-- `processNewSolution(cost)`; the Boolean says whether `terminate()` is called. -/
def CC.step {α} [PNum α] (cc : CC α) (c : α) : CC α × Bool :=
  let count := cc.count + 1                                     -- ++solutions_;
  let m := min count cc.window                                  -- min(solutions_, solutionsWindow_)
  let newCost := (PNum.ofNat ((m + (sizeMod - 1)) % sizeMod) * cc.avg + c) / PNum.ofNat m
  let lo := (PNum.ofNat 1 - cc.eps) * cc.avg
  let hi := (PNum.ofNat 1 + cc.eps) * cc.avg
  ({ cc with avg := newCost, count := count },
   decide (m = cc.window) && (decide (lo < newCost) && decide (newCost < hi)))

/-- `processNewSolution` with the repair proposed for finding F481 (notes/C18-fix-F481.diff): the two thresholds are
swapped when the running average is negative, so that they enclose it again.  Identical to `CC.step` for a
non-negative average.  Used by the driver when the tree under test has the repair (header `neg=1`). -/
def CC.stepSwap {α} [PNum α] (cc : CC α) (c : α) : CC α × Bool :=
  let count := cc.count + 1
  let m := min count cc.window
  let newCost := (PNum.ofNat ((m + (sizeMod - 1)) % sizeMod) * cc.avg + c) / PNum.ofNat m
  let lo0 := (PNum.ofNat 1 - cc.eps) * cc.avg
  let hi0 := (PNum.ofNat 1 + cc.eps) * cc.avg
  let lo := if cc.avg < PNum.ofNat 0 then hi0 else lo0
  let hi := if cc.avg < PNum.ofNat 0 then lo0 else hi0
  ({ cc with avg := newCost, count := count },
   decide (m = cc.window) && (decide (lo < newCost) && decide (newCost < hi)))

/-- the state of the world the conditions live in: impl states + the problem definition's callback -/
structure World (α : Type) where
  st : St := {}
  cb : Option (CC α) := none

/-- constructing a `CostConvergenceTerminationCondition(pdef, window, eps)`: the base shares the
impl `i` of a non-terminating condition; the callback (with fresh average 0 and count 0) replaces
whatever callback the problem definition had. -/
def newCostConv {α} [PNum α] (i window : Nat) (eps : α) (w : World α) : Cond × World α :=
  (.leaf i false .never, { w with cb := some ⟨i, window, eps, PNum.ofNat 0, 0⟩ })

/-- a planner reports an intermediate solution of cost `c` through the callback -/
def reportCost {α} [PNum α] (w : World α) (c : α) : World α :=
  match w.cb with
  | none => w
  | some cc =>
    let r := cc.step c
    { st := if r.2 then { w.st with term := upd w.st.term cc.impl true } else w.st, cb := some r.1 }

/-- `reportCost` for either variant of `processNewSolution` (`swap = false`: the code as it is) -/
def reportCostWith {α} [PNum α] (swap : Bool) (w : World α) (c : α) : World α :=
  match w.cb with
  | none => w
  | some cc =>
    let r := if swap then cc.stepSwap c else cc.step c
    { st := if r.2 then { w.st with term := upd w.st.term cc.impl true } else w.st, cb := some r.1 }

/-! ### every interleaving: the operations that can happen to a world -/

inductive Op (α : Type) where
  | eval (c : Cond)
  | terminate (c : Cond)
  | poll (c : Cond)
  | addSoln (approx : Bool)
  | clearSolns
  | newCostConv (i window : Nat) (eps : α)
  | cost (c : α)

def World.step {α} [PNum α] (env : Env) (w : World α) : Op α → World α
  | .eval c => { w with st := (eval env c w.st).2 }
  | .terminate c => { w with st := terminate c w.st }
  | .poll c => { w with st := poll env c w.st }
  | .addSoln a => { w with st := addSoln a w.st }
  | .clearSolns => { w with st := clearSolns w.st }
  | .newCostConv i win eps => (newCostConv i win eps w).2
  | .cost c => reportCost w c

def World.run {α} [PNum α] (env : Env) (w : World α) (ops : List (Op α)) : World α :=
  ops.foldl (World.step env) w

/-! ### `Planner::solve(double)` and `time::seconds(double)` -/

inductive SolveForm (α : Type) where
  | direct (duration : α)                    -- timedPlannerTerminationCondition(solveTime)
  | polled (duration interval : α)           -- timedPlannerTerminationCondition(solveTime, interval)
deriving Repr

/-- `std::min(a, b)` = `(b < a) ? b : a` -/
def stdMin {α} [PNum α] (a b : α) : α := if b < a then b else a

/-- `Planner::solve(double solveTime)` -/
def solveDouble {α} [PNum α] (t : α) : SolveForm α :=
  if t < PNum.ofNat 1 then .direct t
  else .polled t (stdMin (t / PNum.ofNat 100) PNum.tenth)

/-- `timedPlannerTerminationCondition(duration, interval)`: `if (interval > duration) interval = duration;`
returns the period handed to the impl; the impl polls iff `period > 0`. -/
def timedInterval {α} [PNum α] (duration interval : α) : α :=
  if duration < interval then duration else interval

/-- two's-complement wrap of a 64-bit signed integer (what `imul`/`add` leave on x86-64) -/
def wrap64 (x : Int) : Int := (x + 9223372036854775808) % 18446744073709551616 - 9223372036854775808

/-- `(long)x` as x86-64 `cvttsd2si` computes it: truncation, and `LONG_MIN` for NaN and for values
outside the range (formally undefined behaviour in C++; this is what the library built by g++ 12 does,
and what the correspondence run observes). -/
def toLongX86 (x : Float) : Int :=
  if x.isNaN || 9223372036854775808.0 ≤ x || x < -9223372036854775808.0 then -9223372036854775808
  else x.toInt64.toInt

/-- `time::seconds(sec)` in nanoseconds, **as coded**:
`s = (long)sec; us = (long)((sec - (double)s) * 1000000); return seconds(s) + microseconds(us);`
(the sum is formed in microseconds and converted to the clock's nanoseconds; 64-bit wrap-around for
durations beyond ~292 years - `saturatedSeconds` keeps such durations away from it since f29ac4e4e). -/
def secondsToNs (sec : Float) : Int :=
  let s := toLongX86 sec
  let us := toLongX86 ((sec - Float.ofInt s) * 1000000.0)
  wrap64 (wrap64 (wrap64 (s * 1000000) + us) * 1000)

/-- `saturatedSeconds(duration)` (PlannerTerminationCondition.cpp since /repo f29ac4e4e): the double is
turned into the clock's nanoseconds with `time::seconds`, except that NaN counts as 0 and everything at
or beyond `limit = duration<double>(duration::max()).count() - 1` saturates at `duration::max()` /
`duration::min()`. -/
def secondsToNsSat (sec : Float) : Int :=
  let limit := Float.ofInt 9223372036854775807 / 1000000000.0 - 1.0
  if sec.isNaN then 0
  else if limit ≤ sec then 9223372036854775807
  else if sec ≤ -limit then -9223372036854775808
  else secondsToNs sec

/-- `endTimeAfter(duration)`: `now + duration`, saturating at `time::point::max()` / `min()`.  `base` is the
absolute value of the model's clock origin; the result is again relative to that origin. -/
def endPointSat (base now d : Int) : Int :=
  let a := base + now
  if 0 < d ∧ a > 9223372036854775807 - d then 9223372036854775807 - base
  else if d < 0 ∧ a < -9223372036854775808 - d then -9223372036854775808 - base
  else a + d - base

/-- the timed condition **as coded** (cf. `mkTimed`, the idealisation over unbounded integers):
`d` is the duration in the clock's nanoseconds (`secondsToNsSat sec` for the `double` factories, the
argument itself for the `time::duration` overload). -/
def mkTimedCoded (env : Env) (base : Int) (i : Nat) (polled : Bool) (d : Int) (s : St) : Cond × St :=
  (.leaf i polled (.timed (endPointSat base (env.clock s.reads) d)), { s with reads := s.reads + 1 })

/-- the code **before** f29ac4e4e (finding F195): `time::now() + time::seconds(duration)`, a wrapping
64-bit addition on top of the wrapping conversion `secondsToNs`.  Kept for `timed_overflow_fails` and for
checking a tree that does not have the repair (driver header `sat=0`). -/
def endPointOld (base now d : Int) : Int := wrap64 (base + now + d) - base

def mkTimedOld (env : Env) (base : Int) (i : Nat) (polled : Bool) (d : Int) (s : St) : Cond × St :=
  (.leaf i polled (.timed (endPointOld base (env.clock s.reads) d)), { s with reads := s.reads + 1 })

/-! ### the polled form at thread-step granularity

`poll` above is "call the predicate and store the result" as one atomic step.  The real poller thread
is not atomic: `terminate()` (or an evaluation) from another thread can fall between the call of the
predicate and the store of its result.  This machine has one step per shared-memory action of
`periodicEval` / `eval` / `terminate` (all three shared variables are `std::atomic<bool>` since /repo
d45d95b8f, so steps are sequentially consistent):

    while (!terminate_ && !signalThreadStop_)     -- `check`   (the inner loop's checks are the same test)
    {   evalValue_ = fn_();                        -- `call` (the predicate runs), then `store`
        … sleep …  }

A step that is not enabled at the poller's current position is a no-op, so *every* list of steps is
an interleaving and the poller's program order is kept by `pc`. -/

inductive PPc where
  | check      -- about to test the stop flags
  | call       -- about to call the predicate
  | store      -- the predicate has returned `pending`; about to write the cache
  | done       -- the poller thread has left its loop
deriving Repr, DecidableEq

inductive PStep where
  | check | call | store      -- poller thread
  | terminate | eval          -- any other thread
  | destroy                   -- signalThreadStop_ = true (destructor)
deriving Repr, DecidableEq

/-- which code is modelled: the code as it is, or the variant whose `eval` reads only the cache and
whose `terminate` also writes the cache -/
inductive PVariant where
  | asCoded | cacheOnly
deriving Repr, DecidableEq

structure PState where
  term : Bool := false        -- terminate_
  cache : Bool := false       -- evalValue_
  stop : Bool := false        -- signalThreadStop_
  pc : PPc := .check
  pending : Bool := false     -- what the in-flight predicate call returned
  calls : Nat := 0            -- predicate invocations so far
  req : Bool := false         -- ghost: terminate() has been requested
  results : List (Bool × Bool) := []   -- per evaluation, newest first: (req at that moment, answer)
deriving Repr

/-- `eval()` of the polled form -/
def PState.evalNow (v : PVariant) (s : PState) : Bool :=
  match v with
  | .asCoded => s.term || s.cache        -- if (terminate_) return true; return evalValue_;
  | .cacheOnly => s.cache

def PState.step (v : PVariant) (pred : Nat → Bool) (s : PState) : PStep → PState
  | .check => if s.pc = .check then { s with pc := if s.term || s.stop then .done else .call } else s
  | .call => if s.pc = .call then { s with pending := pred s.calls, calls := s.calls + 1, pc := .store } else s
  | .store => if s.pc = .store then { s with cache := s.pending, pc := .check } else s
  | .terminate =>
    match v with
    | .asCoded => { s with term := true, req := true }
    | .cacheOnly => { s with term := true, cache := true, req := true }
  | .eval => { s with results := (s.req, s.evalNow v) :: s.results }
  | .destroy => { s with stop := true }

def PState.run (v : PVariant) (pred : Nat → Bool) (s : PState) (steps : List PStep) : PState :=
  steps.foldl (PState.step v pred) s

/-! ### the poller's sleep schedule (`periodicEval`, the part around `evalValue_ = fn_()`)

    unsigned int count = 1;
    time::duration s = time::seconds(period_);
    if (period_ > 0.001) { count = 0.5 + period_ / 0.001;  s = time::seconds(period_ / (double)count); }
    while (!terminate_ && !signalThreadStop_)
    {   evalValue_ = fn_();
        for (unsigned int i = 0; i < count; ++i)
        {   if (terminate_ || signalThreadStop_) break;
            std::this_thread::sleep_for(s);  }  }

`napPlan` is the first three lines, one definition run at `Float` by the driver (the harness interposes
`nanosleep` and reports how many sleeps of which length the poller thread made between two invocations of
its predicate) and proved about at `ℚ` (Proofs/PtcNapQ.lean).  `TState` is the loop with one step per
action of the poller thread and a virtual clock that only the poller's sleeps advance. -/

/-- numbers with the two conversions `periodicEval` and `time::seconds` use -/
class PTrunc (α : Type) extends PNum α where
  /-- `(long)x` -/
  trunc : α → Int
  /-- `(double)n` -/
  ofInt : Int → α

instance : PTrunc Float where
  trunc := toLongX86
  ofInt := Float.ofInt

/-- `time::seconds(sec)` in the clock's nanoseconds, for a duration well inside the clock's range (no 64-bit
wrap: the durations `periodicEval` converts are at most the period; cf. `secondsToNs`, which has the wraps
and is what the driver cross-checks this against at `Float`):
`s = (long)sec; us = (long)((sec - (double)s) * 1000000); return seconds(s) + microseconds(us);` -/
def secondsNs {α} [PTrunc α] (sec : α) : Int :=
  let s := PTrunc.trunc sec
  let us := PTrunc.trunc ((sec - PTrunc.ofInt s) * PNum.ofNat 1000000)
  (s * 1000000 + us) * 1000

/-- what the poller does between two calls of the predicate: `count` sleeps of `nap` nanoseconds each -/
structure NapPlan where
  count : Nat
  nap : Int
deriving Repr, DecidableEq

/-- the literal `0.001` (`1.0 / 1000.0` is correctly rounded, hence the same double as the literal) -/
def milli {α} [PNum α] : α := PNum.ofNat 1 / PNum.ofNat 1000

/-- the literal `0.5` -/
def half {α} [PNum α] : α := PNum.ofNat 1 / PNum.ofNat 2

/-- `count` and `s` of `periodicEval`, for a period the thread is started with (`period_ > 0`).  The
`double → unsigned int` conversion keeps the low 32 bits of the 64-bit truncation (x86-64; it is only
defined by the language below 2^32, i.e. for periods below 49 days). -/
def napPlan {α} [PTrunc α] (period : α) : NapPlan :=
  if (milli : α) < period then
    let count := ((PTrunc.trunc ((half : α) + period / milli)) % 4294967296).toNat
    ⟨count, secondsNs (period / PNum.ofNat count)⟩
  else ⟨1, secondsNs period⟩

inductive TPc where
  | outer                -- about to test `!terminate_ && !signalThreadStop_`
  | call                 -- about to call the predicate
  | store                -- the predicate has returned `pending`; about to write the cache
  | inner (i : Nat)      -- about to test `i < count`, then the stop flags
  | nap (i : Nat)        -- about to `sleep_for(s)`
  | done                 -- the thread has left `periodicEval`
deriving Repr, DecidableEq

inductive TStep where
  | poller               -- the poller thread performs its next action
  | terminate | destroy  -- `terminate()`, `signalThreadStop_ = true` from another thread
  | eval                 -- an evaluation from another thread
deriving Repr, DecidableEq

structure TState where
  term : Bool := false
  stop : Bool := false
  cache : Bool := false
  pending : Bool := false
  pc : TPc := .outer
  now : Nat := 0              -- virtual time (ns): the sum of the poller's sleeps
  lastCall : Nat := 0         -- time of the most recent call of the predicate
  cacheAt : Option Nat := none   -- ghost: time of the call whose result is in the cache
  calls : Nat := 0
  naps : Nat := 0             -- `nanosleep` calls since the most recent call of the predicate
  lastGap : Nat := 0          -- `nanosleep` calls between the two most recent calls of the predicate
  req : Bool := false         -- ghost: terminate() or destruction has been requested
  napsAfterReq : Nat := 0     -- ghost: sleeps started after the request
  callsAfterReq : Nat := 0    -- ghost: predicate calls started after the request
  results : List (Nat × Bool) := []   -- evaluations, newest first: (time, answer)
deriving Repr

/-- `pred t`: what the predicate answers when called at time `t`.  `nap = 0` is `sleep_for` of a non-positive
duration: it returns at once without calling `nanosleep`. -/
def TState.step (count nap : Nat) (pred : Nat → Bool) (s : TState) : TStep → TState
  | .poller =>
    match s.pc with
    | .outer => { s with pc := if s.term || s.stop then .done else .call }
    | .call => { s with pending := pred s.now, lastCall := s.now, calls := s.calls + 1, lastGap := s.naps, naps := 0,
                        callsAfterReq := if s.req then s.callsAfterReq + 1 else s.callsAfterReq, pc := .store }
    | .store => { s with cache := s.pending, cacheAt := some s.lastCall, pc := .inner 0 }
    | .inner i =>
      if i < count then
        if s.term || s.stop then { s with pc := .outer } else { s with pc := .nap i }
      else { s with pc := .outer }
    | .nap i => { s with now := s.now + nap, naps := if 0 < nap then s.naps + 1 else s.naps,
                         napsAfterReq := if s.req then s.napsAfterReq + 1 else s.napsAfterReq, pc := .inner (i + 1) }
    | .done => s
  | .terminate => { s with term := true, req := true }
  | .destroy => { s with stop := true, req := true }
  | .eval => { s with results := (s.now, s.term || s.cache) :: s.results }

def TState.run (count nap : Nat) (pred : Nat → Bool) (s : TState) (steps : List TStep) : TState :=
  steps.foldl (TState.step count nap pred) s

/-- the poller runs alone until it is inside its `k`-th call of the predicate (what the harness's gate holds
it at); `fuel` bounds the number of steps -/
def TState.untilCall (count nap : Nat) (pred : Nat → Bool) (k : Nat) : Nat → TState → TState
  | 0, s => s
  | fuel + 1, s =>
    if s.calls = k ∧ s.pc = .store then s
    else if s.pc = .done then s
    else TState.untilCall count nap pred k fuel (s.step count nap pred .poller)

/-- the poller runs alone until it has left its loop -/
def TState.untilDone (count nap : Nat) (pred : Nat → Bool) : Nat → TState → TState
  | 0, s => s
  | fuel + 1, s => if s.pc = .done then s else TState.untilDone count nap pred fuel (s.step count nap pred .poller)

end OmplModel.Ptc
