/-
Models of the nearest-neighbour structures of src/ompl/datastructures:
`NearestNeighborsLinear.h`, `NearestNeighborsSqrtApprox.h`, `NearestNeighborsGNAT.h`
(and `NearestNeighborsGNATNoThreadSafety.h`, which differs only in scratch-space handling and in
the child permutation), `GreedyKCenters.h`.

Core Lean only (no Mathlib): linked into the native driver `drv_nn`.

Everything is generic in the element type `α` and the distance type `D`; the operations on `D`
are core classes (`Add Sub LE LT` + decidability), so the same definitions run at `Int` in the
driver and are reasoned about over any linearly ordered additive group in `Proofs/NN*.lean`.

Abstractions (each is either compared on every run or named in notes/C10.md):
* element identity: the C++ code identifies stored elements by address (`removed_` is a set of
  `const _T*`); the model gives every stored copy an id (`Elem.id`) and `removed` is a list of ids.
  The model therefore does **not** have the address-invalidation behaviour of `std::vector`
  reallocation (finding F16 in notes/C10.md); the harness reports stale addresses separately.
* `std::sort`/`std::partial_sort` (unstable) are modelled by the stable `List.mergeSort`; answers
  are compared as distance lists only.
* `±infinity` initial radii / ranges are `none : Option (D × D)` (the code always updates the
  minimum and the maximum together, so either both are infinite or both finite).
* the two `std::priority_queue`s are sorted lists; the order among equal keys is unspecified in
  C++ and fixed (FIFO) here.
* the outer query loops run on fuel = number of nodes of the tree (every node is queued at most
  once); running out of fuel with a non-empty queue is reported, never hidden — and proved
  impossible for every child order that is a permutation (`searchInternal_not_exhausted`).
* `Node::nearestK`/`nearestKInternal` and `Node::nearestR`/`nearestRInternal` are the same traversal
  twice in the C++; the model has it once, parameterised by `Coll` (see there).
The tree-building operations are in `Model/NNGnatOps.lean`.
-/
namespace OmplModel.NN

/-! ## brute-force specification -/

section Spec
variable {α D : Type}

/-- sort key used everywhere: non-decreasing distance to the query. -/
def leBy [LE D] [DecidableLE D] (f : α → D) (a b : α) : Bool := decide (f a ≤ f b)

/-- exhaustive search: all elements sorted by distance, first `k`. -/
def bruteK [LE D] [DecidableLE D] (f : α → D) (k : Nat) (live : List α) : List α :=
  (live.mergeSort (leBy f)).take k

/-- exhaustive search: the elements within `r`, sorted by distance. -/
def bruteR [LE D] [DecidableLE D] (f : α → D) (r : D) (live : List α) : List α :=
  (live.filter (fun x => decide (f x ≤ r))).mergeSort (leBy f)

end Spec

/-! ## NearestNeighborsLinear -/

section Linear
variable {α D : Type}

/-- `remove`: scan from the back, erase the first (i.e. last-stored) equal element. -/
def removeLast [BEq α] (x : α) : List α → Option (List α)
  | [] => none
  | y :: ys =>
    match removeLast x ys with
    | some ys' => some (y :: ys')
    | none => if y == x then some ys else none

/-- one step of the first-minimum scan: `if (pos == sz || dmin > distance)`. -/
def scanStep [LT D] [DecidableLT D] (best : Option (α × D)) (x : α) (d : D) : Option (α × D) :=
  match best with
  | none => some (x, d)
  | some (b, dmin) => if dmin > d then some (x, d) else some (b, dmin)

/-- `NearestNeighborsLinear::nearest` (`distFun_(data_[i], data)`); `none` = the exception. -/
def linNearest [LT D] [DecidableLT D] (dist : α → α → D) (q : α) (data : List α) : Option (α × D) :=
  data.foldl (fun best x => scanStep best x (dist x q)) none

/-- `nearestK`: copy, (partial-)sort by `ElemSort`, keep `k`. -/
def linNearestK [LE D] [DecidableLE D] (dist : α → α → D) (q : α) (k : Nat) (data : List α) : List α :=
  bruteK (fun x => dist x q) k data

/-- `nearestR`: filter `distFun_(d, data) <= radius`, sort. -/
def linNearestR [LE D] [DecidableLE D] (dist : α → α → D) (q : α) (r : D) (data : List α) : List α :=
  bruteR (fun x => dist x q) r data

/-- the mutating operations of the `NearestNeighbors` API -/
inductive Op (α : Type) where
  | add (x : α)
  | addv (xs : List α)
  | remove (x : α)
  | clear

def linStep [BEq α] (data : List α) : Op α → List α
  | .add x => data ++ [x]
  | .addv xs => data ++ xs
  | .remove x => (removeLast x data).getD data
  | .clear => []

def linRun [BEq α] (ops : List (Op α)) : List α := ops.foldl linStep []

/-- abstract multiset (a list up to permutation) the structure should hold. -/
def specStep [BEq α] (m : List α) : Op α → List α
  | .add x => x :: m
  | .addv xs => xs ++ m
  | .remove x => m.erase x
  | .clear => []

def specRun [BEq α] (ops : List (Op α)) : List α := ops.foldl specStep []

end Linear

/-! ## NearestNeighborsSqrtApprox -/

section Sqrt
variable {α D : Type}

structure Sqrt (α : Type) where
  data : List α := []
  checks : Nat := 0
  offset : Nat := 0

/-- `checks_ = 1 + (size_t)floor(sqrt((double)n))`, computed as the code does (in `double`). -/
def checkCount (n : Nat) : Nat := 1 + (Float.floor (Float.sqrt n.toFloat)).toUInt64.toNat

def Sqrt.step [BEq α] (s : Sqrt α) : Op α → Sqrt α
  | .add x => { s with data := s.data ++ [x], checks := checkCount (s.data.length + 1) }
  | .addv xs => { s with data := s.data ++ xs, checks := checkCount (s.data ++ xs).length }
  | .remove x =>
    match removeLast x s.data with
    | some d => { s with data := d, checks := checkCount d.length }
    | none => s
  | .clear => { data := [], checks := 0, offset := 0 }

def Sqrt.run [BEq α] (ops : List (Op α)) : Sqrt α := ops.foldl Sqrt.step {}

/-- the probe loop: `i = (j * checks_ + offset_) % n` for `j = 0 .. checks_-1`, first minimum. -/
def sqrtProbe [LT D] [DecidableLT D] (dist : α → α → D) (q : α) (s : Sqrt α) : Option (α × D) :=
  (List.range s.checks).foldl
    (fun best j =>
      match s.data[(j * s.checks + s.offset) % s.data.length]? with
      | some x => scanStep best x (dist x q)
      | none => best)
    none

/-- `NearestNeighborsSqrtApprox::nearest`: result (`none` = exception) and the new `offset_`. -/
def Sqrt.nearest [LT D] [DecidableLT D] (dist : α → α → D) (q : α) (s : Sqrt α) : Option (α × D) × Sqrt α :=
  if s.checks > 0 ∧ s.data.length > 0 then
    (sqrtProbe dist q s, { s with offset := (s.offset + 1) % s.checks })
  else (none, s)

end Sqrt

/-! ## GNAT -/

section Gnat

/-- one stored copy of an element; `id` plays the role of its address. -/
structure Elem (α : Type) where
  id : Nat
  val : α
deriving Repr

/-- `(min, max)`; `none` = `(+inf, -inf)`. -/
abbrev Range (D : Type) := Option (D × D)

/-- `NearestNeighborsGNAT::Node`.  `ranges[i] = (minRange_[i], maxRange_[i])`, `rad = (minRadius_, maxRadius_)`. -/
inductive Node (α D : Type) where
  | mk (pivot : Elem α) (degree : Nat) (rad : Range D) (ranges : List (Range D))
       (data : List (Elem α)) (children : List (Node α D))

variable {α D : Type}

def Node.pivot : Node α D → Elem α | .mk p _ _ _ _ _ => p
def Node.degree : Node α D → Nat | .mk _ d _ _ _ _ => d
def Node.rad : Node α D → Range D | .mk _ _ r _ _ _ => r
def Node.ranges : Node α D → List (Range D) | .mk _ _ _ r _ _ => r
def Node.data : Node α D → List (Elem α) | .mk _ _ _ _ d _ => d
def Node.children : Node α D → List (Node α D) | .mk _ _ _ _ _ c => c

mutual
/-- every stored copy of the subtree (removed ones included), in `list()` order. -/
def Node.elems : Node α D → List (Elem α)
  | .mk p _ _ _ data ch => p :: (data ++ elemsL ch)
def elemsL : List (Node α D) → List (Elem α)
  | [] => []
  | c :: cs => c.elems ++ elemsL cs
end

mutual
def Node.count : Node α D → Nat
  | .mk _ _ _ _ _ ch => 1 + countL ch
def countL : List (Node α D) → Nat
  | [] => 0
  | c :: cs => c.count + countL cs
end

/-- `updateRadius` / `updateRange`. -/
def Range.update [LT D] [DecidableLT D] (r : Range D) (d : D) : Range D :=
  match r with
  | none => some (d, d)
  | some (lo, hi) => some (if lo > d then d else lo, if hi < d then d else hi)

def isRemoved (removed : List Nat) (e : Elem α) : Bool := removed.contains e.id

/-- `Node::list` filtered by `isRemoved`; the values in the order `list()` returns them. -/
def liveOf (removed : List Nat) (es : List (Elem α)) : List (Elem α) :=
  es.filter (fun e => !isRemoved removed e)

/-! ### the pruning tests, as coded -/

section Prune
variable [Add D] [Sub D] [LE D] [LT D] [DecidableLE D] [DecidableLT D]

/-- sibling pruning in `Node::nearestK/nearestR`:
`distToPivot - dist > maxRange[j] || distToPivot + dist < minRange[j]`. -/
def outside (x dist : D) : Range D → Bool
  | none => true
  | some (lo, hi) => decide (x - dist > hi) || decide (x + dist < lo)

/-- enqueue test: `distToPivot - dist <= maxRadius && distToPivot + dist >= minRadius`. -/
def inside (x dist : D) : Range D → Bool
  | none => false
  | some (lo, hi) => decide (x - dist ≤ hi) && decide (x + dist ≥ lo)

/-- dequeue test in `nearestKInternal/nearestRInternal`:
`d > maxRadius + dist || d < minRadius - dist`. -/
def outsideQ (x dist : D) : Range D → Bool
  | none => true
  | some (lo, hi) => decide (x > hi + dist) || decide (x < lo - dist)

end Prune

/-! ### the two priority queues -/

/-- `NearQueue` (max-heap on distance): a list in non-increasing distance order, head = `top()`. -/
abbrev Nbh (α D : Type) := List (D × Elem α)

def nbhPush [LT D] [DecidableLT D] (e : D × Elem α) : Nbh α D → Nbh α D
  | [] => [e]
  | h :: t => if h.1 < e.1 then e :: h :: t else h :: nbhPush e t

/-- `insertNeighborK`.  `eps` stands for `numeric_limits<double>::epsilon()`. -/
def insertK [BEq α] [LT D] [DecidableLT D] (k : Nat) (eps : D) (key : α) (nbh : Nbh α D) (e : Elem α) (d : D) :
    Nbh α D × Bool :=
  if nbh.length < k then (nbhPush (d, e) nbh, true)
  else
    match nbh with
    | [] => (nbh, false)
    | top :: rest =>
      if d < top.1 || (decide (d < eps) && e.val == key) then (nbhPush (d, e) rest, true) else (nbh, false)

/-- `insertNeighborR`. -/
def insertR [LE D] [DecidableLE D] [LT D] [DecidableLT D] (r : D) (nbh : Nbh α D) (e : Elem α) (d : D) : Nbh α D :=
  if d ≤ r then nbhPush (d, e) nbh else nbh

/-- key of the node queue: `distToPivot - maxRadius_` (`none` = `+inf`). -/
def qKey [Sub D] (d : D) (n : Node α D) : Option D :=
  match n.rad with
  | none => none
  | some (_, hi) => some (d - hi)

def keyLt [LT D] [DecidableLT D] : Option D → Option D → Bool
  | some a, some b => decide (a < b)
  | some _, none => true
  | none, _ => false

/-- `NodeQueue` (min-heap on `qKey`): sorted list, FIFO among equal keys. -/
abbrev NodeQ (α D : Type) := List (D × Node α D)

def qPush [Sub D] [LT D] [DecidableLT D] (e : D × Node α D) : NodeQ α D → NodeQ α D
  | [] => [e]
  | h :: t => if keyLt (qKey e.1 e.2) (qKey h.1 h.2) then e :: h :: t else h :: qPush e t

/-! ### one node visit -/

/-- `permutation[i]` together with `distToPivot[permutation[i]]`. -/
inductive PEntry (D : Type) where
  | pruned                       -- `-1`
  | pending (c : Nat)            -- not yet visited
  | visited (c : Nat) (d : D)    -- visited, distance to that child's pivot
deriving Repr

def PEntry.child? : PEntry D → Option Nat
  | .pruned => none
  | .pending c => some c
  | .visited c _ => some c

/-- the rotating permutation of `NearestNeighborsGNAT`: `permutation[i] = (i + offset) % sz`. -/
def rotation (sz offset : Nat) : List Nat := (List.range sz).map (fun i => (i + offset) % sz)

/-- the child order of the two variants as a function of `children_.size()` and `offset_`:
the rotation of `NearestNeighborsGNAT`, the identity for the `Permutation` shuffle of the
NoThreadSafety variant.  The traversal below takes *any* such function. -/
def childOrder (rotate : Bool) (sz offset : Nat) : List Nat :=
  if rotate then rotation sz offset else List.range sz

/-- `Node::nearestK`/`nearestKInternal` and `Node::nearestR`/`nearestRInternal` are two copies of the
same traversal that differ in exactly three places (marked "note the difference" in the C++):
how an element is offered to the answer queue, which `dist` the two pruning tests use, and the
enqueue test.  The model has the traversal once, parameterised by these three. -/
structure Coll (α D : Type) where
  /-- `insertNeighborK` / `insertNeighborR`: the new answer queue and "was inserted". -/
  offer : Nbh α D → Elem α → D → Nbh α D × Bool
  /-- the `dist` of the sibling-pruning loop and of the dequeue test; `none` = the test is not
  made (`nbh.size() != k`). -/
  bound : Nbh α D → Option D
  /-- the enqueue test, given `distToPivot[p]` and `(minRadius_, maxRadius_)` of the child. -/
  keep : Nbh α D → D → Range D → Bool

section Visit
variable [Add D] [Sub D] [LE D] [LT D] [DecidableLE D] [DecidableLT D]

/-- k-nearest: `insertNeighborK`; `dist = nbh.top().first` guarded by `nbh.size() == k`;
`nbh.size() < k || (distToPivot - dist <= maxRadius && distToPivot + dist >= minRadius)`. -/
def collK [BEq α] (k : Nat) (eps : D) (q : α) : Coll α D where
  offer := insertK k eps q
  bound nbh :=
    if nbh.length = k then
      match nbh with
      | top :: _ => some top.1
      | [] => none
    else none
  keep nbh d rad :=
    decide (nbh.length < k) ||
      (match nbh with
       | top :: _ => inside d top.1 rad
       | [] => false)

/-- radius: `insertNeighborR`; `dist = r` always. -/
def collR (r : D) : Coll α D where
  offer nbh e d := (insertR r nbh e d, false)
  bound _ := some r
  keep _ d rad := inside d r rad

/-- one entry of the inner `for j` loop (`permutation[j] = -1` when the range of that sibling, as
seen from the visited child whose pivot is at distance `x`, lies outside the ball of radius `dist`). -/
def pruneEntry (ranges : List (Range D)) (x dist : D) (i j : Nat) (e : PEntry D) : PEntry D :=
  if j = i then e
  else
    match e.child? with
    | none => e
    | some c =>
      match ranges[c]? with
      | some rg => if outside x dist rg then .pruned else e
      | none => e

/-- the inner `for j` loop. -/
def pruneOthers (ranges : List (Range D)) (x dist : D) (i : Nat) (perm : Array (PEntry D)) : Array (PEntry D) :=
  perm.mapIdx (pruneEntry ranges x dist i)

omit [LE D] [DecidableLE D] in
@[simp] theorem size_pruneOthers (ranges : List (Range D)) (x dist : D) (i : Nat) (perm : Array (PEntry D)) :
    (pruneOthers ranges x dist i perm).size = perm.size := by
  simp [pruneOthers]

/-- the pruning step after visiting entry `i` (`b = none`: `nbh.size() != k`, no pruning). -/
def pruneStep (ranges : List (Range D)) (d : D) (b : Option D) (i : Nat) (perm : Array (PEntry D)) :
    Array (PEntry D) :=
  match b with
  | some dist => pruneOthers ranges d dist i perm
  | none => perm

omit [LE D] [DecidableLE D] in
@[simp] theorem size_pruneStep (ranges : List (Range D)) (d : D) (b : Option D) (i : Nat)
    (perm : Array (PEntry D)) : (pruneStep ranges d b i perm).size = perm.size := by
  unfold pruneStep
  split <;> simp

/-- leaf part of `Node::nearestK/R`: the non-removed `data_` elements are offered
(`isPivot = false` when one is inserted). -/
def scanData (C : Coll α D) (dist : α → α → D) (removed : List Nat) (q : α) :
    List (Elem α) → Nbh α D × Bool → Nbh α D × Bool
  | [], st => st
  | e :: es, (nbh, isPivot) =>
    if isRemoved removed e then scanData C dist removed q es (nbh, isPivot)
    else
      let r := C.offer nbh e (dist q e.val)
      scanData C dist removed q es (r.1, if r.2 then false else isPivot)

/-- first loop over the children of `Node::nearestK/R`. -/
def visitChildren (C : Coll α D) (dist : α → α → D) (q : α) (children : List (Node α D)) (i : Nat)
    (nbh : Nbh α D) (isPivot : Bool) (perm : Array (PEntry D)) : Nbh α D × Bool × Array (PEntry D) :=
  if h : i < perm.size then
    match perm[i] with
    | .pending c =>
      match children[c]? with
      | some child =>
        let d := dist q child.pivot.val
        let r := C.offer nbh child.pivot d
        visitChildren C dist q children (i + 1) r.1 (if r.2 then true else isPivot)
          (pruneStep child.ranges d (C.bound r.1) i (perm.set i (.visited c d)))
      | none => visitChildren C dist q children (i + 1) nbh isPivot perm
    | _ => visitChildren C dist q children (i + 1) nbh isPivot perm
  else (nbh, isPivot, perm)
termination_by perm.size - i
decreasing_by all_goals first | omega | (simp only [size_pruneStep, Array.size_set]; omega)

/-- second loop: enqueue the surviving children. -/
def enqueue (C : Coll α D) (children : List (Node α D)) (nbh : Nbh α D) :
    List (PEntry D) → NodeQ α D → NodeQ α D
  | [], qu => qu
  | .visited c d :: rest, qu =>
    match children[c]? with
    | some child => enqueue C children nbh rest (if C.keep nbh d child.rad then qPush (d, child) qu else qu)
    | none => enqueue C children nbh rest qu
  | _ :: rest, qu => enqueue C children nbh rest qu

/-- `Node::nearestK` / `Node::nearestR`.  `order` is the child permutation (an input: rotating
offset in one variant, a random shuffle in the other). -/
def Node.visit (C : Coll α D) (dist : α → α → D) (removed : List Nat) (q : α) (order : List Nat)
    (n : Node α D) (nbh : Nbh α D) (isPivot : Bool) (qu : NodeQ α D) : Nbh α D × Bool × NodeQ α D :=
  let s1 := scanData C dist removed q n.data (nbh, isPivot)
  if n.children.isEmpty then (s1.1, s1.2, qu)
  else
    let perm0 : Array (PEntry D) := (order.map PEntry.pending).toArray
    let s2 := visitChildren C dist q n.children 0 s1.1 s1.2 perm0
    (s2.1, s2.2.1, enqueue C n.children s2.1 s2.2.2.toList qu)

structure QState (α D : Type) where
  nbh : Nbh α D
  isPivot : Bool
  offset : Nat
  exhausted : Bool := false

/-- the `while (!nodeQueue.empty())` loop of `nearestKInternal` / `nearestRInternal`.
`ord sz offset` is the child order used by a node with `sz` children when `offset_ = offset`. -/
def loop (C : Coll α D) (dist : α → α → D) (removed : List Nat) (q : α) (ord : Nat → Nat → List Nat) :
    Nat → NodeQ α D → QState α D → QState α D
  | _, [], st => st
  | 0, _ :: _, st => { st with exhausted := true }
  | fuel + 1, (d, node) :: rest, st =>
    let skip :=
      match C.bound st.nbh with
      | some dist => outsideQ d dist node.rad
      | none => false
    if skip then loop C dist removed q ord fuel rest st
    else
      let sz := node.children.length
      let r := node.visit C dist removed q (ord sz st.offset) st.nbh st.isPivot rest
      loop C dist removed q ord fuel r.2.2
        { st with nbh := r.1, isPivot := r.2.1, offset := if sz = 0 then st.offset else st.offset + 1 }

/-- `nearestKInternal` / `nearestRInternal`: the root pivot is offered first, then the root is
visited unconditionally, then the queue is drained. -/
def searchInternal (C : Coll α D) (dist : α → α → D) (removed : List Nat) (q : α) (ord : Nat → Nat → List Nat)
    (offset : Nat) (tree : Node α D) : QState α D :=
  let r0 := C.offer [] tree.pivot (dist q tree.pivot.val)
  let sz := tree.children.length
  let r := tree.visit C dist removed q (ord sz offset) r0.1 r0.2 []
  loop C dist removed q ord tree.count r.2.2
    { nbh := r.1, isPivot := r.2.1, offset := if sz = 0 then offset else offset + 1 }

/-- `nearestKInternal`. -/
def nearestKInternal [BEq α] (dist : α → α → D) (removed : List Nat) (q : α) (k : Nat) (eps : D)
    (ord : Nat → Nat → List Nat) (offset : Nat) (tree : Node α D) : QState α D :=
  searchInternal (collK k eps q) dist removed q ord offset tree

/-- `nearestRInternal`. -/
def nearestRInternal (dist : α → α → D) (removed : List Nat) (q : α) (r : D)
    (ord : Nat → Nat → List Nat) (offset : Nat) (tree : Node α D) : QState α D :=
  searchInternal (collR r) dist removed q ord offset tree

end Visit

/-! ### the whole structure -/

structure Params where
  degree : Nat
  minDegree : Nat       -- already `min(degree, minDegree)`
  maxDegree : Nat       -- already `max(maxDegree, degree)`
  leaf : Nat
  cache : Nat
  rebalancing : Bool
deriving Repr

structure Gnat (α D : Type) where
  params : Params
  tree : Option (Node α D) := none
  size : Nat := 0
  /-- `none` = `numeric_limits<size_t>::max()` -/
  rebuildSize : Option Nat := none
  removed : List Nat := []
  offset : Nat := 0
  nextId : Nat := 0

/-- the constructor as coded since /repo 77efe5ce5 (repair of F400): `degree_ = max(degree, 1)`,
`minDegree_ = max(min(degree, minDegree), 1)`, `maxDegree_ = max(max(maxDegree, degree), 1)`,
`rebuildSize_ = rebalancing ? maxNumPtsPerLeaf * max(degree, 1) : max`. -/
def Gnat.init (degree minDegree maxDegree leaf cache : Nat) (rebalancing : Bool) : Gnat α D :=
  { params := ⟨max degree 1, max (min degree minDegree) 1, max (max maxDegree degree) 1, leaf, cache, rebalancing⟩,
    rebuildSize := if rebalancing then some (leaf * max degree 1) else none }

/-- the constructor as it was before 77efe5ce5 (no clamping: `degree = 0` / `minDegree = 0` accepted, finding F400);
the check selects it (`ctor=old`) when the tree under test does not contain the repair. -/
def Gnat.initOld (degree minDegree maxDegree leaf cache : Nat) (rebalancing : Bool) : Gnat α D :=
  { params := ⟨degree, min degree minDegree, max maxDegree degree, leaf, cache, rebalancing⟩,
    rebuildSize := if rebalancing then some (leaf * degree) else none }

/-- `postprocessNearest`: pop the max-heap into the vector back to front. -/
def postprocess (nbh : Nbh α D) : List (D × Elem α) := nbh.reverse

section Query
variable [BEq α] [Add D] [Sub D] [LE D] [LT D] [DecidableLE D] [DecidableLT D]

/-- `nearestK` (public): `(answer with distances, new offset_, fuel exhausted?)`.
`ord` is the child order (`childOrder true` / `childOrder false` for the two variants). -/
def Gnat.nearestK (dist : α → α → D) (eps : D) (ord : Nat → Nat → List Nat) (g : Gnat α D) (q : α) (k : Nat) :
    List (D × Elem α) × Nat × Bool :=
  if k = 0 then ([], g.offset, false)
  else if g.size = 0 then ([], g.offset, false)
  else
    match g.tree with
    | none => ([], g.offset, false)
    | some t =>
      let st := nearestKInternal dist g.removed q k eps ord g.offset t
      (postprocess st.nbh, st.offset, st.exhausted)

/-- `nearestR` (public). -/
def Gnat.nearestR (dist : α → α → D) (ord : Nat → Nat → List Nat) (g : Gnat α D) (q : α) (r : D) :
    List (D × Elem α) × Nat × Bool :=
  if g.size = 0 then ([], g.offset, false)
  else
    match g.tree with
    | none => ([], g.offset, false)
    | some t =>
      let st := nearestRInternal dist g.removed q r ord g.offset t
      (postprocess st.nbh, st.offset, st.exhausted)

/-- `nearest` (public): `none` = the exception. -/
def Gnat.nearest (dist : α → α → D) (eps : D) (ord : Nat → Nat → List Nat) (g : Gnat α D) (q : α) :
    Option (D × Elem α) × Nat × Bool :=
  if g.size = 0 then (none, g.offset, false)
  else
    match g.tree with
    | none => (none, g.offset, false)
    | some t =>
      let st := nearestKInternal dist g.removed q 1 eps ord g.offset t
      (st.nbh.head?, st.offset, st.exhausted)

end Query

/-- `list` (public). -/
def Gnat.list (g : Gnat α D) : List (Elem α) :=
  match g.tree with
  | none => []
  | some t => liveOf g.removed t.elems

/-! ### the invariant, executable (it is evaluated on every dump of the real tree, and it is the
hypothesis of the pruning theorems) -/

section Inv
variable [LE D] [DecidableLE D]

/-- `lo ≤ d ≤ hi` -/
def Range.has (r : Range D) (d : D) : Bool :=
  match r with
  | none => false
  | some (lo, hi) => decide (lo ≤ d) && decide (d ≤ hi)

/-- what the children of one internal node must satisfy: for every child `ci` (pivot `p`),
* `ci.rad` bounds `dist x p` for every stored copy `x` below `ci` other than its pivot,
* `ci.ranges[j]` bounds `dist x p` for every stored copy `x` of child `j`'s subtree (pivot included). -/
def localInv (dist : α → α → D) (children : List (Node α D)) : Bool :=
  children.all (fun ci =>
    (ci.data ++ elemsL ci.children).all (fun x => ci.rad.has (dist x.val ci.pivot.val)) &&
    (List.range children.length).all (fun j =>
      match children[j]?, ci.ranges[j]? with
      | some cj, some rg => cj.elems.all (fun x => Range.has rg (dist x.val ci.pivot.val))
      | _, _ => false))

mutual
/-- `GnatInv`: `localInv` at every node, and no pivot is marked removed. -/
def Node.inv (dist : α → α → D) (removed : List Nat) : Node α D → Bool
  | .mk p _ _ _ _ ch => !isRemoved removed p && localInv dist ch && invL dist removed ch
def invL (dist : α → α → D) (removed : List Nat) : List (Node α D) → Bool
  | [] => true
  | c :: cs => c.inv dist removed && invL dist removed cs
end

end Inv

end Gnat

/-! ## the result vector of `nearestK` / `nearestR` is an in/out parameter

The API is `void nearestK(const _T &data, std::size_t k, std::vector<_T> &nbh)`: callers (every planner)
reuse one vector for all their queries.  The functions above *return* the answer; the functions below
take the caller's vector and mirror what the code does to it (clear / assign, then fill), so that
"the result does not depend on what the vector held before" is a statement about the code as written
(`query_result_independent_of_previous_contents`).  `nearest` returns its result by value. -/

section InOut
variable {β : Type}

/-- `std::vector::clear()`. -/
def vecClear (_ : List β) : List β := []

/-- `nbh = data_` (copy assignment). -/
def vecAssign (src : List β) (_ : List β) : List β := src

/-- `postprocessNearest`: `nbh.resize(n)` for `n` answers (old entries kept up to `n`, `none` = a
value-initialised new slot), then the loop assigns **every** slot `*it = …`. -/
def vecResizeAndOverwrite (ans : List β) (nbh : List β) : List β :=
  let resized : List (Option β) := (nbh.take ans.length).map some ++ List.replicate (ans.length - nbh.length) none
  (resized.zip ans).map (fun p => p.2)

variable [BEq α] [Add D] [Sub D] [LE D] [LT D] [DecidableLE D] [DecidableLT D]

/-- `NearestNeighborsGNAT::nearestK(data, k, nbh)` / `…NoThreadSafety::nearestK` as coded:
`nbh.clear(); if (k == 0) return; if (size_) { search; postprocessNearest(nbh); }`. -/
def Gnat.nearestKInto (dist : α → α → D) (eps : D) (ord : Nat → Nat → List Nat) (g : Gnat α D) (q : α) (k : Nat)
    (nbh : List α) : List α :=
  let nbh := vecClear nbh
  if k = 0 then nbh
  else if g.size = 0 then nbh
  else
    match g.tree with
    | none => nbh
    | some t =>
      vecResizeAndOverwrite
        ((postprocess (nearestKInternal dist g.removed q k eps ord g.offset t).nbh).map (fun x => x.2.val)) nbh

/-- `nearestR(data, radius, nbh)` as coded: `nbh.clear(); if (size_) { search; postprocessNearest(nbh); }`. -/
def Gnat.nearestRInto (dist : α → α → D) (ord : Nat → Nat → List Nat) (g : Gnat α D) (q : α) (r : D)
    (nbh : List α) : List α :=
  let nbh := vecClear nbh
  if g.size = 0 then nbh
  else
    match g.tree with
    | none => nbh
    | some t =>
      vecResizeAndOverwrite
        ((postprocess (nearestRInternal dist g.removed q r ord g.offset t).nbh).map (fun x => x.2.val)) nbh

/-- `NearestNeighborsLinear::nearestK` (and SqrtApprox, which inherits it): `nbh = data_;` then
(partial) sort and `resize(k)`. -/
def linNearestKInto (dist : α → α → D) (q : α) (k : Nat) (data : List α) (nbh : List α) : List α :=
  bruteK (fun x => dist x q) k (vecAssign data nbh)

/-- `NearestNeighborsLinear::nearestR`: `nbh.clear();` push the elements within the radius; sort. -/
def linNearestRInto (dist : α → α → D) (q : α) (r : D) (data : List α) (nbh : List α) : List α :=
  (vecClear nbh ++ data.filter (fun x => decide (dist x q ≤ r))).mergeSort (leBy (fun x => dist x q))

end InOut

/-! ## which structure a planner gets: `tools::SelfConfig::getDefaultNearestNeighbors` -/

section Default

/-- the four shipped `NearestNeighbors` implementations (FLANN wrappers are not built). -/
inductive NNKind where
  | gnat                  -- `NearestNeighborsGNAT` (thread safe)
  | gnatNoThreadSafety    -- `NearestNeighborsGNATNoThreadSafety`
  | sqrtApprox            -- `NearestNeighborsSqrtApprox`
  | linear                -- `NearestNeighborsLinear`
deriving DecidableEq, Repr

/-- `getDefaultNearestNeighbors<_T>(planner)` as coded (SelfConfig.h; no build flag is consulted):
`if (space->isMetricSpace()) { if (specs.multithreaded) GNAT else GNATNoThreadSafety } else SqrtApprox`. -/
def defaultNN (isMetricSpace multithreaded : Bool) : NNKind :=
  if isMetricSpace then
    if multithreaded then .gnat else .gnatNoThreadSafety
  else .sqrtApprox

/-- does exactness of the structure's answers rest on the metric laws? (GNAT prunes by the triangle
inequality; Linear / SqrtApprox only evaluate the distance function.) -/
def NNKind.needsMetric : NNKind → Bool
  | .gnat => true
  | .gnatNoThreadSafety => true
  | .sqrtApprox => false
  | .linear => false

/-- `CompoundStateSpace::isMetricSpace`: `std::all_of` over the components. -/
def compoundIsMetric (components : List Bool) : Bool := components.all id

end Default

end OmplModel.NN
