/-
Model of the propagation core of `ompl::control`:

* `SpaceInformation::propagate` (both overloads) and `SpaceInformation::propagateWhileValid`
  (both overloads) — src/ompl/control/src/SpaceInformation.cpp
* `PathControl::check`, `PathControl::interpolate` — src/ompl/control/src/PathControl.cpp
* `SimpleDirectedControlSampler::getBestControl` (`sampleTo`) —
  src/ompl/control/src/SimpleDirectedControlSampler.cpp

Core Lean only (linked into the native driver `drv_control`).

What is a parameter (DESIGN 1.3, oracles): the user's state propagator for one step of length
`±stepSize` (`step : S → U → S`; the sign is chosen by the caller, see `propagateI`/`pwvI`), the
validity checker (`valid : S → Bool`), the state distance and the raw sampler draws.  `S` and `U`
are arbitrary types, so every theorem about these definitions holds for every system.

Abstractions (covered by the correspondence run, not assumed silently):
* C++ states are mutable buffers; the model is functional.  The one place where buffer identity
  changes the outcome — `propagateWhileValid(state, …, result)` called with `result == state`
  (DESIGN F13) — is modelled separately as `pwvAlias`.
* the result vector of the vector overloads is a `List (Option S)`: `none` is a slot that
  `resize()` created and nobody wrote (a null / freshly allocated pointer).  `alloc`, `resize`,
  `result[st] = …` and the truncating `resize(st)` are list operations (`resize`, `List.set`).
* a path keeps its durations as *step counts* (`Nat`), as the planners' motions do
  (`Motion::steps`); the conversion `steps * stepSize` (on append) and
  `floor(0.5 + duration / stepSize)` (in `check`/`interpolate`/`print`) is `durOfSteps`/`durToSteps`
  below, executed at `Float` by the driver at the protocol boundary.
-/
import OmplModel.Model.Num
namespace OmplModel.Control

variable {S U : Type}

/-! ## propagate -/

/-- `SpaceInformation::propagate(state, control, steps, result)` for `steps ≥ 0`: the propagator is
applied to the running result, `steps` times (`steps == 0` copies the state). -/
def propagate (step : S → U → S) (s : S) (u : U) : Nat → S
  | 0 => s
  | k + 1 => step (propagate step s u k) u

/-- signed step counts: `signedStepSize = steps > 0 ? stepSize_ : -stepSize_; steps = abs(steps)`.
`step true` is the propagator called with `-stepSize`. -/
def propagateI (step : Bool → S → U → S) (s : S) (u : U) (steps : Int) : S :=
  propagate (step (decide (steps < 0))) s u steps.natAbs

/-- `std::vector::resize(n)` on a vector of state pointers: keeps a prefix, pads with null. -/
def resize (l : List (Option S)) (n : Nat) : List (Option S) :=
  l.take n ++ List.replicate (n - l.length) none

/-- the `while (st < steps)` loop of the vector `propagate`: `result[st] = f(result[st-1])`
(`prev` is the state just written, or the start state for `st == 0`). -/
def propagateVecLoop (step : S → U → S) (u : U) : Nat → Nat → S → List (Option S) → List (Option S)
  | 0, _, _, res => res
  | fuel + 1, st, prev, res =>
    let nxt := step prev u
    propagateVecLoop step u fuel (st + 1) nxt (res.set st (some nxt))

/-- `SpaceInformation::propagate(state, control, steps, std::vector<State*> &result, alloc)`.
`alloc`: `result.resize(steps)` and every slot gets a fresh state; otherwise an empty vector
returns at once and `steps = min(steps, result.size())`. -/
def propagateVec (step : S → U → S) (s : S) (u : U) (steps : Nat) (result : List (Option S))
    (alloc : Bool) : List (Option S) :=
  if alloc then propagateVecLoop step u steps 0 s ((resize result steps).map (fun _ => none))
  else if result.isEmpty then result
  else propagateVecLoop step u (min steps result.length) 0 s result

/-! ## propagateWhileValid, single-result overload -/

/-- the loop `for (i = 1; i < steps; ++i)` after a valid first step.  `cur` is `temp1` (the last
valid state), `i` the loop counter; returns `(r, temp1)` — `r = i` at the `break`, `r = steps`
when the loop runs out (`fuel = steps - i`). -/
def pwvLoop (step : S → U → S) (valid : S → Bool) (u : U) : Nat → Nat → S → Nat × S
  | 0, i, cur => (i, cur)
  | fuel + 1, i, cur =>
    let nxt := step cur u
    if valid nxt then pwvLoop step valid u fuel (i + 1) nxt else (i, cur)

/-- `unsigned propagateWhileValid(state, control, steps, result)` with `result != state`, `steps ≥ 0`
(already `abs`-ed): returns (number of valid steps, content of `result`). -/
def pwv (step : S → U → S) (valid : S → Bool) (s : S) (u : U) : Nat → Nat × S
  | 0 => (0, s)
  | n + 1 =>
    let first := step s u
    if valid first then pwvLoop step valid u n 1 first else (0, s)

/-- the same call with `result == state` (aliased buffers, DESIGN F13).  The first propagation
overwrites `state`; when that first step is invalid the final `if (result != state) copyState(...)`
is skipped, so the buffer keeps the *invalid* propagated state while 0 is returned.  In every other
case the outcome equals `pwv` (the temporaries `temp1/temp2` never alias `state` again). -/
def pwvAlias (step : S → U → S) (valid : S → Bool) (s : S) (u : U) : Nat → Nat × S
  | 0 => (0, s)
  | n + 1 =>
    let first := step s u
    if valid first then pwvLoop step valid u n 1 first else (0, first)

def pwvI (step : Bool → S → U → S) (valid : S → Bool) (s : S) (u : U) (steps : Int) : Nat × S :=
  pwv (step (decide (steps < 0))) valid s u steps.natAbs

/-! ## propagateWhileValid, vector overload -/

/-- the uniform form of `if (st < steps) { first step … while (st < steps) { … } }`: slot `st` is
(allocated and) written with the propagated state; if that state is invalid the loop stops —
with `alloc` the slot is freed and the vector truncated (`resize(st)`), without `alloc` the invalid
state stays in slot `st`. Returns `(st, result)`. `fuel = steps - st`. -/
def pwvVecLoop (step : S → U → S) (valid : S → Bool) (u : U) (alloc : Bool) :
    Nat → Nat → S → List (Option S) → Nat × List (Option S)
  | 0, st, _, res => (st, res)
  | fuel + 1, st, prev, res =>
    let nxt := step prev u
    let res' := res.set st (some nxt)
    if valid nxt then pwvVecLoop step valid u alloc fuel (st + 1) nxt res'
    else (st, if alloc then resize res' st else res')

/-- `unsigned propagateWhileValid(state, control, steps, std::vector<State*> &result, alloc)`. -/
def pwvVec (step : S → U → S) (valid : S → Bool) (s : S) (u : U) (steps : Nat)
    (result : List (Option S)) (alloc : Bool) : Nat × List (Option S) :=
  if alloc then pwvVecLoop step valid u true steps 0 s (resize result steps)
  else if result.isEmpty then (0, result)
  else pwvVecLoop step valid u false (min steps result.length) 0 s result

def pwvVecI (step : Bool → S → U → S) (valid : S → Bool) (s : S) (u : U) (steps : Int)
    (result : List (Option S)) (alloc : Bool) : Nat × List (Option S) :=
  pwvVec (step (decide (steps < 0))) valid s u steps.natAbs result alloc

/-! ## the specification: replaying a control path -/

/-- a control path: `states.length = controls.length + 1 = steps.length + 1` when well formed -/
structure Path (S U : Type) where
  states : List S
  controls : List U
  steps : List Nat
deriving Repr

/-- the (control, step count, next state) triples of a path after its first state -/
def segs : List S → List U → List Nat → List (U × Nat × S)
  | s' :: ss, u :: us, k :: ks => (u, k, s') :: segs ss us ks
  | _, _, _ => []

/-- **replayOK** (the spec oracle of C02): from `s`, applying each control for its step count
reproduces the next path state exactly and every intermediate propagation step is valid. -/
def ReplayOK (step : S → U → S) (valid : S → Bool) : S → List (U × Nat × S) → Prop
  | _, [] => True
  | s, (u, k, s') :: rest =>
    propagate step s u k = s' ∧ (∀ i, 1 ≤ i → i ≤ k → valid (propagate step s u i) = true) ∧
      ReplayOK step valid s' rest

/-- executable form of `ReplayOK` with an arbitrary closeness test (the driver instantiates `close`
with "distance ≤ float epsilon" or bit equality); returns the index of the first failing segment. -/
def allValidUpTo (step : S → U → S) (valid : S → Bool) (s : S) (u : U) : Nat → Bool
  | 0 => true
  | k + 1 => allValidUpTo step valid s u k && valid (propagate step s u (k + 1))

def replayFirstBad (step : S → U → S) (valid : S → Bool) (close : S → S → Bool) :
    S → List (U × Nat × S) → Nat → Option Nat
  | _, [], _ => none
  | s, (u, k, s') :: rest, i =>
    if close (propagate step s u k) s' && allValidUpTo step valid s u k then
      replayFirstBad step valid close s' rest (i + 1)
    else some i

/-! ## PathControl::check -/

/-- the `for (i = 0; valid && i < controls_.size(); ++i)` loop.  `states_[i]`/`states_[i+1]` are
read unchecked in C++; a missing state makes the model answer `false` (totalisation). -/
def checkLoop (step : S → U → S) (valid : S → Bool) (close : S → S → Bool) :
    List S → List U → List Nat → Bool
  | _, [], _ => true
  | s :: s' :: ss, u :: us, k :: ks =>
    if !valid s || (pwv step valid s u k).1 != k || !close (pwv step valid s u k).2 s' then false
    else checkLoop step valid close (s' :: ss) us ks
  | _, _ :: _, _ => false

/-- `PathControl::check()`; `close a b` is `!(si->distance(a, b) > numeric_limits<float>::epsilon())`. -/
def Path.check (step : S → U → S) (valid : S → Bool) (close : S → S → Bool) (p : Path S U) : Bool :=
  if p.controls.isEmpty then
    match p.states with
    | [s] => valid s
    | _ => false
  else checkLoop step valid close p.states p.controls p.steps

/-! ## PathControl::interpolate -/

/-- the states written by `propagate(…, istates, alloc = true)` (all slots are written) -/
def someStates (l : List (Option S)) : List S := l.filterMap id

/-- per segment: `steps <= 1` keeps the segment; otherwise the segment becomes `steps` one-step
segments through the intermediate states (`istates` without its last element). Returns the new
(states, controls, steps) *without* the final state, which the caller appends. -/
def interpLoop (step : S → U → S) : List S → List U → List Nat → List S × List U × List Nat
  | s :: ss, u :: us, k :: ks =>
    let (rs, ru, rk) := interpLoop step ss us ks
    if k ≤ 1 then (s :: rs, u :: ru, k :: rk)
    else
      let istates := (someStates (propagateVec step s u k [] true)).dropLast
      (s :: istates ++ rs, List.replicate k u ++ ru, List.replicate k 1 ++ rk)
  | _, _, _ => ([], [], [])

/-- `PathControl::interpolate()`; does nothing unless there are more states than controls. -/
def Path.interpolate (step : S → U → S) (p : Path S U) : Path S U :=
  if p.states.length ≤ p.controls.length then p
  else
    let (rs, ru, rk) := interpLoop step p.states p.controls p.steps
    { states := rs ++ (p.states.drop p.controls.length).take 1, controls := ru, steps := rk }

/-! ## SimpleDirectedControlSampler::getBestControl -/

/-- the `for (i = 1; i < numControlSamples_; ++i)` loop: keep the (control, steps, state) whose end
state is strictly closer to `dest`. -/
def bestLoop {δ : Type} (step : S → U → S) (valid : S → Bool) (dist : S → S → δ) (lt : δ → δ → Bool)
    (src dest : S) : List (U × Nat) → (U × Nat × S) → δ → U × Nat × S
  | [], best, _ => best
  | (u, k) :: rest, best, bestD =>
    let r := pwv step valid src u k
    let d := dist r.2 dest
    if lt d bestD then bestLoop step valid dist lt src dest rest (u, r.1, r.2) d
    else bestLoop step valid dist lt src dest rest best bestD

/-- `sampleTo(control, previous, source, dest)`: `draws` are the `numControlSamples_` scripted
(control, step count) draws in the order the code consumes them.  Returns the chosen control, the
number of steps actually achieved and the state reached (which the code copies into `dest`).
`none` only for an empty script (`numControlSamples_ ≥ 1` in the code). -/
def sampleTo {δ : Type} (step : S → U → S) (valid : S → Bool) (dist : S → S → δ) (lt : δ → δ → Bool)
    (src dest : S) : List (U × Nat) → Option (U × Nat × S)
  | [] => none
  | (u0, k0) :: rest =>
    let r := pwv step valid src u0 k0
    match rest with
    | [] => some (u0, r.1, r.2)
    | _ => some (bestLoop step valid dist lt src dest rest (u0, r.1, r.2) (dist r.2 dest))

/-! ## durations at the protocol boundary -/

/-- `mpath[i]->steps * siC_->getPropagationStepSize()` -/
def durOfSteps {α : Type} [Num α] (k : Nat) (stepSize : α) : α := Num.ofNat k * stepSize

/-- `(int)floor(0.5 + controlDurations_[i] / res)` -/
def durToSteps {α : Type} [Num α] (d res : α) : Int := Num.toInt (Num.floor (Num.ofDec 5 1 + d / res))

end OmplModel.Control
