/-
Model of the hybridization graph of
  src/ompl/geometric/src/PathHybridization.cpp   (constructor/clear, recordPath, attemptNewEdge,
                                                  the specification of what computeHybridPath's
                                                  Dijkstra call is assumed to return)

Core Lean only (no Mathlib).

What is modelled
* `HGraph` is `boost::adjacency_list<vecS, vecS, undirectedS, …>`: vertex descriptors are the numbers
  `0 … num_vertices - 1` in creation order, so the virtual root is `0`, the virtual goal is `1`
  (constructor and `clear()`), and `recordPath` numbers the states of a path consecutively from
  `num_vertices(g_)`.  The graph is a LIST of weighted edges `(a, b, cost)`; an edge joins its two ends
  in BOTH orientations (`Joined`), parallel edges are allowed (boost keeps them, too).
* `recordPath g ws` is the graph part of `PathHybridization::recordPath` for a path with
  `ws.length + 1` states whose motion costs (`obj_->motionCost(states[j-1], states[j])`) are `ws`:
  edge root–first with `identityCost`, one edge per motion in path order, edge last–goal with
  `identityCost`, appended in the order of the `boost::add_edge` calls.  It returns the new graph and
  `pi.vertices_`.  `pathCost ws` is `pi.cost_` (the left-to-right `combineCosts` fold from
  `identityCost`).  A path with 0 states, a path of another `SpaceInformation` and a path that was
  recorded before are skipped by the C++ code BEFORE it touches `g_`: they are the absence of an op.
* `Op.edge a b w` is an `attemptNewEdge` whose `checkMotion` answered `true`
  (`boost::add_edge(p.vertices_[indexP], q.vertices_[indexQ], motionCost(..), g_)`).  The model adds the
  edge UNCONDITIONALLY, for arbitrary `a`, `b`, `w`, at any time: which pairs `matchPaths` (the
  Needleman–Wunsch alignment) and the gap logic of `recordPath` choose to attempt, what `checkMotion`
  answers and what `motionCost` returns are irrelevant to everything stated about this model, because
  the statements quantify over ALL op lists.  (The real code only ever joins two non-virtual vertices
  of two different recorded paths; that is a subset.)
* Edges are only ever appended (`clear()` = start again from `St.init`).

What is NOT modelled (oracle)
* `boost::dijkstra_shortest_paths` itself.  `IsShortest es w` is the SPECIFICATION it is assumed to
  meet: `w` is a root→goal walk and no root→goal walk is better (`isCostBetterThan` = `<`).  That is
  Dijkstra's contract for additive, non-negative costs with exact arithmetic; with negative costs or
  a non-monotone `combineCosts` boost's Dijkstra need not meet it, and in `double` the sums are only
  associative up to rounding.  `shortestCost` below (Bellman–Ford) is an executable reference value
  for tests; `Proofs/PathHybrid.lean` gives a checkable certificate (`isShortest_of_potential`), no
  general correctness proof of it.
* Costs are ADDITIVE: identity = `0`, combine = `+`, better = `<`.  Objectives whose `combineCosts`
  is not an addition (`MaximizeMinClearanceObjective`: combine = `min`, better = `>`) are NOT covered.
* A walk may traverse an edge against the direction in which its cost was computed (the graph is
  undirected).  `computeHybridPath` returns the STATES along the predecessor chain from goal (root
  and goal stripped); that path's own `PathGeometric::cost(obj)` re-evaluates `motionCost` in walk
  direction, so it equals the walk cost of the model only for SYMMETRIC motion costs
  (`motionCost(a, b) = motionCost(b, a)`, e.g. path length), and only up to floating-point
  re-association.  The claims here are about the walk cost in the graph.
-/
namespace OmplModel.PathHybrid

variable {κ : Type}

/-- `root_` (first `boost::add_vertex` of the constructor / of `clear()`) -/
def root : Nat := 0
/-- `goal_` (second `boost::add_vertex`) -/
def goal : Nat := 1

/-- `g_`: number of vertices and the edge list in `add_edge` order -/
structure HGraph (κ : Type) where
  nverts : Nat
  edges : List (Nat × Nat × κ)

/-- the graph after the constructor or `clear()`: root and goal, no edge -/
def HGraph.init : HGraph κ := ⟨2, []⟩

/-- the edges between consecutive states: `add_edge(v0, v1, motionCost(states[j-1], states[j]))`,
`v` the vertex of `states[j-1]`, fresh vertices numbered consecutively -/
def chainEdges (v : Nat) : List κ → List (Nat × Nat × κ)
  | [] => []
  | w :: ws => (v, v + 1, w) :: chainEdges (v + 1) ws

/-- graph part of `recordPath` for a path with `ws.length + 1` states and motion costs `ws`;
result = (new graph, `pi.vertices_`) -/
def recordPath [Zero κ] (g : HGraph κ) (ws : List κ) : HGraph κ × List Nat :=
  let v0 := g.nverts
  ({ nverts := v0 + (ws.length + 1)
     edges := g.edges ++ ((root, v0, 0) :: chainEdges v0 ws ++ [(v0 + ws.length, goal, 0)]) },
   List.range' v0 (ws.length + 1))

/-- `pi.cost_`: `cost = identityCost(); for j: cost = combineCosts(cost, weight_j)` -/
def pathCost [Zero κ] [Add κ] (ws : List κ) : κ := ws.foldl (· + ·) 0

/-- a successful `attemptNewEdge` -/
def addEdge (g : HGraph κ) (a b : Nat) (w : κ) : HGraph κ :=
  { g with edges := g.edges ++ [(a, b, w)] }

/-! ## the object: graph + `paths_` -/

/-- `PathInfo`: `vertices_` and the motion costs of the recorded path -/
structure Rec (κ : Type) where
  verts : List Nat
  costs : List κ

structure St (κ : Type) where
  g : HGraph κ
  /-- `paths_`, in recording order (the C++ `std::set` is ordered by pointer; order is irrelevant) -/
  paths : List (Rec κ)

def St.init : St κ := ⟨HGraph.init, []⟩

inductive Op (κ : Type) where
  /-- `recordPath(p, ·)` of a not yet recorded path with `ws.length + 1 ≥ 1` states -/
  | record (ws : List κ)
  /-- an `attemptNewEdge` that passed `checkMotion`; ends and cost arbitrary -/
  | edge (a b : Nat) (w : κ)

def step [Zero κ] (s : St κ) : Op κ → St κ
  | .record ws => ⟨(recordPath s.g ws).1, s.paths ++ [⟨(recordPath s.g ws).2, ws⟩]⟩
  | .edge a b w => ⟨addEdge s.g a b w, s.paths⟩

def runFrom [Zero κ] (s : St κ) (ops : List (Op κ)) : St κ := ops.foldl step s

/-- the state after any interleaving of recorded paths and extra edges -/
def run [Zero κ] (ops : List (Op κ)) : St κ := runFrom St.init ops

/-! ## walks and the shortest-path specification -/

/-- `a` and `b` are the two ends of an edge of cost `c` (undirected: either orientation) -/
def Joined (es : List (Nat × Nat × κ)) (a b : Nat) (c : κ) : Prop :=
  (a, b, c) ∈ es ∨ (b, a, c) ∈ es

instance [DecidableEq κ] (es : List (Nat × Nat × κ)) (a b : Nat) (c : κ) :
    Decidable (Joined es a b c) := inferInstanceAs (Decidable (_ ∨ _))

/-- a walk from `a` to `b`, given by its steps `(next vertex, cost of the edge taken)`.  (The cost
is part of the step because parallel edges of different cost may join the same two vertices; the
vertex list is `walkVerts`.) -/
def IsWalk (es : List (Nat × Nat × κ)) : Nat → List (Nat × κ) → Nat → Prop
  | a, [], b => a = b
  | a, (v, c) :: r, b => Joined es a v c ∧ IsWalk es v r b

instance decIsWalk [DecidableEq κ] (es : List (Nat × Nat × κ)) :
    (a : Nat) → (w : List (Nat × κ)) → (b : Nat) → Decidable (IsWalk es a w b)
  | a, [], b => inferInstanceAs (Decidable (a = b))
  | a, (v, c) :: r, b =>
    have := decIsWalk es v r b
    inferInstanceAs (Decidable (Joined es a v c ∧ IsWalk es v r b))

/-- the vertices of the walk with steps `w` that starts at `a` -/
def walkVerts (a : Nat) (w : List (Nat × κ)) : List Nat := a :: w.map (·.1)

/-- cost of a walk: the edge costs combined (`identity` for the empty walk) -/
def walkCost [Zero κ] [Add κ] : List (Nat × κ) → κ
  | [] => 0
  | (_, c) :: r => c + walkCost r

/-- what `computeHybridPath`'s Dijkstra call is ASSUMED to deliver (as `prev[]` chain from goal):
a root→goal walk such that no root→goal walk is better (`isCostBetterThan(c', c)` = `c' < c`) -/
def IsShortest [Zero κ] [Add κ] [LT κ] (es : List (Nat × Nat × κ)) (w : List (Nat × κ)) : Prop :=
  IsWalk es root w goal ∧ ∀ w', IsWalk es root w' goal → ¬ walkCost w' < walkCost w

/-- the walk `root, vertices_…, goal` of a recorded path: identity edge, the motions, identity edge -/
def recWalk [Zero κ] (p : Rec κ) : List (Nat × κ) := p.verts.zip (0 :: p.costs) ++ [(goal, 0)]

/-! ## executable reference: Bellman–Ford (for tests; boost's Dijkstra is not modelled) -/

/-- `d[v]`, `none` = not reached (`distance_inf`) -/
def getD (d : List (Option κ)) (v : Nat) : Option κ := (d[v]?).join

/-- relax the directed arc `a → b` of cost `w` -/
def relaxArc [Add κ] [LT κ] [DecidableLT κ] (d : List (Option κ)) (a b : Nat) (w : κ) :
    List (Option κ) :=
  match getD d a with
  | none => d
  | some x =>
    match getD d b with
    | none => d.set b (some (x + w))
    | some y => if x + w < y then d.set b (some (x + w)) else d

/-- one round: every edge in both orientations -/
def relaxAll [Add κ] [LT κ] [DecidableLT κ] (es : List (Nat × Nat × κ)) (d : List (Option κ)) :
    List (Option κ) :=
  es.foldl (fun d e => relaxArc (relaxArc d e.1 e.2.1 e.2.2) e.2.1 e.1 e.2.2) d

def iter {α : Type} (f : α → α) : Nat → α → α
  | 0, x => x
  | n + 1, x => iter f n (f x)

/-- distances from root after `nverts` rounds (exact for non-negative additive costs) -/
def distances [Zero κ] [Add κ] [LT κ] [DecidableLT κ] (g : HGraph κ) : List (Option κ) :=
  iter (relaxAll g.edges) g.nverts ((List.replicate g.nverts none).set root (some 0))

/-- cost of the best root→goal walk, `none` if goal is not reached (`prev[goal_] == goal_`) -/
def shortestCost [Zero κ] [Add κ] [LT κ] [DecidableLT κ] (g : HGraph κ) : Option κ :=
  getD (distances g) goal

end OmplModel.PathHybrid
