/-
Executable model of `ompl::control::SST::solve` (src/ompl/control/planners/sst/src/SST.cpp) with
`NearestNeighborsLinear` for both the tree (`nn_`) and the witness set (`witnesses_`).

Core Lean only.  Oracle-machine style as `Model/CRRT.lean`: the world is `P.step`, `P.valid`, `P.dist`,
`P.goal`, the optimization objective (`P.motionCost`, `P.add`, `P.zero`, `P.lt`, `P.costSatisfied`); per
loop iteration the script supplies the goal-bias outcome, the sampled state, the sampled control
(`controlSampler_->sample`) and the sampled step count (`rng_.uniformInt(min, max)`).  One evaluation of
the termination condition per iteration, so an interruption is a truncated script.

State: every motion ever created stays in `tree` (creation order; `parent` is an index, as in CRRT), with
side arrays for `accCost_`, `numChildren_`, `inactive_`; `nn` is the content of `nn_` (indices, insertion
order); witnesses carry their state and the index of their representative (`none` = the scratch motion
`rmotion`, only transiently).  `prevSolution_/prevSolutionControls_/prevSolutionSteps_` is the snapshot
`prevSolution` taken by walking the parent pointers at the moment a (better) solution or a closer
approximate motion appears — the reported path is that snapshot, as coded.

As coded in this tree, the pruning loop is `while (oldRep->inactive_ && oldRep->numChildren_ == 0) {
oldRep->inactive_ = true; nn_->remove(oldRep); … }`: `inactive_` is tested before it is ever set, so the
loop body never runs and no motion is ever deactivated or removed (`pruneLoop` below mirrors the code, dead
guard included).  Abstractions: `nearestR`/`nearestK` sort with `std::sort`/`partial_sort` (unstable); the
model uses a stable merge sort, so candidates at *exactly* equal distance and cost may be ordered
differently — not reachable with the continuous draws of the lock-step runs.
-/
import OmplModel.Model.CRRT
namespace OmplModel.CSST
open OmplModel.Control OmplModel.CRRT

structure Problem (S U δ : Type) where
  step : S → U → S
  valid : S → Bool
  /-- `si_->distance` -/
  dist : S → S → δ
  /-- `<` and `<=` on `double` -/
  lt : δ → δ → Bool
  le : δ → δ → Bool
  /-- `+inf`: initial `approxdif` and `opt_->infiniteCost()` -/
  inf : δ
  /-- `opt_->identityCost()`, `opt_->combineCosts`, `opt_->motionCost`, `opt_->isSatisfied` -/
  zero : δ
  add : δ → δ → δ
  motionCost : S → S → δ
  costSatisfied : δ → Bool
  goal : S → Bool × δ
  goalSample : S
  nullControl : U
  selectionRadius : δ
  pruningRadius : δ

structure Draw (S U : Type) where
  useGoal : Bool
  sample : S
  control : U
  steps : Nat

structure Wit (S : Type) where
  state : S
  /-- `rep_`; `none` is the scratch motion `rmotion` -/
  rep : Option Nat

structure St (S U δ : Type) where
  tree : Array (Motion S U)
  cost : Array δ
  nchild : Array Nat
  inactive : Array Bool
  nn : List Nat
  wits : Array (Wit S)
  solution : Option Nat
  approxsol : Option Nat
  approxdif : δ
  prevSolution : Option (Path S U)
  prevSolutionCost : δ

variable {S U δ : Type}

/-- `NearestNeighborsLinear::nearest` over a list of states: index of the first strict minimum -/
def nearestIdx (dist : S → S → δ) (lt : δ → δ → Bool) (q : S) : List S → Nat → Option (Nat × δ) → Option (Nat × δ)
  | [], _, best => best
  | s :: ss, i, best =>
    let d := dist s q
    match best with
    | none => nearestIdx dist lt q ss (i + 1) (some (i, d))
    | some (p, dmin) =>
      if lt d dmin then nearestIdx dist lt q ss (i + 1) (some (i, d))
      else nearestIdx dist lt q ss (i + 1) (some (p, dmin))

/-- the motions of `nn_` with their distance to `q`, in `nn_` order -/
def withDist (P : Problem S U δ) (st : St S U δ) (q : S) : List (Nat × δ) :=
  st.nn.filterMap fun i => st.tree[i]?.map fun m => (i, P.dist m.state q)

/-- sort by distance (`ElemSort`: `d(a) < d(b)`), stable -/
def sortByDist (P : Problem S U δ) (l : List (Nat × δ)) : List (Nat × δ) :=
  l.mergeSort fun a b => !(P.lt b.2 a.2)

/-- `selectNode`: the cheapest active motion within `selectionRadius_` of the sample (`nearestR`, strict
improvement, so the closest of equally cheap ones); if there is none, the nearest active motion
(`nearestK` with k = 1, 6, 11, …). -/
def selectNode (P : Problem S U δ) (st : St S U δ) (q : S) : Option Nat :=
  let all := withDist P st q
  let near := sortByDist P (all.filter fun p => P.le p.2 P.selectionRadius)
  let best := near.foldl (fun (acc : Option Nat × δ) p =>
    if !(st.inactive.getD p.1 false) && P.lt (st.cost.getD p.1 P.inf) acc.2 then (some p.1, st.cost.getD p.1 P.inf)
    else acc) (none, P.inf)
  match best.1 with
  | some i => some i
  | none => ((sortByDist P all).find? fun p => !(st.inactive.getD p.1 false)).map (·.1)

/-- `findClosestWitness(node)`: the nearest witness unless it is farther than `pruningRadius_` (or there is
none); then a new witness at the node's state, represented by the node.  Returns the witness index. -/
def findClosestWitness (P : Problem S U δ) (st : St S U δ) (q : S) (node : Option Nat) : St S U δ × Nat :=
  let fresh : St S U δ × Nat := ({ st with wits := st.wits.push { state := q, rep := node } }, st.wits.size)
  match nearestIdx P.dist P.lt q (st.wits.toList.map (·.state)) 0 none with
  | none => fresh
  | some (w, d) => if P.lt P.pruningRadius d then fresh else (st, w)

/-- the pruning loop, as coded (the guard reads `inactive_` before anything sets it) -/
def pruneLoop (st : St S U δ) : Nat → Nat → St S U δ
  | _, 0 => st
  | old, fuel + 1 =>
    if st.inactive.getD old false && st.nchild.getD old 0 == 0 then
      match st.tree[old]? with
      | none => st
      | some m =>
        match m.parent with
        | none => st        -- `oldRep->parent_->numChildren_--` on a root: not reachable
        | some p =>
          pruneLoop { st with inactive := st.inactive.setIfInBounds old true, nn := st.nn.erase old,
                              nchild := st.nchild.modify p (· - 1) } p fuel
    else st

/-- add a root: `nn_->add(motion); motion->accCost_ = identityCost(); findClosestWitness(motion)` -/
def addRoot (P : Problem S U δ) (st : St S U δ) (s : S) : St S U δ :=
  let idx := st.tree.size
  let st1 : St S U δ :=
    { st with tree := st.tree.push { state := s, control := P.nullControl, steps := 0, parent := none },
              cost := st.cost.push P.zero, nchild := st.nchild.push 0, inactive := st.inactive.push false,
              nn := st.nn ++ [idx] }
  (findClosestWitness P st1 s (some idx)).1

/-- one iteration of `while (ptc == false)`; the flag is `break` -/
def iter (P : Problem S U δ) (st : St S U δ) (d : Draw S U) : St S U δ × Bool :=
  let rstate := if d.useGoal then P.goalSample else d.sample
  match selectNode P st rstate with
  | none => (st, false)      -- the C++ loop would not terminate; needs an active motion, which a root provides
  | some n =>
    match st.tree[n]? with
    | none => (st, false)
    | some nm =>
      let r := pwv P.step P.valid nm.state d.control d.steps
      if r.1 != d.steps then (st, false)
      else
        let reached := r.2
        let incCost := P.add (P.motionCost nm.state reached) P.zero
        let cost := P.add (st.cost.getD n P.inf) incCost
        let fw := findClosestWitness P st reached none
        let st1 := fw.1
        match st1.wits[fw.2]? with
        | none => (st1, false)
        | some wit =>
          let better := match wit.rep with
            | none => true
            | some rp => P.lt cost (st1.cost.getD rp P.inf)
          if !better then (st1, false)
          else
            let idx := st1.tree.size
            let st2 : St S U δ :=
              { st1 with tree := st1.tree.push { state := reached, control := d.control, steps := d.steps, parent := some n },
                         cost := st1.cost.push cost, nchild := (st1.nchild.modify n (· + 1)).push 0,
                         inactive := st1.inactive.push false, nn := st1.nn ++ [idx],
                         wits := st1.wits.setIfInBounds fw.2 { wit with rep := some idx } }
            let g := P.goal reached
            let solv := g.1 && P.lt cost st2.prevSolutionCost
            let st3 : St S U δ :=
              if solv then
                { st2 with approxdif := g.2, solution := some idx, prevSolution := some (reported st2.tree idx),
                           prevSolutionCost := cost }
              else st2
            if solv && P.costSatisfied cost then (st3, true)
            else
              let st4 : St S U δ :=
                if st3.solution.isNone && P.lt g.2 st3.approxdif then
                  { st3 with approxdif := g.2, approxsol := some idx, prevSolution := some (reported st3.tree idx) }
                else st3
              match wit.rep with
              | none => (st4, false)
              | some old => (pruneLoop st4 old st4.tree.size, false)

def run (P : Problem S U δ) : St S U δ → List (Draw S U) → St S U δ
  | st, [] => st
  | st, d :: ds =>
    let r := iter P st d
    if r.2 then r.1 else run P r.1 ds

structure Result (S U δ : Type) where
  status : Status
  dif : δ
  path : Option (Path S U)
  final : St S U δ

def init (P : Problem S U δ) (starts : List S) : St S U δ :=
  (starts.filter P.valid).foldl (addRoot P)
    { tree := #[], cost := #[], nchild := #[], inactive := #[], nn := [], wits := #[], solution := none,
      approxsol := none, approxdif := P.inf, prevSolution := none, prevSolutionCost := P.inf }

/-- `control::SST::solve` on a fresh planner -/
def solve (P : Problem S U δ) (starts : List S) (draws : List (Draw S U)) : Result S U δ :=
  let st0 := init P starts
  if st0.nn.isEmpty then { status := .invalidStart, dif := P.inf, path := none, final := st0 }
  else
    let st := run P st0 draws
    match st.solution with
    | some _ => { status := .exact, dif := st.approxdif, path := st.prevSolution, final := st }
    | none =>
      match st.approxsol with
      | some _ => { status := .approximate, dif := st.approxdif, path := st.prevSolution, final := st }
      | none => { status := .timeout, dif := st.approxdif, path := none, final := st }

end OmplModel.CSST
