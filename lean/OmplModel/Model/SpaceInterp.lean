import OmplModel.Model.Space
/-
C07 — model of `StateSpace::interpolate` for every shipped state space (core Lean only; generic
over `[Num α]`, executed at `Float` by `drv_spaceinterp`, proved at `ℝ` in Proofs/SpaceInterp*.lean).

Each clause is copied from the anchored .cpp in the same operation order, so that the `Float`
instance reproduces the C++ result bit for bit:

  RealVectorStateSpace.cpp   from + (to - from) * t                       per coordinate
  SO2StateSpace.cpp          two-branch wrap (|diff| <= pi / the long way round), as FIXED by
                             notes/C07-fix-F4.diff (`v >= pi`); the code before the fix (`v > pi`) is
                             `so2InterpOld`, kept for the `so2_interp_old_fails` witness (F4)
  SO3StateSpace.cpp          slerp with the `dq < 0` sign flip of s1 and the `theta <= eps` copy branch;
                             `arcLength` with its `dq > 1 - 1e-9 -> 0` clamp
  TimeStateSpace.cpp         from + (to - from) * t
  DiscreteStateSpace.cpp     (int)floor(from + (to - from) * t + 0.5)
  StateSpace.cpp (Compound)  per component (weights play no role)
  Torus / Sphere             inherit the compound clause
  MobiusStateSpace.cpp       cylinder branch / seam branch with the second mirror test on the new u
  KleinBottleStateSpace.cpp  cylinder branch / seam branch (u wraps by pi, v mirrored on the side that
                             did not cross, then its own copy of the SO(2) wrap, fixed by the same diff)
  WrapperStateSpace.h        = inner space

Also modelled (used by the theorems and compared by the driver where printed): `satisfiesBounds`
(`inBounds`), `equalStates` (`eqStates`), and a *real-arithmetic-shaped* `dist` (compound distance as
a right fold `w*d + rest`; C06 owns the float-faithful distance model) for the proportionality theorem.

Abstracted: the output state is a fresh value (aliasing is an implementation-level claim: the
harness runs every interpolate with the output distinct, == from and == to and compares bits;
`Alias` below is the 3-mode memory micro-model for the extracted read/write lists).
Ill-typed arguments return the first state (the driver refuses them with `bad-op`).
-/
namespace OmplModel.SpaceInterp
open OmplModel

variable {α : Type} [Num α]

/-- `std::numeric_limits<double>::epsilon()` = 2^-52 -/
def dblEps : α := (1 : α) / Num.ofNat 4503599627370496
/-- `MAX_QUATERNION_NORM_ERROR = 1e-9` -/
def maxQuatErr : α := Num.ofDec 1 9
def half : α := Num.ofDec 5 1

/-! ### leaves -/

/-- `from + (to - from) * t` -/
def lerp (a b t : α) : α := a + (b - a) * t

def rvInterp : List α → List α → α → List α
  | x :: xs, y :: ys, t => lerp x y t :: rvInterp xs ys t
  | _, _, _ => []

/-- the wrap at the end of the long branch, fixed code: `if (v >= pi) v -= 2pi; else if (v < -pi) v += 2pi` -/
def so2Wrap (v : α) : α :=
  if Num.pi ≤ v then v - 2 * Num.pi
  else if v < -Num.pi then v + 2 * Num.pi
  else v

/-- the wrap before the fix: `if (v > pi) …` (SO2StateSpace.cpp and its copy in KleinBottleStateSpace.cpp) -/
def so2WrapOld (v : α) : α :=
  if Num.pi < v then v - 2 * Num.pi
  else if v < -Num.pi then v + 2 * Num.pi
  else v

/-- `diff > 0 ? 2pi - diff : -2pi - diff` -/
def longWay (diff : α) : α :=
  if 0 < diff then 2 * Num.pi - diff else (-(2 : α)) * Num.pi - diff

/-- SO2StateSpace::interpolate (fixed) -/
def so2Interp (a b t : α) : α :=
  let diff := b - a
  if Num.abs diff ≤ Num.pi then a + diff * t
  else so2Wrap (a - longWay diff * t)

/-- SO2StateSpace::interpolate of the TREE (F61 fix committed, notes/C07-fix-F61.diff): both branches flow into the
same wrap, so a short-branch result that rounding carries onto +pi (to = pi - 1ulp, F61) is mapped to -pi as
`enforceBounds` would.  Over the reals it equals `so2Interp` on in-bounds inputs (`so2InterpFix_eq`). -/
def so2InterpFix (a b t : α) : α :=
  let diff := b - a
  so2Wrap (if Num.abs diff ≤ Num.pi then a + diff * t else a - longWay diff * t)

/-- SO2StateSpace::interpolate before the F4 fix -/
def so2InterpOld (a b t : α) : α :=
  let diff := b - a
  if Num.abs diff ≤ Num.pi then a + diff * t
  else so2WrapOld (a - longWay diff * t)

def quatDot (x1 y1 z1 w1 x2 y2 z2 w2 : α) : α := x1 * x2 + y1 * y2 + z1 * z2 + w1 * w2

/-- `arcLength`: `fabs(dot)`, clamped to 0 above `1 - 1e-9`, else `acos` -/
def arcLength (x1 y1 z1 w1 x2 y2 z2 w2 : α) : α :=
  let dq := Num.abs (quatDot x1 y1 z1 w1 x2 y2 z2 w2)
  if 1 - maxQuatErr < dq then 0 else Num.acos dq

/-- SO3StateSpace::interpolate -/
def so3Interp (x1 y1 z1 w1 x2 y2 z2 w2 t : α) : St α :=
  let theta := arcLength x1 y1 z1 w1 x2 y2 z2 w2
  if dblEps < theta then
    let d := 1 / Num.sin theta
    let s0 := Num.sin ((1 - t) * theta)
    let s1 := Num.sin (t * theta)
    let dq := quatDot x1 y1 z1 w1 x2 y2 z2 w2
    let s1 := if dq < 0 then -s1 else s1
    .so3 ((x1 * s0 + x2 * s1) * d) ((y1 * s0 + y2 * s1) * d) ((z1 * s0 + z2 * s1) * d) ((w1 * s0 + w2 * s1) * d)
  else .so3 x1 y1 z1 w1

/-- DiscreteStateSpace::interpolate (F155 fix committed): `(int)floor(from + ((double)to - from) * t + 0.5)`; the
difference of two ints taken in double is exact, so it is the integer difference `b - a` converted once -/
def discInterp (a b : Int) (t : α) : Int :=
  Num.toInt (Num.floor (Num.ofInt a + Num.ofInt (b - a) * t + half))

/-- MobiusStateSpace::interpolate on (u, v); `so2` is the SO(2) component's interpolate -/
def mobiusInterp (so2 : α → α → α → α) (u1 v1 u2 v2 t : α) : α × α :=
  let diff := u2 - u1
  if Num.abs diff ≤ Num.pi then (so2 u1 u2 t, lerp v1 v2 t)
  else
    let u := so2 u1 u2 t
    let r := v1 + (-v2 - v1) * t
    let diff2 := u2 - u
    (u, if Num.abs diff2 ≤ Num.pi then -r else r)

/-- `v > 0 ? pi - v : -pi - v` -/
def kleinMirror (v : α) : α := if 0 < v then Num.pi - v else -Num.pi - v

/-- KleinBottleStateSpace::interpolate on (u, v); `so2` is the SO(2) component's interpolate (cylinder
branch), `wrap` the final wrap of the seam branch's own copy of the SO(2) code (`so2Wrap` after the
F4 fix, which patches this copy too; `so2WrapOld` before) -/
def kleinInterp (so2 : α → α → α → α) (wrap : α → α) (u1 v1 u2 v2 t : α) : α × α :=
  let diffU := u2 - u1
  if Num.abs diffU ≤ half * Num.pi then (lerp u1 u2 t, so2 v1 v2 t)
  else
    let diffU := if 0 < diffU then Num.pi - diffU else -Num.pi - diffU
    let u := u1 - diffU * t
    let crossed : Bool := decide (Num.pi < u) || decide (u < 0)
    let u := if Num.pi < u then u - Num.pi else if u < 0 then u + Num.pi else u
    let v1' := if crossed then kleinMirror v1 else v1
    let v2' := if crossed then v2 else kleinMirror v2
    let diffV := v2' - v1'
    let v := if Num.abs diffV ≤ Num.pi then v1' + diffV * t
             else wrap (v1' - longWay diffV * t)
    (u, v)

/-! ### all spaces -/

/-- every space, parametrised by the SO(2) leaf interpolation and the wrap of Klein's copy of it
(`so2Interp`/`so2Wrap` = the fixed code, `so2InterpOld`/`so2WrapOld` = the code before the F4 fix) -/
def interpolateW (so2 : α → α → α → α) (wrap : α → α) : Space α → St α → St α → α → St α
  | .rv _ _, .rv xs, .rv ys, t => .rv (rvInterp xs ys t)
  | .so2, .so2 a, .so2 b, t => .so2 (so2 a b t)
  | .so3, .so3 x1 y1 z1 w1, .so3 x2 y2 z2 w2, t => so3Interp x1 y1 z1 w1 x2 y2 z2 w2 t
  | .time .., .time a, .time b, t => .time (lerp a b t)
  | .disc .., .disc a, .disc b, t => .disc (discInterp a b t)
  | .cnil, .cnil, .cnil, _ => .cnil
  | .ccons _ h tl, .ccons ah at', .ccons bh bt, t =>
    .ccons (interpolateW so2 wrap h ah bh t) (interpolateW so2 wrap tl at' bt t)
  | .torus _ _, .ccons (.so2 a1) (.ccons (.so2 a2) .cnil), .ccons (.so2 b1) (.ccons (.so2 b2) .cnil), t =>
    .ccons (.so2 (so2 a1 b1 t)) (.ccons (.so2 (so2 a2 b2 t)) .cnil)
  | .sphere _, .ccons (.so2 a1) (.ccons (.rv [a2]) .cnil), .ccons (.so2 b1) (.ccons (.rv [b2]) .cnil), t =>
    .ccons (.so2 (so2 a1 b1 t)) (.ccons (.rv [lerp a2 b2 t]) .cnil)
  | .mobius _ _, .ccons (.so2 u1) (.ccons (.rv [v1]) .cnil), .ccons (.so2 u2) (.ccons (.rv [v2]) .cnil), t =>
    .ccons (.so2 (mobiusInterp so2 u1 v1 u2 v2 t).1) (.ccons (.rv [(mobiusInterp so2 u1 v1 u2 v2 t).2]) .cnil)
  | .klein, .ccons (.rv [u1]) (.ccons (.so2 v1) .cnil), .ccons (.rv [u2]) (.ccons (.so2 v2) .cnil), t =>
    .ccons (.rv [(kleinInterp so2 wrap u1 v1 u2 v2 t).1]) (.ccons (.so2 (kleinInterp so2 wrap u1 v1 u2 v2 t).2) .cnil)
  | .wrap s, a, b, t => interpolateW so2 wrap s a b t
  | _, a, _, _ => a

/-- `StateSpace::interpolate` with the F4 fix but before the F61 fix (short SO(2) branch not wrapped): the object the
[EX] theorems are stated about, equal to the tree's `interpolateFix61` over the reals (`interp_fix61_eq`) -/
@[reducible] def interpolate : Space α → St α → St α → α → St α := interpolateW so2Interp so2Wrap

/-- `StateSpace::interpolate` of the TREE: the SO(2) clause as repaired by the F61 fix.  This is what the driver
compares with the implementation.  The theorems of Props/C07.lean are stated about `interpolate` (the same code
without the wrap of the short branch, kept as the `old61` witness) and transfer through `interp_fix61_eq`: over the
reals the two are equal on in-bounds inputs for every space; they differ only in what IEEE rounding does at +pi. -/
@[reducible] def interpolateFix61 : Space α → St α → St α → α → St α := interpolateW so2InterpFix so2Wrap

/-- The gluing applied after the cylinder branch of MobiusStateSpace::interpolate (notes/C07-fix-F159.diff):
`CompoundStateSpace::interpolate(from, to, t, state); if (std::abs(theta2 - state.getU()) > pi) state.setV(-state.getV())`.
Rounding can carry u onto the seam, where the SO(2) clause wraps it to the other side; v is then mirrored, as the seam
branch does.  `postMobius sp from to res` walks the space and applies this to every Mobius component of `res`
(cylinder branch only: `|to.u - from.u| <= pi`); over the reals it is the identity on interpolation results. -/
def postMobius : Space α → St α → St α → St α → St α
  | .ccons _ h tl, .ccons ah at', .ccons bh bt, .ccons rh rt =>
    .ccons (postMobius h ah bh rh) (postMobius tl at' bt rt)
  | .mobius _ _, .ccons (.so2 u1) (.ccons (.rv [_]) .cnil), .ccons (.so2 u2) (.ccons (.rv [_]) .cnil),
      .ccons (.so2 u) (.ccons (.rv [v]) .cnil) =>
    if Num.abs (u2 - u1) ≤ Num.pi then
      .ccons (.so2 u) (.ccons (.rv [if Num.pi < Num.abs (u2 - u) then -v else v]) .cnil)
    else .ccons (.so2 u) (.ccons (.rv [v]) .cnil)
  | .wrap s, a, b, r => postMobius s a b r
  | _, _, _, r => r

/-- `StateSpace::interpolate` of the tree once notes/C07-fix-F159.diff is in: the F61-repaired SO(2) clause and the
Mobius gluing after the cylinder branch.  Equal to `interpolate` over the reals on in-bounds inputs (`interp_tree_eq`). -/
def interpolateTree (sp : Space α) (a b : St α) (t : α) : St α :=
  postMobius sp a b (interpolateFix61 sp a b t)

/-- the same with the SO(2) clause of the code *before* the F4 fix (for the witness theorem and for
`drv_spaceinterp`'s `old` fields, which let the check tell "tree not yet fixed" from a genuine
disagreement) -/
@[reducible] def interpolateOld : Space α → St α → St α → α → St α := interpolateW so2InterpOld so2WrapOld

/-! ### satisfiesBounds / equalStates as coded -/

/-- RealVectorStateSpace::satisfiesBounds: `x - eps > high || x + eps < low -> false` -/
def rvInB : List α → List α → List α → Bool
  | [], _, _ => true
  | x :: xs, l :: lo, h :: hi => !(decide (h < x - dblEps) || decide (x + dblEps < l)) && rvInB xs lo hi
  | _ :: _, _, _ => false

/-- SO2: `value < pi && value >= -pi` -/
def so2InB (v : α) : Bool := decide (v < Num.pi) && decide (-Num.pi ≤ v)

/-- SO3StateSpace::norm: `fabs(nrmSqr - 1) > eps ? sqrt(nrmSqr) : 1` -/
def so3Norm (x y z w : α) : α :=
  let n := x * x + y * y + z * z + w * w
  if dblEps < Num.abs (n - 1) then Num.sqrt n else 1

def so3InB (x y z w : α) : Bool := decide (Num.abs (so3Norm x y z w - 1) < maxQuatErr)

def inBounds : Space α → St α → Bool
  | .rv lo hi, .rv xs => rvInB xs lo hi
  | .so2, .so2 v => so2InB v
  | .so3, .so3 x y z w => so3InB x y z w
  | .time bounded lo hi, .time p => !bounded || (decide (lo - dblEps ≤ p) && decide (p ≤ hi + dblEps))
  | .disc lo hi, .disc v => decide (lo ≤ v) && decide (v ≤ hi)
  | .cnil, .cnil => true
  | .ccons _ h tl, .ccons sh st => inBounds h sh && inBounds tl st
  | .torus _ _, .ccons (.so2 a) (.ccons (.so2 b) .cnil) => so2InB a && so2InB b
  | .mobius imax _, .ccons (.so2 u) (.ccons (.rv [v]) .cnil) => so2InB u && rvInB [v] [-imax] [imax]
  | .klein, .ccons (.rv [u]) (.ccons (.so2 v) .cnil) => rvInB [u] [0] [Num.pi] && so2InB v
  | .sphere _, .ccons (.so2 a) (.ccons (.rv [p]) .cnil) => so2InB a && rvInB [p] [0] [Num.pi]
  | .wrap s, st => inBounds s st
  | _, _ => false

/-- RealVectorStateSpace::equalStates: `fabs(diff) > eps * 2 -> false` -/
def rvEq : List α → List α → Bool
  | x :: xs, y :: ys => !(decide (dblEps * 2 < Num.abs (x - y))) && rvEq xs ys
  | _, _ => true

def scalarEq (a b : α) : Bool := decide (Num.abs (a - b) < dblEps * 2)

def eqStates : Space α → St α → St α → Bool
  | .rv _ _, .rv xs, .rv ys => rvEq xs ys
  | .so2, .so2 a, .so2 b => scalarEq a b
  | .so3, .so3 x1 y1 z1 w1, .so3 x2 y2 z2 w2 => decide (arcLength x1 y1 z1 w1 x2 y2 z2 w2 < dblEps)
  | .time .., .time a, .time b => scalarEq a b
  | .disc .., .disc a, .disc b => a == b
  | .cnil, .cnil, .cnil => true
  | .ccons _ h tl, .ccons ah at', .ccons bh bt => eqStates h ah bh && eqStates tl at' bt
  | .torus _ _, .ccons (.so2 a1) (.ccons (.so2 a2) .cnil), .ccons (.so2 b1) (.ccons (.so2 b2) .cnil) =>
    scalarEq a1 b1 && scalarEq a2 b2
  | .mobius _ _, .ccons (.so2 u1) (.ccons (.rv [v1]) .cnil), .ccons (.so2 u2) (.ccons (.rv [v2]) .cnil) =>
    scalarEq u1 u2 && rvEq [v1] [v2]
  | .klein, .ccons (.rv [u1]) (.ccons (.so2 v1) .cnil), .ccons (.rv [u2]) (.ccons (.so2 v2) .cnil) =>
    rvEq [u1] [u2] && scalarEq v1 v2
  | .sphere _, .ccons (.so2 a1) (.ccons (.rv [a2]) .cnil), .ccons (.so2 b1) (.ccons (.rv [b2]) .cnil) =>
    scalarEq a1 b1 && rvEq [a2] [b2]
  | .wrap s, a, b => eqStates s a b
  | _, _, _ => false

/-! ### distances of the geodesic spaces (for `interp_dist_prop`; real-arithmetic shape) -/

def sqSum : List α → List α → α
  | x :: xs, y :: ys => (x - y) * (x - y) + sqSum xs ys
  | _, _ => 0

/-- SO2StateSpace::distance: `d = fabs(a - b); d > pi ? 2pi - d : d` -/
def so2Dist (a b : α) : α :=
  let d := Num.abs (a - b)
  if Num.pi < d then 2 * Num.pi - d else d

/-- distance for the spaces the proportionality clause lists: R^n, SO(2), SO(3) (as coded, with the
clamp), time, torus (`sqrt(x^2 + y^2)` of the two circle distances), weighted compounds, wrapper.
Other spaces (discrete, Mobius, Klein, sphere): `0` — `geodesic` says which spaces are meant. -/
def dist : Space α → St α → St α → α
  | .rv _ _, .rv xs, .rv ys => Num.sqrt (sqSum xs ys)
  | .so2, .so2 a, .so2 b => so2Dist a b
  | .so3, .so3 x1 y1 z1 w1, .so3 x2 y2 z2 w2 => arcLength x1 y1 z1 w1 x2 y2 z2 w2
  | .time .., .time a, .time b => Num.abs (a - b)
  | .ccons w h tl, .ccons ah at', .ccons bh bt => w * dist h ah bh + dist tl at' bt
  | .torus _ _, .ccons (.so2 a1) (.ccons (.so2 a2) .cnil), .ccons (.so2 b1) (.ccons (.so2 b2) .cnil) =>
    Num.sqrt (so2Dist a1 b1 * so2Dist a1 b1 + so2Dist a2 b2 * so2Dist a2 b2)
  | .wrap s, a, b => dist s a b
  | _, _, _ => 0

/-- spaces whose interpolation follows their own geodesic (property text): no discrete, Mobius,
Klein or sphere anywhere inside; `so3Ok = false` additionally excludes SO(3). -/
def geodesic (so3Ok : Bool) : Space α → Bool
  | .rv _ _ => true
  | .so2 => true
  | .so3 => so3Ok
  | .time .. => true
  | .cnil => true
  | .ccons _ h tl => geodesic so3Ok h && geodesic so3Ok tl
  | .torus _ _ => true
  | .wrap s => geodesic so3Ok s
  | _ => false

/-- no discrete component anywhere (re-parameterisation is demanded for these only) -/
def continuous : Space α → Bool
  | .disc .. => false
  | .ccons _ h tl => continuous h && continuous tl
  | .wrap s => continuous s
  | _ => true

/-! ### aliasing micro-model

A leaf `interpolate` body is abstracted to the ordered list of its accesses to *state fields*:
`rd src f` (read field `f` of `from`/`to`/`out`) and `wr f` (write field `f` of the output).
With the output aliased to an input, a write to `out.f` changes that input's `f`; the result can
differ from the un-aliased run only if the body later reads `f` from the aliased input.  `safe`
is that condition: after `wr f`, no `rd .from f` / `rd .to f` (a read of `out.f` after the write is
the body's own value and is mode-independent). -/
namespace Alias

inductive Src where
  | from | to | out
deriving DecidableEq, Repr

/-- fields are numbered (the generated file carries the name table) -/
inductive Acc where
  | rd (s : Src) (f : Nat)
  | wr (f : Nat)
deriving DecidableEq, Repr

def safeAux (written : List Nat) : List Acc → Bool
  | [] => true
  | .wr f :: rest => safeAux (f :: written) rest
  | .rd .out f :: rest => written.contains f && safeAux written rest
  | .rd _ f :: rest => !written.contains f && safeAux written rest

/-- no input field is read after the same-named output field was written, and an output field is only
read back after the body wrote it (otherwise a distinct output would be read uninitialised while an
aliased one holds the input's value) -/
def safe (body : List Acc) : Bool := safeAux [] body

/-- a symbolic value: the list of original input cells `(0 = from | 1 = to, field)` it depends on -/
abbrev Val := List (Nat × Nat)

/-- memory of the three alias modes: a field store per object; `mode` tells which input object the
output is (0 = distinct, 1 = from, 2 = to).  A write stores everything read so far (the data
dependence), so two runs agree iff every write saw the same reads. -/
structure Mem where
  frm : Nat → Val
  to : Nat → Val
  out : Nat → Val

def Mem.read (m : Mem) (mode : Nat) : Src → Nat → Val
  | .from, f => if mode = 1 then m.out f else m.frm f
  | .to, f => if mode = 2 then m.out f else m.to f
  | .out, f => m.out f

def exec (mode : Nat) : Mem → Val → List Acc → Mem
  | m, _, [] => m
  | m, seen, .rd s f :: rest => exec mode m (seen ++ m.read mode s f) rest
  | m, seen, .wr f :: rest =>
    exec mode { m with out := fun g => if g = f then seen else m.out g } seen rest

/-- initial memory: inputs hold their own cells; an aliased output *is* the input it aliases, a
distinct output starts empty. -/
def initMem (mode : Nat) : Mem :=
  { frm := fun f => [(0, f)], to := fun f => [(1, f)],
    out := fun f => if mode = 1 then [(0, f)] else if mode = 2 then [(1, f)] else [] }

def writes : List Acc → List Nat
  | [] => []
  | .wr f :: rest => f :: writes rest
  | _ :: rest => writes rest

/-- the values of the written output fields after running `body` in the given alias mode -/
def run (mode : Nat) (body : List Acc) : List Val :=
  let m := exec mode (initMem mode) [] body
  (writes body).map m.out

/-- executable statement of the aliasing clause for one body: the three modes write the same values -/
def modesAgree (body : List Acc) : Bool :=
  run 0 body == run 1 body && run 0 body == run 2 body

end Alias

end OmplModel.SpaceInterp
