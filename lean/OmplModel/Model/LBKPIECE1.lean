import OmplModel.Model.Discretization
import OmplModel.Model.PlannerReport
/-
Executable model of `ompl::geometric::LBKPIECE1::solve` (src/ompl/geometric/planners/kpiece/src/LBKPIECE1.cpp): the lazy
bidirectional KPIECE, on top of the `Discretization` model -- the planner that uses `Discretization::removeMotion`.
Core Lean only: linked into the native driver `drv_lbkpiece`.

All motions of both trees live in one arena (`Array (Motion S)`) in order of creation; `Motion*` is the arena index and
the motion id handed to `dStart_` / `dGoal_`.  A freed motion stays in the arena with `alive = false` (ghost flag, set
when the motion leaves its discretization) and its index is appended to `freed` when `freeMotion` runs (post-order, as
the recursion of `removeMotion` frees).

ONE loop iteration consumes one scripted `Draw`: the two draws of `disc.selectMotion` (`u`, `pick`), the state returned
by `sampler_->sampleUniformNear` (`nearSample`), and the planner's `rng_.uniformInt(0, n-1)` for the connection
candidate (`connPick n`).  The termination condition is the length of the script (`while (!ptc)` once per iteration).
Every space / environment operation is an oracle in `Cfg`: `bounds`/`valid` (input filter of start and goal states),
`coord` (projection + `computeCoordinates`), the three-argument `checkMotion(a, b, lastValid)` answering
(result, lastValid.first, lastValid.second), `pairValid` (`isStartGoalPairValid`), `goalSample k` (the `k`-th
`sampleGoal`) and `maxGoalSamples`.

What mirrors the code: tree alternation (`disc = startTree ? dStart_ : dGoal_; startTree = !startTree`),
`countIteration`, the goal-sampling test (`dGoal_` empty or `sampledGoalsCount < dGoal_.getMotionCount() / 2`),
`selectMotion`, the new motion added WITHOUT validation (`valid = false`), the connection test through the other tree's
grid cell at the new motion's coordinate, the `connect` motion (copy of `connectOther->state`, child of the new motion),
`isPathValid(disc, connect) && isPathValid(otherDisc, connectOther)` (root-to-leaf walk, `checkMotion` on every edge
whose child is not yet `valid`; on failure `removeMotion` of that motion with its whole subtree, then the `reAdd` of
`lastValid.first` under the same parent with `valid = true` if `lastValid.second > minValidPathFraction_`), the path
assembly (`mpath1.swap(mpath2)` when the expanded tree is the goal tree), `addSolutionPath(path, false, 0.0)`;
`removeMotion`: `disc.removeMotion(motion, coord)`, erase from the parent's `children`, then for each child
`child->parent = nullptr; removeMotion(disc, child)`, then `freeMotion`.  (`child->parent = nullptr` only makes the recursive
call skip the erase from the list being iterated -- the model's `detach = false`; the child is freed before anything
reads the field again, so the model leaves the parent index of a dead motion alone: parent indices never change.)

Abstractions (checked by the lock-step correspondence): states are values; `pis_.nextGoal(ptc)` (goal tree still
empty) keeps sampling until a sample passes the input filter or the samples are exhausted -- the termination condition
is taken not to fire in between (the code then *waits* for it and ends with INVALID_GOAL); `pis_.nextGoal()` makes one
attempt; `removeSubtree` and the root walk carry a fuel argument (`arena size + 1` always suffices: parents precede
children in the arena).
-/
namespace OmplModel.LBKPIECE1
open OmplModel OmplModel.Grid OmplModel.Disc OmplModel.PlannerReport

structure Cfg (S α : Type) where
  P : Params α
  borderFraction : α
  bounds : S → Bool
  valid : S → Bool
  coord : S → Coord
  minValidFrac : α
  /-- `si_->checkMotion(a, b, lastValid)`: (result, lastValid.first, lastValid.second) -/
  checkMotion : S → S → Bool × S × α
  /-- `goal->isStartGoalPairValid(startRoot, goalRoot)` -/
  pairValid : S → S → Bool
  goalSample : Nat → S
  maxGoalSamples : Nat

structure Motion (S : Type) where
  state : S
  parent : Option Nat
  root : S
  valid : Bool
  children : List Nat
  /-- which tree (`true` = start tree) -/
  inStart : Bool
  alive : Bool := true

structure Draw (S α : Type) where
  u : α
  pick : Nat → Nat
  nearSample : S
  connPick : Nat → Nat

structure St (S α : Type) where
  ar : Array (Motion S) := #[]
  dS : Disc α
  dG : Disc α
  sampledGoals : Nat := 0
  startTree : Bool := true
  freed : List Nat := []
  /-- the path handed to `addSolutionPath`, once solved -/
  solved : Option (List S) := none
  invalidGoal : Bool := false

variable {S α : Type} [Num α] [HasLog α]

def St.disc (st : St S α) (inStart : Bool) : Disc α := if inStart then st.dS else st.dG
def St.setDisc (st : St S α) (inStart : Bool) (d : Disc α) : St S α :=
  if inStart then { st with dS := d } else { st with dG := d }

def modifyAt (ar : Array (Motion S)) (i : Nat) (f : Motion S → Motion S) : Array (Motion S) :=
  match ar[i]? with
  | some m => ar.setIfInBounds i (f m)
  | none => ar

/-- `new Motion`, fields set, `disc.addMotion(motion, coord(state))` (default `dist = 0.0`) -/
def addMotion (cfg : Cfg S α) (st : St S α) (m : Motion S) : St S α :=
  let id := st.ar.size
  let st1 := { st with ar := st.ar.push m }
  let st2 := match m.parent with
    | some p => { st1 with ar := modifyAt st1.ar p (fun pm => { pm with children := pm.children ++ [id] }) }
    | none => st1
  st2.setDisc m.inStart (add cfg.P (st2.disc m.inStart) id (cfg.coord m.state) (Num.ofNat 0)).1

/-- ghost: the motion has left its discretization -/
def markDead (st : St S α) (i : Nat) : St S α :=
  { st with ar := modifyAt st.ar i (fun x => { x with alive := false }) }

/-- "remove self from parent list" -/
def detachFrom (st : St S α) (p i : Nat) : St S α :=
  { st with ar := modifyAt st.ar p (fun pm => { pm with children := pm.children.erase i }) }

/-- `freeMotion(motion)` as an event -/
def freeMotion (st : St S α) (i : Nat) : St S α := { st with freed := st.freed ++ [i] }

/-- `LBKPIECE1::removeMotion(disc, motion)` (`detach = false` in the recursion, where the code has set
`child->parent = nullptr` so that the child does not edit the list being iterated) -/
def removeSubtree (cfg : Cfg S α) (inStart : Bool) : Nat → Nat → Bool → St S α → St S α
  | 0, _, _, st => st
  | fuel + 1, i, detach, st =>
    match st.ar[i]? with
    | none => st
    | some m =>
      -- remove from grid
      let st1 := markDead (st.setDisc inStart (remove cfg.P (st.disc inStart) i (cfg.coord m.state)).1) i
      -- remove self from parent list
      let st2 := match (if detach then m.parent else none) with
        | some p => detachFrom st1 p i
        | none => st1
      -- remove children
      let st3 := m.children.foldl (fun s c => removeSubtree cfg inStart fuel c false s) st2
      freeMotion st3 i

/-- `while (motion != nullptr) { mpath.push_back(motion); motion = motion->parent; }`: ids from `i` up to its root -/
def chainUp (ar : Array (Motion S)) : Nat → Nat → List Nat
  | 0, _ => []
  | fuel + 1, i =>
    match ar[i]? with
    | none => []
    | some m =>
      match m.parent with
      | none => [i]
      | some p => i :: chainUp ar fuel p

/-- the loop of `isPathValid` over `mpath` from the root side; `ids` is root first -/
def validateFrom (cfg : Cfg S α) (inStart : Bool) : List Nat → St S α → Bool × St S α
  | [], st => (true, st)
  | i :: rest, st =>
    match st.ar[i]? with
    | none => validateFrom cfg inStart rest st           -- unreachable: the ids come from the arena
    | some m =>
      if m.valid then validateFrom cfg inStart rest st
      else
        match m.parent.bind (fun p => st.ar[p]?.map (fun pm => (p, pm))) with
        | none => validateFrom cfg inStart rest st      -- a root is always `valid`: unreachable
        | some (p, pm) =>
          let r := cfg.checkMotion pm.state m.state
          if r.1 then
            validateFrom cfg inStart rest { st with ar := modifyAt st.ar i (fun x => { x with valid := true }) }
          else
            let st1 := removeSubtree cfg inStart (st.ar.size + 1) i true st
            -- add the valid part of the path, if sufficiently long
            if cfg.minValidFrac < r.2.2 then
              (false, addMotion cfg st1 { state := r.2.1, parent := some p, root := pm.root, valid := true, children := [],
                                          inStart := inStart })
            else (false, st1)

/-- `isPathValid(disc, motion, temp)` -/
def isPathValid (cfg : Cfg S α) (inStart : Bool) (i : Nat) (st : St S α) : Bool × St S α :=
  validateFrom cfg inStart (chainUp st.ar (st.ar.size + 1) i).reverse st

/-- `pis_.nextGoal()`: one attempt -/
def nextGoalPlain (cfg : Cfg S α) (count : Nat) : Option S × Nat :=
  if count < cfg.maxGoalSamples then
    let s := cfg.goalSample count
    (if inputOk cfg.bounds cfg.valid s then some s else none, count + 1)
  else (none, count)

/-- `pis_.nextGoal(ptc)` while the goal tree is empty: attempts until one passes or the samples are exhausted -/
def nextGoalWait (cfg : Cfg S α) : Nat → Nat → Option S × Nat
  | 0, count => (none, count)
  | fuel + 1, count =>
    if count < cfg.maxGoalSamples then
      let s := cfg.goalSample count
      if inputOk cfg.bounds cfg.valid s then (some s, count + 1) else nextGoalWait cfg fuel (count + 1)
    else (none, count)

/-- what an iteration did (for the driver's output and its random streams) -/
structure Info where
  usedStart : Bool := true
  goalAdded : Bool := false
  sel : Option Nat := none
  connTried : Bool := false
  connectOther : Option Nat := none
  ok1 : Option Bool := none
  ok2 : Option Bool := none

/-- the goal-sampling block at the head of an iteration; also answers whether it was entered -/
def goalPhase (cfg : Cfg S α) (st : St S α) : St S α × Bool :=
  let needGoal := st.dG.size == 0 || decide (st.sampledGoals < st.dG.size / 2)
  let g := if needGoal then
      (if st.dG.size == 0 then nextGoalWait cfg (cfg.maxGoalSamples + 1) st.sampledGoals
       else nextGoalPlain cfg st.sampledGoals)
    else (none, st.sampledGoals)
  let st1 := { st with sampledGoals := g.2 }
  (match g.1 with
    | some s => addMotion cfg st1 { state := s, parent := none, root := s, valid := true, children := [], inStart := false }
    | none => st1, needGoal)

/-- the states from motion `i` up to its root (`mpath`) -/
def chainStates (ar : Array (Motion S)) (i : Nat) : List S :=
  (chainUp ar (ar.size + 1) i).filterMap (fun j => ar[j]?.map (·.state))

/-- the reported path: `id` is the new motion of the expanded tree, `co` the motion of the other tree;
`if (startTree) mpath1.swap(mpath2)` (there `startTree` has already been flipped); start-tree chain reversed (root
first), then the goal-tree chain (leaf first) -/
def pathOf (useStart : Bool) (ar : Array (Motion S)) (id co : Nat) : List S :=
  if useStart then (chainStates ar id).reverse ++ chainStates ar co
  else (chainStates ar co).reverse ++ chainStates ar id

/-- "attempt to connect trees": `id` is the new motion (state `x`, expanded from `existing`) -/
def tryConnect (cfg : Cfg S α) (useStart : Bool) (st : St S α) (id : Nat) (existing : Motion S) (x : S)
    (dr : Draw S α) (info : Info) : St S α × Info :=
  match lookup (st.disc (!useStart)).cdata (cfg.coord x) with
  | none => (st, info)
  | some ocd =>
    if ocd.motions.isEmpty then (st, info) else
    let info := { info with connTried := true }
    match ocd.motions[dr.connPick ocd.motions.length]? with
    | none => (st, info)                              -- index out of range: excluded by `uniformInt`'s contract
    | some co =>
      match st.ar[co]? with
      | none => (st, info)                            -- unreachable
      | some cm =>
        let info := { info with connectOther := some co }
        let startRoot := if useStart then existing.root else cm.root
        let goalRoot := if useStart then cm.root else existing.root
        if cfg.pairValid startRoot goalRoot then
          let cid := st.ar.size
          let st := addMotion cfg st { state := cm.state, parent := some id, root := existing.root, valid := false,
                                       children := [], inStart := useStart }
          let r1 := isPathValid cfg useStart cid st
          let info := { info with ok1 := some r1.1 }
          if r1.1 then
            let r2 := isPathValid cfg (!useStart) co r1.2
            let info := { info with ok2 := some r2.1 }
            if r2.1 then
              ({ r2.2 with solved := some (pathOf useStart r2.2.ar id co) }, info)
            else (r2.2, info)
          else (r1.2, info)
        else (st, info)

/-- one iteration of the `while (!ptc)` loop -/
def step (cfg : Cfg S α) (st0 : St S α) (dr : Draw S α) : St S α × Info :=
  let useStart := st0.startTree
  let st := { st0 with startTree := !st0.startTree }
  let st := st.setDisc useStart (countIteration (st.disc useStart))
  let gp := goalPhase cfg st
  let info : Info := { usedStart := useStart, goalAdded := gp.1.ar.size != st.ar.size }
  if gp.2 && gp.1.dG.size == 0 then ({ gp.1 with invalidGoal := true }, info)
  else
    let sel := select cfg.P (gp.1.disc useStart) dr.u dr.pick
    let st := gp.1.setDisc useStart sel.1
    match sel.2 with
    | none => (st, info)                                    -- unreachable
    | some (e, _) =>
      match st.ar[e]? with
      | none => (st, info)                                  -- unreachable
      | some existing =>
        let x := dr.nearSample
        let id := st.ar.size
        let st := addMotion cfg st { state := x, parent := some e, root := existing.root, valid := false, children := [],
                                     inStart := useStart }
        tryConnect cfg useStart st id existing x dr { info with sel := some e }

/-- the loop: stops at a solution or INVALID_GOAL (`break`) or when the script runs out -/
def loop (cfg : Cfg S α) : St S α → List (Draw S α) → St S α × List (Draw S α)
  | st, [] => (st, [])
  | st, dr :: rest =>
    let st' := (step cfg st dr).1
    if st'.solved.isSome || st'.invalidGoal then (st', rest) else loop cfg st' rest

/-- `while (st = pis_.nextStart()) { …; motion->valid = true; dStart_.addMotion(motion, coord); }` -/
def addStarts (cfg : Cfg S α) : List S → St S α → St S α
  | [], st => st
  | s :: rest, st =>
    addStarts cfg rest
      (addMotion cfg st { state := s, parent := none, root := s, valid := true, children := [], inStart := true })

def initState (cfg : Cfg S α) (starts : Array S) : St S α × Pis :=
  let r := drainStarts cfg.bounds cfg.valid starts (starts.size + 1) {}
  (addStarts cfg (r.1.map (·.2)) { dS := { bf := cfg.borderFraction }, dG := { bf := cfg.borderFraction } }, r.2)

structure Report (S α : Type) where
  status : Status
  /-- the path handed to `pdef_->addSolutionPath(path, false, 0.0, name)`, if called -/
  added : Option (List S)
  final : St S α
  unusedDraws : Nat

/-- `LBKPIECE1::solve` (`goal->couldSample()` is `0 < maxGoalSamples`) -/
def solve (cfg : Cfg S α) (starts : Array S) (script : List (Draw S α)) : Report S α :=
  let init := initState cfg starts
  if init.1.dS.size = 0 then ⟨.invalidStart, none, init.1, script.length⟩
  else if cfg.maxGoalSamples = 0 then ⟨.invalidGoal, none, init.1, script.length⟩
  else
    let r := loop cfg init.1 script
    match r.1.solved with
    | some path => ⟨.exactSolution, some path, r.1, r.2.length⟩
    | none => ⟨if r.1.invalidGoal then .invalidGoal else .timeout, none, r.1, r.2.length⟩

end OmplModel.LBKPIECE1
