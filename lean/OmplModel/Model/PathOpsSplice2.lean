/-
Model of the two remaining in-place path splices of
  src/ompl/geometric/src/PathSimplifier.cpp
    * findBetterGoal  : the block after `isCostBetterThan(candidateCost, costs.back()) &&
                        si_->checkMotion(state, tempGoal)` succeeded ("insert the new states",
                        `if (startIndex == endIndex) {…} else {… if (endIndex == states.size() - 1) …}`)
    * perturbPath     : the block "Modify the path with the new state" (nine cases over
                        `index_before`, `index_after`, `pos_before`, `pos_after`)

Core Lean only (no Mathlib).  Same conventions as `OmplModel.Model.PathOps` (`psSplice`):

* a path is a `List σ` over an abstract state type `σ`; `copyState(states[k], x)` is `setChk`,
  `states.insert(begin + k, cloneState(x))` is `insertChk`, `states.erase(begin + a, begin + b)` is
  `eraseChk` (`states.end()` = `begin + size`), `path.append(g)` is `st ++ [g]`;
* indexing is CHECKED: `none` as soon as the C++ statement would index the vector outside
  `[0, size)`, insert at a position `> size`, or erase an iterator range with `first > last` or
  `last > size` (undefined behaviour);
* the C++ statement ORDER inside each case is kept (several inserts at the same position are
  order-sensitive; `size` is read when the statement executes).

What is abstracted (NOT modelled here)
* how the indices and states are chosen: sampling, `lower_bound`/snap logic, `selectAlongPath`,
  interpolation, the cost test and `checkMotion` itself.  They are INPUTS: `state`/`goal`, resp.
  `before`/`new`/`after`, are the states that were validated (`checkMotion(state, tempGoal)`, resp.
  `checkMotion(before_state, new_state) && checkMotion(new_state, after_state)`), and the index
  arguments are what the selection code computed.  The in-range facts that selection establishes are
  hypotheses of the theorems in `OmplModel.Proofs.PathOpsSplice2` (each with the place in the code
  it comes from);
* memory: `cloneState` is the value, the `if (freeStates_) for (…) freeState(states[j])` loops (they
  run over exactly the index range of the `erase` that follows) are dropped;
* the helper-variable repair (`dists`, `costs`, `distCostIndices`, `threshold`) after the splice;
* the C++ positions are `int` (perturbPath) / `unsigned int` (findBetterGoal); here `Nat`:
  `selectAlongPath` only ever produces `pos ≥ 0`, and `index` is `pos` or `-1`, which is the `Bool`.
-/
import OmplModel.Model.PathOps

namespace OmplModel.PathOps

variable {σ : Type}

/-! ## findBetterGoal: "insert the new states"

`startIndex == endIndex`: the sampled point was snapped to the vertex `states[startIndex]`; in the
code `state` IS `states[startIndex]` then (the first `copyState(states[startIndex], state)` is a
self-copy).  Otherwise `endIndex = startIndex + 1` and `state` is the interpolated point strictly
inside that segment.  `goal` = `tempGoal`. -/
def bgSplice (st : List σ) (startIndex endIndex : Nat) (state goal : σ) : Option (List σ) :=
  if startIndex = endIndex then
    -- copyState(states[startIndex], state);  copyState(states[startIndex + 1], tempGoal);
    -- states.erase(states.begin() + startIndex + 2, states.end());
    (setChk st startIndex state).bind fun st => (setChk st (startIndex + 1) goal).bind fun st =>
      eraseChk st (startIndex + 2) st.length
  else
    -- copyState(states[endIndex], state);
    (setChk st endIndex state).bind fun st =>
      if endIndex = st.length - 1 then
        -- path.append(tempGoal);
        some (st ++ [goal])
      else
        -- copyState(states[endIndex + 1], tempGoal);
        -- states.erase(states.begin() + endIndex + 2, states.end());
        (setChk st (endIndex + 1) goal).bind fun st => eraseChk st (endIndex + 2) st.length

/-! ## perturbPath: "Modify the path with the new state"

`idx = true` means `index == pos` (`index ≥ 0`): the point was snapped to the vertex `states[pos]`
(then `before`, resp. `after`, is a copy of that vertex and is not written into the path);
`idx = false` means `index = -1`: the point (`before`, resp. `after`) is strictly inside the segment
`(pos, pos + 1)`.  `B` = before, `A` = after. -/
def ppSplice (st : List σ) (posB : Nat) (idxB : Bool) (posA : Nat) (idxA : Bool)
    (before new after : σ) : Option (List σ) :=
  match idxB, idxA with
  | false, false =>
    -- if (index_before < 0 && index_after < 0)
    if posB = posA then
      -- insert(begin + pos_before + 1, after); insert(begin + pos_before + 1, new);
      -- insert(begin + pos_before + 1, before)
      (insertChk st (posB + 1) after).bind fun st => (insertChk st (posB + 1) new).bind fun st =>
        insertChk st (posB + 1) before
    else if posB + 1 = posA then
      -- copyState(states[pos_after], before); insert(begin + pos_after + 1, after);
      -- insert(begin + pos_after + 1, new)
      (setChk st posA before).bind fun st => (insertChk st (posA + 1) after).bind fun st =>
        insertChk st (posA + 1) new
    else if posB + 2 = posA then
      -- copyState(states[pos_before + 1], before); copyState(states[pos_after], new);
      -- insert(begin + pos_after + 1, after)
      (setChk st (posB + 1) before).bind fun st => (setChk st posA new).bind fun st =>
        insertChk st (posA + 1) after
    else
      -- copyState(states[pos_before + 1], before); copyState(states[pos_before + 2], new);
      -- copyState(states[pos_before + 3], after); erase(begin + pos_before + 4, begin + pos_after + 1)
      (setChk st (posB + 1) before).bind fun st => (setChk st (posB + 2) new).bind fun st =>
        (setChk st (posB + 3) after).bind fun st => eraseChk st (posB + 4) (posA + 1)
  | true, true =>
    -- else if (index_before >= 0 && index_after >= 0)
    -- insert(begin + index_before + 1, new); erase(begin + index_before + 2, begin + index_after + 1)
    (insertChk st (posB + 1) new).bind fun st => eraseChk st (posB + 2) (posA + 1)
  | false, true =>
    -- else if (index_before < 0 && index_after >= 0)
    if posA > posB + 1 then
      -- copyState(states[pos_before + 1], before); insert(begin + pos_before + 2, new);
      -- erase(begin + pos_before + 3, begin + index_after + 1)
      (setChk st (posB + 1) before).bind fun st => (insertChk st (posB + 2) new).bind fun st =>
        eraseChk st (posB + 3) (posA + 1)
    else
      -- insert(begin + pos_before + 1, new); insert(begin + pos_before + 1, before)
      (insertChk st (posB + 1) new).bind fun st => insertChk st (posB + 1) before
  | true, false =>
    -- else if (index_before >= 0 && index_after < 0)
    if posA > posB then
      -- copyState(states[pos_after], new); insert(begin + pos_after + 1, after);
      -- erase(begin + index_before + 1, begin + pos_after)
      (setChk st posA new).bind fun st => (insertChk st (posA + 1) after).bind fun st =>
        eraseChk st (posB + 1) posA
    else
      -- insert(begin + index_before + 1, after); insert(begin + index_before + 1, new)
      (insertChk st (posB + 1) after).bind fun st => insertChk st (posB + 1) new

end OmplModel.PathOps
