import OmplModel.Driver.NN
open OmplModel.Driver in
def main : IO UInt32 := runEngine NNDrv.init NNDrv.step
