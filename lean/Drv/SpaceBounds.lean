import OmplModel.Driver.SpaceBounds
open OmplModel.Driver

def main : IO UInt32 := runEngine SpaceBoundsDrv.init SpaceBoundsDrv.step
