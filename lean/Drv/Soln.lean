import OmplModel.Driver.Soln
def main : IO UInt32 := OmplModel.Driver.runEngine OmplModel.Driver.SolnDrv.init OmplModel.Driver.SolnDrv.step
