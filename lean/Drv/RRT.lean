import OmplModel.Driver.RRT
def main : IO UInt32 := OmplModel.Driver.runEngine OmplModel.Driver.RRTDrv.init OmplModel.Driver.RRTDrv.step
