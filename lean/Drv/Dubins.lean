import OmplModel.Driver.Dubins
def main : IO UInt32 := OmplModel.Driver.runEngine OmplModel.Driver.DubinsDrv.init OmplModel.Driver.DubinsDrv.step
