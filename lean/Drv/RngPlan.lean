import OmplModel.Driver.RngPlan
open OmplModel.Driver
def main : IO UInt32 := runEngine RngPlanDrv.init RngPlanDrv.step
