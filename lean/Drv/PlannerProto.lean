import OmplModel.Driver.PlannerProto
open OmplModel.Driver
def main : IO UInt32 := runEngine PlannerProtoDrv.init PlannerProtoDrv.step
