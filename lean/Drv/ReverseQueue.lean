import OmplModel.Driver.ReverseQueue
def main : IO UInt32 := OmplModel.Driver.runEngine OmplModel.Driver.RevQDrv.init OmplModel.Driver.RevQDrv.step
