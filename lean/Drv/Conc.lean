import OmplModel.Driver.Conc
def main : IO UInt32 := OmplModel.Driver.runEngine OmplModel.Driver.ConcDrv.init OmplModel.Driver.ConcDrv.step
