import OmplModel.Driver.KPIECE1
open OmplModel.Driver
def main : IO UInt32 := runEngine KpieceDrv.init KpieceDrv.step
