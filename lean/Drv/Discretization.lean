import OmplModel.Driver.Discretization
open OmplModel.Driver
def main : IO UInt32 := runEngine DiscDrv.init DiscDrv.step
