import OmplModel.Driver.Copy
open OmplModel.Driver
def main : IO UInt32 := runEngine CopyDrv.init CopyDrv.step
