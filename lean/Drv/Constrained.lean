import OmplModel.Driver.Constrained
def main : IO UInt32 := OmplModel.Driver.runEngine OmplModel.Driver.ConstrainedDrv.init OmplModel.Driver.ConstrainedDrv.step
