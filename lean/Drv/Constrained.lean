import OmplModel.Driver.ConstrainedAtlas
def main : IO UInt32 := OmplModel.Driver.runEngine OmplModel.Driver.ConstrainedDrv.initA OmplModel.Driver.ConstrainedDrv.stepA
