import OmplModel.Driver.Ptc
def main : IO UInt32 := OmplModel.Driver.runEngine OmplModel.Driver.PtcDrv.init OmplModel.Driver.PtcDrv.step
