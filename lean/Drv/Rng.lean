import OmplModel.Driver.Rng
open OmplModel.Driver
def main : IO UInt32 := runEngine RngDrv.init RngDrv.step
