import OmplModel.Driver.EST
def main : IO UInt32 := OmplModel.Driver.runEngine OmplModel.Driver.ESTDrv.init OmplModel.Driver.ESTDrv.step
