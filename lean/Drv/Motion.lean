import OmplModel.Driver.Motion
def main : IO UInt32 := OmplModel.Driver.runEngine OmplModel.Driver.MotionDrv.init OmplModel.Driver.MotionDrv.step
