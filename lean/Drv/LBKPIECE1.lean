import OmplModel.Driver.LBKPIECE1
open OmplModel.Driver
def main : IO UInt32 := runEngine LbkDrv.init LbkDrv.step
