import OmplModel.Driver.Control
open OmplModel.Driver OmplModel.Driver.ControlDrv
def main : IO UInt32 := runEngine init step
