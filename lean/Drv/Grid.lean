import OmplModel.Driver.Grid
open OmplModel.Driver
def main : IO UInt32 := runEngine GridDrv.init GridDrv.step
