import OmplModel.Driver.GridN
open OmplModel.Driver
def main : IO UInt32 := runEngine GridNDrv.init GridNDrv.step
