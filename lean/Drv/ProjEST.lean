import OmplModel.Driver.ProjEST
def main : IO UInt32 := OmplModel.Driver.runEngine OmplModel.Driver.ProjESTDrv.init OmplModel.Driver.ProjESTDrv.step
