import OmplModel.Driver.PathOps
open OmplModel.Driver OmplModel.Driver.PathOpsDrv
def main : IO UInt32 := runEngine init step
