import OmplModel.Driver.Phs
def main : IO UInt32 := OmplModel.Driver.runEngine OmplModel.Driver.PhsDrv.init OmplModel.Driver.PhsDrv.step
