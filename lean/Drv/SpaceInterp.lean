import OmplModel.Driver.SpaceInterp
def main : IO UInt32 := OmplModel.Driver.runEngine OmplModel.Driver.SpaceInterpDrv.init OmplModel.Driver.SpaceInterpDrv.step
