import OmplModel.Driver.SpaceDist
open OmplModel.Driver OmplModel.Driver.SpaceDistDrv
def main : IO UInt32 := runEngine init step
