import OmplModel.Driver.LazyPRM
def main : IO UInt32 := OmplModel.Driver.runEngine OmplModel.Driver.LazyPRMDrv.init OmplModel.Driver.LazyPRMDrv.step
