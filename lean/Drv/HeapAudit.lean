import OmplModel.Driver.HeapAudit
def main : IO UInt32 := OmplModel.Driver.runEngine OmplModel.Driver.HeapAuditDrv.init OmplModel.Driver.HeapAuditDrv.step
