import OmplModel.Driver.Heap
def main : IO UInt32 := OmplModel.Driver.runEngine OmplModel.Driver.HeapDrv.init OmplModel.Driver.HeapDrv.step
