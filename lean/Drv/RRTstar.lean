import OmplModel.Driver.RRTstar
def main : IO UInt32 := OmplModel.Driver.runEngine OmplModel.Driver.RRTstarDrv.init OmplModel.Driver.RRTstarDrv.step
