import OmplModel.Driver.Pdf
def main : IO UInt32 := OmplModel.Driver.runEngine OmplModel.Driver.PdfDrv.init OmplModel.Driver.PdfDrv.step
