import OmplModel.Props.C03
#print axioms OmplModel.Props.C03.solve_status_truthful
#print axioms OmplModel.Props.C03.solve_path_nonempty
#print axioms OmplModel.Props.C03.solve_never_empty_path
#print axioms OmplModel.Props.C03.lastGoalMotion_never_dangles
#print axioms OmplModel.Props.C03.setProblemDefinition_keeps_core
#print axioms OmplModel.Props.C03.resume_monotone
#print axioms OmplModel.Props.C03.clear_forgets
#print axioms OmplModel.Props.C03.resume_no_duplicate_starts
#print axioms OmplModel.Props.C03.alloc_balanced
#print axioms OmplModel.Props.C03.alloc_balanced_after_clear
#print axioms OmplModel.Props.C03.rrt_core_lawful
#print axioms OmplModel.Props.C03.crrt_core_lawful
#print axioms OmplModel.Props.C03.alloc_balanced_control
#print axioms OmplModel.Props.C03.alloc_balanced_control_after_clear
#print axioms OmplModel.Props.C03.clearQuery_forgets_query_keeps_roadmap
#print axioms OmplModel.Props.C03.setProblemDefinition_rereads_query
