import OmplModel.Props.C06
#print axioms OmplModel.C06.claims_covered
