import OmplModel.Props.C04
#print axioms OmplModel.Props.C04.isSatisfied_iff
