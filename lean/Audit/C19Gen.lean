import OmplModel.Generated.SharedAccess
#print axioms OmplModel.Generated.SharedAccess.plain_members
#print axioms OmplModel.Generated.SharedAccess.surface_no_plain
#print axioms OmplModel.Generated.SharedAccess.surface_counters_exact
#print axioms OmplModel.Generated.SharedAccess.surface_adds_linearizable
#print axioms OmplModel.Generated.SharedAccess.surface_add_clear_linearizable
#print axioms OmplModel.Generated.SharedAccess.surface_seeds_distinct
#print axioms OmplModel.Generated.SharedAccess.planner_fields_guarded
