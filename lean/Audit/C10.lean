import OmplModel.Props.C10
#print axioms OmplModel.NN.linStep_clear
