import OmplModel.Props.C10
#print axioms OmplModel.NN.linear_exact
#print axioms OmplModel.NN.linear_nearestK_dists
#print axioms OmplModel.NN.linear_size_list_abs
#print axioms OmplModel.NN.linear_remove_result
#print axioms OmplModel.NN.sqrt_member
#print axioms OmplModel.NN.sqrt_size_list_abs
#print axioms OmplModel.NN.gnat_child_orders_are_permutations
#print axioms OmplModel.NN.nearestK_exact
#print axioms OmplModel.NN.nearestR_exact
#print axioms OmplModel.NN.nearest_exact
#print axioms OmplModel.NN.kcenters_relation
#print axioms OmplModel.NN.split_establishes_inv
#print axioms OmplModel.NN.add_preserves_inv
#print axioms OmplModel.NN.rebuild_abs
#print axioms OmplModel.NN.remove_preserves_inv
#print axioms OmplModel.NN.gnat_size_list_abs
#print axioms OmplModel.NN.gnat_history_queries_exact
