import OmplModel.Props.C10
#print axioms OmplModel.NN.linear_exact
#print axioms OmplModel.NN.linear_nearestK_dists
#print axioms OmplModel.NN.linear_size_list_abs
#print axioms OmplModel.NN.linear_remove_result
#print axioms OmplModel.NN.sqrt_member
#print axioms OmplModel.NN.sqrt_size_list_abs
#print axioms OmplModel.NN.gnat_inv_descends_partial
#print axioms OmplModel.NN.gnat_sibling_prune_sound_partial
#print axioms OmplModel.NN.gnat_radius_prune_sound_partial
#print axioms OmplModel.NN.gnat_leaf_scanR_exact_partial
