import OmplModel.Props.C12
#print axioms OmplModel.Props.C12.clear_size
