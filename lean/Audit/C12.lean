import OmplModel.Props.C12
#print axioms OmplModel.Props.C12.shape_preserved
#print axioms OmplModel.Props.C12.idx_sync_preserved
#print axioms OmplModel.Props.C12.handles_exact
#print axioms OmplModel.Props.C12.sample_inbounds_of_shape
#print axioms OmplModel.Props.C12.sample_inbounds
#print axioms OmplModel.Props.C12.getWeight_reads_leaf
#print axioms OmplModel.Props.C12.refines_assoc
#print axioms OmplModel.Props.C12.driftState_shape
#print axioms OmplModel.Props.C12.sampleOld_oob_of_drift
#print axioms OmplModel.Props.C12.sample_fixed_on_drift
#print axioms OmplModel.Props.C12.sum_preserved
#print axioms OmplModel.Props.C12.reachable_inv
#print axioms OmplModel.Props.C12.sample_spec
#print axioms OmplModel.Props.C12.zero_weight_never_drawn
