import OmplModel.Props.C11
#print axioms OmplModel.Props.C11.clear_empty
