import OmplModel.Props.C11
#print axioms OmplModel.Props.C11.reachable_inv
#print axioms OmplModel.Props.C11.top_is_min
#print axioms OmplModel.Props.C11.popAll_sorted_perm
#print axioms OmplModel.Props.C11.pop_removes_a_minimum
#print axioms OmplModel.Props.C11.insert_adds
#print axioms OmplModel.Props.C11.remove_live_handle
#print axioms OmplModel.Props.C11.remove_dead_handle
#print axioms OmplModel.Props.C11.update_changes_only_that_key
#print axioms OmplModel.Props.C11.handle_names_one_element
#print axioms OmplModel.Props.C11.build_establishes
#print axioms OmplModel.Props.C11.sort_correct
#print axioms OmplModel.Props.C11.percolateUp_as_coded
#print axioms OmplModel.Props.C11.percolateDown_as_coded
#print axioms OmplModel.Props.C11.ltNat_swo
#print axioms OmplModel.Props.C11.f1Heap_ok
#print axioms OmplModel.Props.C11.removePosOld_breaks
#print axioms OmplModel.Props.C11.nonvacuous_state
