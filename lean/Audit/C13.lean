import OmplModel.Props.C13
#print axioms OmplModel.Props.C13.clear_cells
