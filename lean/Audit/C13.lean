import OmplModel.Props.C13
#print axioms OmplModel.Props.C13.has_iff
#print axioms OmplModel.Props.C13.getCell_some
#print axioms OmplModel.Props.C13.neighbors_exact
#print axioms OmplModel.Props.C13.neighbors_symm
#print axioms OmplModel.Props.C13.components_partition
#print axioms OmplModel.Props.C13.run_wf
#print axioms OmplModel.Props.C13.gridN_count_border
#print axioms OmplModel.Props.C13.gridB_one_queue
#print axioms OmplModel.Props.C13.counts_sum
#print axioms OmplModel.Props.C13.tops_best
#print axioms OmplModel.Props.C13.discretization_obeys_grid_protocol
#print axioms OmplModel.Props.C13.disc_motions_in_cells
#print axioms OmplModel.Props.C13.disc_grid_invariants
#print axioms OmplModel.Props.C13.disc_select_returns_stored_motion
#print axioms OmplModel.Props.C13.disc_select_empty_side
#print axioms OmplModel.Props.C13.disc_importance_pos
