import OmplModel.Props.C20
#print axioms OmplModel.Props.C20.setSeed_erases_clock
#print axioms OmplModel.Props.C20.ithSeed_clock_free
#print axioms OmplModel.Props.C20.ith_generator_depends_on_seed_and_index
#print axioms OmplModel.Props.C20.nextSeed_in_range
#print axioms OmplModel.Props.C20.nextSeed_marks_started
#print axioms OmplModel.Props.C20.setSeed_after_start
#print axioms OmplModel.Props.C20.setSeed_zero_after_start
#print axioms OmplModel.Props.C20.zero_seed
#print axioms OmplModel.Props.C20.zero_seed_stream
#print axioms OmplModel.Props.C20.zero_seed_getSeed_not_replayable
#print axioms OmplModel.Props.C20.reseed_fresh
#print axioms OmplModel.Props.C20.reseed_state_fresh
#print axioms OmplModel.Props.C20.reseed_without_reset_returns_stale
#print axioms OmplModel.Props.C20.planner_is_function_of_draws
#print axioms OmplModel.Props.C20.planner_is_function_of_draw_prefix
#print axioms OmplModel.Props.C20.planner_reproducible_across_processes
