import OmplModel.Props.C19
#print axioms OmplModel.Props.C19.atomic_counter_exact
#print axioms OmplModel.Props.C19.atomic_counter_exact_prefix
#print axioms OmplModel.Props.C19.plain_counter_loses_update
#print axioms OmplModel.Props.C19.plain_counter_le
#print axioms OmplModel.Props.C19.counter_exact_iff_not_plain
#print axioms OmplModel.Props.C19.guarded_linearizable
#print axioms OmplModel.Props.C19.guarded_result_sorted_perm
#print axioms OmplModel.Props.C19.unguarded_add_loses
#print axioms OmplModel.Props.C19.seedgen_distinct
#print axioms OmplModel.Props.C19.unguarded_seedgen_duplicates
#print axioms OmplModel.Props.C19.terminate_eventually_seen
#print axioms OmplModel.Props.C19.terminate_seen_by_last_poll
#print axioms OmplModel.Props.C19.plain_flag_may_never_be_seen
#print axioms OmplModel.Props.C19.prrt_tree_inv_all_schedules
#print axioms OmplModel.Props.C19.prrt_edges_valid
#print axioms OmplModel.Props.C19.prrt_solution_path_real
#print axioms OmplModel.Props.C19.prrt_solution_consistent
