import OmplModel.Props.C08
#print axioms OmplModel.SpaceBounds.C08.enforce_inbounds
#print axioms OmplModel.SpaceBounds.C08.exSpace_ok
#print axioms OmplModel.SpaceBounds.C08.enforce_noop_inbounds
#print axioms OmplModel.SpaceBounds.C08.clampHL_idem
#print axioms OmplModel.SpaceBounds.C08.enforce_idem
#print axioms OmplModel.SpaceBounds.C08.enforce_idem_so3_partial
