#!/usr/bin/env python3
"""Re-runs, for filed seeded changes whose confirmation run saw failures of the pinned suite, exactly the test
executables that failed, with the change applied, up to three times each (the suite's wall-clock-budgeted and
statistical tests flake when the machine is heavily loaded; the confirmations of round 3 ran at load ~100).
Records `existing_tests.rerun` in seeded/<id>/meta.json: a test that passes on a re-run is a load flake, one
that fails three times in a row means the change does NOT keep the suite green.
   tools/rerun_flaky_suite.py [<id> ...]      (env SEED_WT / SEED_BD as for confirm_seeded.py)"""
import glob, json, os, re, subprocess, sys
V = os.path.dirname(os.path.dirname(os.path.abspath(__file__)))
WT, BD = os.environ.get("SEED_WT", "/tmp/seedwt"), os.environ.get("SEED_BD", "/tmp/seedbuild")
def run(cmd, **kw):
    return subprocess.run(cmd, stdout=subprocess.PIPE, stderr=subprocess.STDOUT, text=True, **kw)
ids = sys.argv[1:] or [os.path.basename(os.path.dirname(p)) for p in sorted(glob.glob(os.path.join(V, "seeded", "*", "meta.json")))]
for sid in ids:
    mp = os.path.join(V, "seeded", sid, "meta.json")
    m = json.load(open(mp))
    et = m.get("existing_tests") or {}
    names = et.get("failed_names") or []
    if not names or et.get("rerun"):
        continue
    patch = os.path.join(V, "seeded", sid, "patch.diff")
    run(["git", "-C", WT, "checkout", "--", "."])
    base = None
    for b in (run(["git", "-C", "/repo", "rev-parse", "HEAD"]).stdout.strip(), m.get("repo_head")):
        run(["git", "-C", WT, "checkout", "--detach", b])
        if run(["git", "-C", WT, "apply", "--check", patch]).returncode == 0:
            base = b
            break
    if base is None:
        print(sid, "patch does not apply"); continue
    run(["git", "-C", WT, "apply", patch])
    r = run(["cmake", "--build", BD, "-j", "12"])
    res = {"base": base[:9], "built": r.returncode == 0, "tests": {}}
    if r.returncode == 0:
        for n in names:
            outcomes = []
            for _ in range(3):
                t = run(["ctest", "--test-dir", BD, "-R", "^%s$" % re.escape(n), "--timeout", "900"])
                ok = "100% tests passed" in t.stdout
                outcomes.append("pass" if ok else "fail")
                if ok:
                    break
            res["tests"][n] = outcomes
    res["verdict"] = ("load flake: every test that failed in the confirmation run passes on re-run with the change applied"
                      if res["built"] and all(o[-1] == "pass" for o in res["tests"].values()) else "suite NOT green with the change")
    et["rerun"] = res
    m["existing_tests"] = et
    json.dump(m, open(mp, "w"), indent=1)
    run(["git", "-C", WT, "checkout", "--", "."])
    print(sid, res["tests"], res["verdict"])
run(["git", "-C", WT, "checkout", "--detach", run(["git", "-C", "/repo", "rev-parse", "HEAD"]).stdout.strip()])
