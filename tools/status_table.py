#!/usr/bin/env python3
"""Prints the per-property status table and the findings table (markdown) from evidence/*.json,
claimed.txt and KNOWN_FINDINGS.jsonl; `--write` splices them into DESIGN.md between the markers."""
import json, os, re, sys
V = os.path.dirname(os.path.dirname(os.path.abspath(__file__)))
props = [json.loads(l) for l in open(os.path.join(V, "properties.jsonl"))]
claimed = set(l.strip() for l in open(os.path.join(V, "claimed.txt")) if l.strip() and not l.startswith("#"))
kf = [json.loads(l) for l in open(os.path.join(V, "KNOWN_FINDINGS.jsonl")) if l.strip()]
rows = ["| prop | claimed | theorems (discharged) | axioms | correspondence / exploration on the last run | known findings | fixed in /repo |", "|---|---|---|---|---|---|---|"]
for p in props:
    pid = p["id"]
    ev = None
    f = os.path.join(V, "evidence", pid + ".json")
    if os.path.isfile(f):
        try: ev = json.load(open(f))
        except Exception: ev = None
    c = (ev or {}).get("coverage", {})
    find = sorted(set(k["id"] for k in kf if k["property"] == pid and k["status"] == "finding"))
    fixed = sorted(set(k["id"] for k in kf if k["property"] == pid and k["status"] == "fixed"))
    rows.append("| %s | %s | %s | %s | %s | %s | %s |" % (
        pid, "yes" if pid in claimed else "no",
        "%s (%s)" % (c.get("obligations", "-"), c.get("discharged", "-")) if ev else "-",
        ", ".join(a.replace("Classical.choice", "choice").replace("Quot.sound", "Quot") for a in c.get("axioms_seen", [])) if ev else "-",
        "%s cases, %s distinct non-trivial, %s traces, %s disagreements (%s tier, %.0f s)" % (
            c.get("evaluations"), c.get("distinct_nontrivial"), c.get("traces_validated_against_impl"),
            c.get("correspondence_disagreements"), ev.get("tier"), ev.get("wall_s", 0)) if ev else "-",
        ", ".join(find) or "-", ", ".join(fixed) or "-"))
out = "\n".join(rows) + "\n\n"
out += "| id | prop | status | what |\n|---|---|---|---|\n"
seen = set()
for k in kf:
    key = (k["id"], k["property"])
    if key in seen: continue
    seen.add(key)
    what = k["what"]
    what = re.sub(r"^fixed: property=\S+ \S+ ", "", what)
    out += "| %s | %s | %s | %s |\n" % (k["id"], k["property"], ("fixed " + k.get("commit", "")) if k["status"] == "fixed" else "known finding", what.replace("|", "\\|")[:600])
# seeded changes (independent sub-agents; confirmed by tools/confirm_seeded.py)
sd = os.path.join(V, "seeded")
if os.path.isdir(sd):
    out += "\n| seeded change | prop | existing suite with the change | demonstration (unchanged / changed) | our check (quick tier, seed 0) | what the change is |\n|---|---|---|---|---|---|\n"
    for d in sorted(os.listdir(sd)):
        mp = os.path.join(sd, d, "meta.json")
        if not os.path.isfile(mp): continue
        m = json.load(open(mp))
        et = m.get("existing_tests") or {}
        suite = ("builds; %s/%s test executables pass" % ((et.get("total") or 0) - (et.get("failed") or 0), et.get("total"))) if et else ("does not build" if m.get("builds_with_change") is False else "-")
        rr = et.get("rerun")
        if rr and et.get("failed"):
            suite += ("; re-run of %s with the change applied on a quieter machine: passes (load flake)" % ", ".join(rr.get("tests", {}))
                      if rr.get("verdict", "").startswith("load flake") else "; re-run: still failing")
        demo = m.get("demo_verdict") or ("see meta.json" if m.get("demo") else "-")
        what = m.get("what", "")
        out += "| %s | %s | %s | %s | %s | %s |\n" % (d, m["property"], suite, demo, m.get("final_verdict") or m["check"]["verdict"], what.replace("|", "\\|")[:300])
if "--write" in sys.argv:
    d = open(os.path.join(V, "DESIGN.md")).read()
    a, b = "<!-- STATUS-TABLE-BEGIN -->", "<!-- STATUS-TABLE-END -->"
    if a in d:
        d = d[:d.index(a) + len(a)] + "\n" + out + d[d.index(b):]
        open(os.path.join(V, "DESIGN.md"), "w").write(d)
        print("DESIGN.md updated")
    else:
        print("markers not found")
else:
    print(out)
