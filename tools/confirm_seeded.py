#!/usr/bin/env python3
"""Confirms one seeded change produced by an independent sub-agent and files it under /verif/seeded/<id>/:
   tools/confirm_seeded.py <prop> <out_dir/n> <id>
 1. the patch applies to /repo's HEAD (in the dedicated scratch worktree /tmp/seedwt),
 2. the library and the whole pinned test suite still build with it (incremental build in /tmp/seedbuild),
 3. the existing test suite still passes (ctest, same command as the baseline),
 4. the agent's demonstration fails with the change and passes without it (its own build.sh),
 5. what /verif's check for the property says about it (tools/try_seeded.py, quick tier).
Everything is written to seeded/<id>/meta.json next to patch.diff and the demonstration."""
import json, os, re, shutil, subprocess, sys, time
V = os.path.dirname(os.path.dirname(os.path.abspath(__file__)))
WT, BD = os.environ.get("SEED_WT", "/tmp/seedwt"), os.environ.get("SEED_BD", "/tmp/seedbuild")
prop, src, sid = sys.argv[1:4]
dst = os.path.join(V, "seeded", sid)
os.makedirs(dst, exist_ok=True)
def run(cmd, **kw):
    return subprocess.run(cmd, stdout=subprocess.PIPE, stderr=subprocess.STDOUT, text=True, **kw)
meta = {"property": prop, "id": sid, "source": src, "repo_head": run(["git", "-C", "/repo", "rev-parse", "--short", "HEAD"]).stdout.strip()}
for f in os.listdir(src):
    p = os.path.join(src, f)
    if os.path.isfile(p) and os.path.getsize(p) < 400000 and not os.access(p, os.X_OK) or f.endswith(".sh"):
        shutil.copy(p, dst)
patch = os.path.join(dst, "patch.diff")
# 1-3: suite with the change
if not os.path.isdir(WT):
    run(["git", "-C", "/repo", "worktree", "add", "--detach", WT, "HEAD"])
run(["git", "-C", WT, "checkout", "--detach", meta["repo_head"]])
run(["git", "-C", WT, "checkout", "--", "."])
if not os.path.isfile(os.path.join(BD, "build.ninja")):
    r = run(["cmake", "-G", "Ninja", "-S", WT, "-B", BD, "-DCMAKE_BUILD_TYPE=RelWithDebInfo", "-DCMAKE_CXX_FLAGS=-Wno-error",
             "-DOMPL_BUILD_DEMOS=OFF", "-DOMPL_BUILD_PYBINDINGS=OFF", "-DOMPL_BUILD_PYTESTS=OFF", "-DOMPL_REGISTRATION=OFF"])
    r = run(["cmake", "--build", BD, "-j", "12"])
    if r.returncode: sys.exit("baseline build failed\n" + r.stdout[-3000:])
r = run(["git", "-C", WT, "apply", patch])
meta["patch_applies"] = r.returncode == 0
if r.returncode == 0:
    t = time.time()
    r = run(["cmake", "--build", BD, "-j", "12"])
    meta["builds_with_change"] = r.returncode == 0
    meta["build_s"] = round(time.time() - t)
    if r.returncode == 0:
        t = time.time()
        r = run(["ctest", "--test-dir", BD, "-j", "6", "--timeout", "900"])
        m = re.search(r"(\d+)% tests passed, (\d+) tests failed out of (\d+)", r.stdout)
        meta["existing_tests"] = {"cmd": "ctest --test-dir /tmp/seedbuild -j6 --timeout 900 (21 executables = the pinned 116 test cases)",
                                  "passed_pct": int(m.group(1)) if m else None, "failed": int(m.group(2)) if m else None,
                                  "total": int(m.group(3)) if m else None, "wall_s": round(time.time() - t)}
        if m and int(m.group(2)):
            meta["existing_tests"]["failed_names"] = re.findall(r"\d+ - (\S+) \(", r.stdout)
    else:
        meta["build_error"] = r.stdout[-1500:]
    run(["git", "-C", WT, "checkout", "--", "."])
    run(["cmake", "--build", BD, "-j", "12"])   # back to the unchanged objects for the next one
# 4: demonstration
def demo_run():
    r = run(["bash", "build.sh"], cwd=src, timeout=3600)
    out = r.stdout
    ok_orig = bool(re.search(r"(?m)\bOK\b", out))
    bad_mod = bool(re.search(r"(?i)(exit(?: status| code)?[:= ]+[1-9]\d*|FAIL|BROKEN|violation|mismatch)", out))
    return r, out, ok_orig and bad_mod
if os.path.isfile(os.path.join(src, "build.sh")) and "--no-demo" not in sys.argv:
    r, out, good = demo_run()
    how = "bash build.sh (in the sub-agent's output directory; builds and runs the demonstration on the unmodified and on the changed code)"
    if not good:
        # some build.sh expect the sub-agent's own worktree to carry the patch for the changed-code half
        m = re.search(r"/tmp/seed/wt_s\d+", open(os.path.join(src, "build.sh")).read() + src)
        awt = m.group(0) if m else None
        if awt and os.path.isdir(awt) and run(["git", "-C", awt, "apply", patch]).returncode == 0:
            try:
                r, out, good = demo_run()
                how += " — run with patch.diff applied in the sub-agent's worktree, reverted afterwards"
            finally:
                run(["git", "-C", awt, "checkout", "--", "."])
    meta["demo"] = {"cmd": how, "exit": r.returncode, "output_head": out[:1500], "output_tail": out[-2000:]}
    meta["demo_verdict"] = "OK / fails" if good else "inspect output"
# 5: our check
r = run([sys.executable, os.path.join(V, "tools", "try_seeded.py"), prop, patch])
meta["check"] = {"cmd": "tools/try_seeded.py %s seeded/%s/patch.diff  (quick tier, seed 0)" % (prop, sid), "exit": r.returncode,
                 "output": r.stdout[-2500:],
                 "verdict": "caught-with-failing-input" if re.search(r"^VIOLATION \S+ replay=\S+\s*$", r.stdout, re.M) else
                            ("caught-no-failing-input-found" if "no-failing-input-found" in r.stdout else ("missed" if r.returncode == 0 else "error"))}
json.dump(meta, open(os.path.join(dst, "meta.json"), "w"), indent=1)
print(sid, meta.get("patch_applies"), meta.get("builds_with_change"), meta.get("existing_tests", {}).get("failed"), meta.get("demo", {}).get("exit"), meta["check"]["verdict"])
