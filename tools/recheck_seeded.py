#!/usr/bin/env python3
"""re-runs our check against an already filed seeded change (after the check was strengthened) and records the
new verdict in seeded/<id>/meta.json (`rechecks` history, `final_verdict`)."""
import json, os, re, subprocess, sys, time
V = os.path.dirname(os.path.dirname(os.path.abspath(__file__)))
for sid in sys.argv[1:]:
    mp = os.path.join(V, "seeded", sid, "meta.json")
    m = json.load(open(mp))
    r = subprocess.run([sys.executable, os.path.join(V, "tools", "try_seeded.py"), m["property"], os.path.join(V, "seeded", sid, "patch.diff")],
                       stdout=subprocess.PIPE, stderr=subprocess.STDOUT, text=True)
    base = "HEAD"
    if "patch does not apply" in r.stdout:   # /repo moved on (later fix commits touched the same file): use the base the change was confirmed on
        base = m["repo_head"]
        r = subprocess.run([sys.executable, os.path.join(V, "tools", "try_seeded.py"), m["property"], os.path.join(V, "seeded", sid, "patch.diff"), "--base", base],
                           stdout=subprocess.PIPE, stderr=subprocess.STDOUT, text=True)
    verdict = ("caught-with-failing-input" if re.search(r"^VIOLATION \S+ replay=\S+\s*$", r.stdout, re.M) else
               ("caught-no-failing-input-found" if "no-failing-input-found" in r.stdout else ("missed" if r.returncode == 0 else "error")))
    m.setdefault("rechecks", []).append({"at": time.strftime("%Y-%m-%dT%H:%MZ", time.gmtime()), "verif_commit": subprocess.run(["git", "-C", V, "rev-parse", "--short", "HEAD"], capture_output=True, text=True).stdout.strip(),
                                         "verdict": verdict, "base": base, "output": r.stdout[-1500:]})
    m["final_verdict"] = "%s (first run: %s)" % (verdict, m["check"]["verdict"]) if verdict != m["check"]["verdict"] else verdict
    json.dump(m, open(mp, "w"), indent=1)
    print(sid, m["final_verdict"])
