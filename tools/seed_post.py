#!/usr/bin/env python3
"""fills `what` (from the sub-agent's README) and `demo_verdict` (from the captured demonstration output) in seeded/*/meta.json"""
import json, os, re, sys
V = os.path.dirname(os.path.dirname(os.path.abspath(__file__)))
for d in sorted(os.listdir(os.path.join(V, "seeded"))):
    mp = os.path.join(V, "seeded", d, "meta.json")
    if not os.path.isfile(mp): continue
    m = json.load(open(mp))
    rd = os.path.join(V, "seeded", d, "README.md")
    if os.path.isfile(rd) and not m.get("what"):
        txt = open(rd).read()
        lines = [l.strip("# ").strip() for l in txt.splitlines() if l.strip() and not l.startswith("```")]
        m["what"] = " — ".join(lines[:2])[:400]
    dm = m.get("demo") or {}
    out = (dm.get("output_head", "") + "\n" + dm.get("output_tail", ""))
    if out.strip():
        ok_orig = bool(re.search(r"(?m)^\s*(OK\b|ok\b|.*\bOK\b.*$)", out))
        bad_mod = bool(re.search(r"(?i)(exit(?: status| code)?[:= ]+[1-9]\d*|FAIL|BROKEN|violation|mismatch)", out))
        m["demo_verdict"] = "OK / fails" if (ok_orig and bad_mod) else "inspect output"
    json.dump(m, open(mp, "w"), indent=1)
    print(d, m.get("demo_verdict"), "|", (m.get("what") or "")[:90])
