#!/usr/bin/env python3
"""Run a registered check against a seeded change without touching /repo:
   tools/try_seeded.py C11 path/to/patch.diff [--tier quick] [--seed N] [--keep]
Creates a scratch worktree of /repo's HEAD under /tmp, applies the patch there, runs
`VERIF_REPO=<worktree> python3 run.py check <prop>` and prints its VIOLATION lines and exit code, then
removes the worktree and its build cache (unless --keep).  (Equivalent to `git -C /repo apply`, run,
`git -C /repo checkout -- .`, but safe while other checks are running against /repo.)"""
import argparse, hashlib, os, shutil, subprocess, sys
V = os.path.dirname(os.path.dirname(os.path.abspath(__file__)))
ap = argparse.ArgumentParser()
ap.add_argument("prop"); ap.add_argument("patch"); ap.add_argument("--tier", default="quick"); ap.add_argument("--seed", default="0")
ap.add_argument("--keep", action="store_true"); ap.add_argument("--base", default="HEAD")
a = ap.parse_args()
# layout <root>/wt (scratch worktree) + <root>/cache (its build cache): same relative paths for every scratch tree,
# so lib/ompl_build.py can compile through ccache and only the files the change touches are really compiled
root = "/tmp/try_%s_%s_%d" % (a.prop, hashlib.sha1(os.path.abspath(a.patch).encode()).hexdigest()[:8], os.getpid())
wt = os.path.join(root, "wt")
os.makedirs(root, exist_ok=True)
subprocess.run(["git", "-C", "/repo", "worktree", "remove", "--force", wt], capture_output=True)
r = subprocess.run(["git", "-C", "/repo", "worktree", "add", "--detach", wt, a.base], capture_output=True, text=True)
if r.returncode: sys.exit("worktree: " + r.stderr)
alt = os.path.join(root, "cache")
try:
    r = subprocess.run(["git", "-C", wt, "apply", os.path.abspath(a.patch)], capture_output=True, text=True)
    if r.returncode: sys.exit("patch does not apply: " + r.stderr)
    # warm start: copy the main libompl cache so only the touched objects rebuild
    os.makedirs(alt, exist_ok=True)
    env = dict(os.environ, VERIF_REPO=wt, VERIF_SEED=a.seed, VERIF_ALT_CACHE=alt)
    r = subprocess.run([sys.executable, "run.py", "check", a.prop, "--tier", a.tier], cwd=V, env=env, capture_output=True, text=True)
    lines = [l for l in (r.stdout + r.stderr).splitlines() if "VIOLATION" in l or "KNOWN-FINDING" in l or "done:" in l or "property failure" in l or "disagree" in l]
    viol = [l for l in lines if l.startswith("VIOLATION")]
    known = [l[:160] for l in lines if l.startswith("KNOWN-FINDING")]
    other = [l for l in lines if l not in viol and not l.startswith("KNOWN-FINDING")]
    print("\n".join(other[-10:] + known[:4] + viol[:8]))
    print("exit", r.returncode)
    if r.returncode and "VIOLATION" in r.stdout:
        # keep the first replay next to the patch for the record
        for l in r.stdout.splitlines():
            if l.startswith("VIOLATION"):
                rp = l.split("replay=")[1].split()[0]
                dst = os.path.join(os.path.dirname(os.path.abspath(a.patch)), "replay.json")
                try: shutil.copy(rp if os.path.isabs(rp) else os.path.join(V, rp), dst)
                except Exception: pass
                break
    sys.exit(r.returncode)
finally:
    if not a.keep:
        subprocess.run(["git", "-C", "/repo", "worktree", "remove", "--force", wt], capture_output=True)
        shutil.rmtree(root, ignore_errors=True)
