#!/bin/bash
# usage: run.sh <seed> <ids...> ; runs quick checks sequentially, logs to /tmp/sweep/<id>.<seed>.log, summary to /tmp/sweep/summary.<seed>.txt
seed=$1; shift
cd /verif
for id in "$@"; do
  s=$(date +%s)
  VERIF_SEED=$seed python3 run.py check $id --tier quick > /tmp/sweep/$id.$seed.log 2>&1
  rc=$?
  e=$(date +%s)
  echo "$id seed=$seed rc=$rc wall=$((e-s))s viol=$(grep -c '^VIOLATION' /tmp/sweep/$id.$seed.log) known=$(grep -c '^KNOWN-FINDING' /tmp/sweep/$id.$seed.log)" >> /tmp/sweep/summary.$seed.txt
done
