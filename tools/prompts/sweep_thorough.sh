#!/bin/bash
seed=$1; shift
cd /verif
for id in "$@"; do
  s=$(date +%s)
  VERIF_SEED=$seed python3 run.py check $id --tier thorough > /tmp/sweep/$id.thor$seed.log 2>&1
  rc=$?
  e=$(date +%s)
  echo "$id THOROUGH seed=$seed rc=$rc wall=$((e-s))s viol=$(grep -c '^VIOLATION' /tmp/sweep/$id.thor$seed.log) known=$(grep -c '^KNOWN-FINDING' /tmp/sweep/$id.thor$seed.log)" >> /tmp/sweep/summary.thor.txt
done
