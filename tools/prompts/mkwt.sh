#!/bin/bash
# usage: mkwt.sh <name>  -> creates worktree /tmp/seed/wt_<name> of /repo HEAD, configures+builds with ccache
set -e
W=/tmp/seed/wt_$1
git -C /repo worktree add --detach $W HEAD >/dev/null 2>&1
export CCACHE_BASEDIR=$W CCACHE_NOHASHDIR=1 CCACHE_SLOPPINESS=time_macros,include_file_mtime,include_file_ctime CCACHE_MAXSIZE=20G
cmake -G Ninja -S $W -B $W/_build -DCMAKE_BUILD_TYPE=RelWithDebInfo -DCMAKE_CXX_FLAGS=-Wno-error -DOMPL_BUILD_DEMOS=OFF -DOMPL_BUILD_PYBINDINGS=OFF -DOMPL_BUILD_PYTESTS=OFF -DOMPL_BUILD_TESTS=ON -DCMAKE_CXX_COMPILER_LAUNCHER=ccache > $W/_build.cfg.log 2>&1
cmake --build $W/_build -j${J:-16} > $W/_build.log 2>&1
echo built $W
