#!/usr/bin/env python3
"""Regenerates the tail of DESIGN.md section 0 (fix commits, independent seeded changes, lessons) from
KNOWN_FINDINGS.jsonl, `git -C /repo log`, and seeded/*/meta.json:   tools/design_tail.py --write"""
import collections, glob, json, os, re, subprocess, sys
V = os.path.dirname(os.path.dirname(os.path.abspath(__file__)))
def sh(*a):
    return subprocess.run(a, capture_output=True, text=True).stdout
nfix = len([l for l in sh("git", "-C", "/repo", "log", "--oneline", "--grep", "^fix:").splitlines() if l.strip()])
kf = [json.loads(l) for l in open(os.path.join(V, "KNOWN_FINDINGS.jsonl")) if l.strip()]
fixed_ids = sorted({d["id"] for d in kf if d["status"] == "fixed"})
open_ids = sorted({d["id"] for d in kf if d["status"] == "finding"})
def num(i):
    m = re.search(r"\d+", i)
    return int(m.group(0)) if m else 0
new_fixed = [i for i in fixed_ids if num(i) >= 300]
new_open = [i for i in open_ids if num(i) >= 300]
rounds = {1: ("s1", "s2", "s3"), 2: ("s4", "s5"), 3: ("s6", "s7")}
stats = {}
for r, sfx in rounds.items():
    first, final, n = collections.Counter(), collections.Counter(), 0
    flaky = 0
    for mp in sorted(glob.glob(os.path.join(V, "seeded", "*", "meta.json"))):
        m = json.load(open(mp))
        if not m["id"].endswith(sfx):
            continue
        n += 1
        first[m["check"]["verdict"]] += 1
        final[(m.get("final_verdict") or m["check"]["verdict"]).split(" (")[0]] += 1
        et = m.get("existing_tests") or {}
        if et.get("failed") and (et.get("rerun") or {}).get("verdict", "").startswith("load flake"):
            flaky += 1
    stats[r] = (n, first, final, flaky)
def fmt(c):
    order = ["caught-with-failing-input", "caught-no-failing-input-found", "missed", "error"]
    names = {"caught-with-failing-input": "caught with a failing input", "caught-no-failing-input-found": "caught without one",
             "missed": "missed", "error": "ended in an error of the check"}
    return ", ".join("%d %s" % (c[k], names[k]) for k in order if c.get(k))
n3, first3, final3, flaky3 = stats[3]
not_final3 = sorted(m["id"] for m in (json.load(open(p)) for p in glob.glob(os.path.join(V, "seeded", "*-s[67]", "meta.json")))
                    if not (m.get("final_verdict") or m["check"]["verdict"]).startswith("caught-with-failing-input"))
text = """**Fix commits.** `/repo` carries %(nfix)d `fix:` commits (`git -C /repo log --grep '^fix:'`), covering the %(nfixed_lines)d
`fixed` lines of `KNOWN_FINDINGS.jsonl` (%(nfixed_ids)d finding ids; one commit may repair several findings and one finding may
have several match lines); %(nopen_lines)d lines (%(nopen_ids)d ids) are open findings. Each fix was first re-derived by the check as
a VIOLATION with a concrete replay on the tree before the fix, is a minimal unguarded commit, and the pinned 116-test
suite was re-run after each batch (`cmake --build /repo/_build && ctest`, 21/21 executables; last run on the final
`/repo` HEAD of this session). `test_pdf` of that suite is statistical and fails about once in 40 runs on the unchanged
tree as well, and the wall-clock-budgeted planner tests (`test_2dcircles_opt_geometric`, `test_2dmap_*`) fail
sporadically when the machine is heavily loaded; a single failure of those is re-run, not attributed to a fix. After a
fix the Lean model follows the fixed code, the unfixed variant is kept as a separate definition with a kernel-checked
`…_fails`/`…_old_…` witness, the check reads which variant the tree under test carries (so a revert of a fix, or a
scratch worktree based on an older commit, is judged by the independent oracle as the old defect and not masked by a
disagreeing model), and the `fixed` entry in `KNOWN_FINDINGS.jsonl` suppresses nothing: a regression is a VIOLATION.
Round 10 (third session) added the repairs of %(new_fixed)s; found and left open (no small safe repair, or the repair
would need several engines' models to follow in the same hour): %(new_open)s — each with a reproduction and, where one
exists, a proposed patch under `notes/`.

**Independent seeded changes.** Fresh reviewers who saw only the property text and their own scratch worktree (nothing
from `/verif`) wrote behaviour-breaking patches that keep the pinned suite green; `seeded/<id>/` holds patch,
demonstration, and `meta.json` with the first and the final verdict of our check (`tools/confirm_seeded.py` applies the
patch in a scratch worktree, rebuilds, runs the pinned suite, runs the demonstration on both trees, and runs our quick
tier against it; `tools/recheck_seeded.py` records later verdicts). Round 1: %(n1)d changes (three per property) — first
run %(first1)s. Round 2: %(n2)d changes (two per property) — first run %(first2)s. Round 3 (this session; two per
property, reviewers were told what rounds 1–2 had already tried and asked for changes that need a history, a
reconfiguration, a re-entrant or interleaved call, an extreme-but-legal parameter, or a rarely used sibling/overload to
manifest): %(n3)d changes — first run %(first3)s. After strengthening (generators, oracle clauses, models; described per
property in the ASBUILT blocks and in `notes/Cxx.md`, always as a generalisation of the class of change, never a
special case of the patch) the final verdicts are: rounds 1–2 %(final12)s; round 3 %(final3)s%(notfinal3)s.
The confirmation runs of round 3 shared the machine with twenty other jobs (load average about 100): %(flaky3)d changes
saw a failure of a wall-clock-budgeted or statistical test of the pinned suite in that run; each such test was re-run
with the change applied on the quieter machine (`tools/rerun_flaky_suite.py`, recorded under `existing_tests.rerun`) and
passes. C08-s1 (round 1) exposed the same defect in the unchanged library (F77), is caught on the tree it was written
against and harmless after that fix.

**Lessons** (what the reviewers' changes hit that our checks missed at first; every engine was taken through these
lenses again, and `notes/Cxx.md` has a table "anchor → modelled / lock-stepped / oracle-only / not driven" per property):
* *Histories.* State changed after `setup()`/first use: bounds, weights, tolerances, `clear()` then `solve()`,
  re-seeding, reuse of caller-owned output objects, a high-dimensional call before a low-dimensional one in the same
  process or thread. Round 3 added *reconfiguration* histories — swap the validity checker, the control bounds, the
  resolution, the space's structure (`addDimension`/`addSubspace` after `setup()`), the objective, between calls on one
  object, with the model following the configuration *in force* — and *observer* histories (query, mutate, query again:
  memoised answers go stale visibly).
* *Users and siblings.* Code the property anchors but that lives in a user or sibling class the engine never drove:
  `control::` variants, wrappers, GridN vs GridB, planners' own queues and PDFs; round 3: the car-like spaces under the
  interpolation property, the constrained-space samplers under the bounds property, never-called constructors and
  overloads (`PDF(data, weights)`, `buildFrom({})`, cached-path `interpolate`), optional callbacks *not* registered.
* *Exact boundary inputs.* Ties at ±π, values *on* a bound, zero-length and one-step motions, `k = 0`, the empty
  structure, `INT_MAX`, zero weight, exactly repeated states; round 3: weights *between* 0 and machine epsilon, window
  size 1, cost bounds within 1e-12 of the focal distance, non-finite constraint residuals, targets along the manifold
  normal, lattice-valued samples (exact distance ties).
* *Re-entrancy and sharing.* A complete nested call of the same operation issued from inside a callback of the first
  (or from a second thread, forced deterministically): scratch state that is a member, `thread_local`, or cached in the
  shared object instead of per call. The models now thread a world through the callbacks and prove both calls return
  what each returns alone.
* *Switched-off clauses.* Oracle clauses disabled at "excluded points", or swallowed by an over-broad known-finding
  match (hence the `as_coded` narrowing above); absolute tolerance floors that hide a dropped term.
* *Non-default parameters.* Non-power-of-two step sizes, lowered limits, direction-sensitive validators, asymmetric
  and non-length objectives, more than one start or goal, every boolean planner parameter flipped off its default.
* *Randomness outside the RNG.* Engines other than `ompl::RNG` (`std::mt19937` in `Permutation`), uninitialised
  memory feeding a "random" default (projection matrices): listed from the source on every run and driven by
  process-vs-process runs on tie-rich problems.
""" % dict(nfix=nfix, nfixed_lines=len([d for d in kf if d["status"] == "fixed"]), nfixed_ids=len(fixed_ids),
           nopen_lines=len([d for d in kf if d["status"] == "finding"]), nopen_ids=len(open_ids),
           new_fixed=", ".join(new_fixed), new_open=", ".join(new_open),
           n1=stats[1][0], first1=fmt(stats[1][1]), n2=stats[2][0], first2=fmt(stats[2][1]), n3=n3, first3=fmt(first3),
           final12=fmt(stats[1][2] + stats[2][2]), final3=fmt(final3),
           notfinal3=(" (not with a failing input: %s)" % ", ".join(not_final3)) if not_final3 else "", flaky3=flaky3)
if "--write" in sys.argv:
    p = os.path.join(V, "DESIGN.md")
    d = open(p).read()
    a = d.index("**Fix commits.**")
    b = d.index("---------------------------------------------------------------------------------------------", a)
    open(p, "w").write(d[:a] + text + "\n" + d[b:])
    print("DESIGN.md section 0 tail rewritten")
else:
    print(text)
