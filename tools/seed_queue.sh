#!/bin/bash
# processes ${SEED_QUEUE:-/tmp/seed/queue.txt} ("<prop> <out_dir> <id>" per line) one at a time; polls for new lines
cd /verif
while true; do
  while read -r prop dir id; do
    [ -z "$prop" ] && continue
    [ -f "seeded/$id/meta.json" ] && continue
    python3 tools/confirm_seeded.py "$prop" "$dir" "$id" >> /tmp/seed/confirm.log 2>&1
  done < ${SEED_QUEUE:-/tmp/seed/queue.txt}
  [ -f /tmp/seed/queue.stop ] && break
  sleep 60
done
