#!/usr/bin/env python3
"""Translator for C19 (DESIGN 1.5 / 2.19): access kind of every shared mutable member of the documented
thread-safe surface, extracted from the CURRENT source tree (VERIF_REPO or /repo) on every check run.

For each member it finds the declaration (regex over the owning class body), classifies the declared type
(`std::atomic<...>` -> atomic) and otherwise scans every access site of the member for an enclosing
`std::lock_guard` / `std::unique_lock` / `std::scoped_lock` declaration (or Console.cpp's `USE_DOH` macro, which
expands to one) that is still in scope at the site:
    all sites guarded -> mutexGuarded;  any site outside a lock scope -> plain (the sites are listed);
    a function that touches the member under two different lock scopes (read in one, write in the next) -> plain.
For NearestNeighborsGNAT every `mutable` data member (nested Node included) is extracted, not a fixed list.
Sites inside a constructor/destructor of the owning class (object not yet / no longer shared) and inside member
initialiser lists are exempt.  Manual `m.lock(); ... m.unlock();` pairs are NOT accepted as guards (none of the
surface members uses them); anything the scanner cannot place counts as unguarded, i.e. errs towards an alarm.

Output: lean/OmplModel/Generated/SharedAccess.lean — the table `surface`, the obligation
`surface_no_plain : forall m in surface, m.kind != .plain` (closed by `decide`; it FAILS to compile when a member
is plain, which is the point) and its consequences through the theorems of Props/C19.lean.
The file is rewritten only when its content changes; writers are serialised by a lock file.
`python3 extract/shared_access.py --json` prints the table as JSON (used by checks/c19.py).
"""
import fcntl
import json
import os
import re
import sys

VERIF = os.path.dirname(os.path.dirname(os.path.abspath(__file__)))
REPO = os.environ.get("VERIF_REPO", "/repo")
OUT = os.path.join(VERIF, "lean", "OmplModel", "Generated", "SharedAccess.lean")
SRC = os.path.join(REPO, "src", "ompl")

LOCK_DECL = re.compile(r"\b(?:std::)?(?:lock_guard|unique_lock|scoped_lock)\s*(?:<[^;{}]*?>)?\s+\w+\s*[({]|\bUSE_DOH\b")

# (owning class, file with the declaration, member names or None = every `mutable` member of the class,
#  extra files whose access sites count (None = only the declaring file; "grep:<word>" = every file under
#  src/ompl mentioning <word>), role on the surface)
SURFACE = [
    ("MotionValidator", "base/MotionValidator.h", ["valid_", "invalid_"], "grep:MotionValidator",
     "motion counters bumped in const checkMotion() of every motion validator"),
    ("PlannerTerminationConditionImpl", "base/src/PlannerTerminationCondition.cpp",
     ["terminate_", "evalValue_", "signalThreadStop_"], None,
     "terminate() from another thread / eval(); cached value of the polled form"),
    ("NearestNeighborsGNAT", "datastructures/NearestNeighborsGNAT.h", None, None,
     "mutable members written in const nearest/nearestK/nearestR"),
    ("RNGSeedGenerator", "util/src/RandomNumbers.cpp", ["someSeedsGenerated_", "firstSeed_", "sGen_", "sDist_"], None,
     "seed stream behind every RNG constructor"),
    ("PlannerSolutionSet", "base/src/ProblemDefinition.cpp", ["solutions_"], None,
     "addSolutionPath / getSolutions of a shared ProblemDefinition"),
    ("AllocatedSpaces", "base/src/StateSpace.cpp", ["list_", "counter_"], r"via:\bas\s*\.\s*",
     "registry written by every StateSpace constructor/destructor"),
    ("DefaultOutputHandler", "util/src/Console.cpp", ["output_handler_", "previous_output_handler_", "logLevel_"],
     r"via:(?:\bdoh|getDOH\s*\(\s*\))\s*->\s*", "logging: OMPL_INFORM etc., useOutputHandler, setLogLevel"),
]
# Where access sites are looked for: inside the owning class body (bare name), plus
#   "grep:<word>"  every file under src/ompl whose text contains <word> (bare name anywhere: derived classes),
#   "via:<regex>"  anywhere in the declaring file behind the accessor expression <regex> (file-local singletons).


def strip_comments(src):
    """comments, string/char literals and preprocessor lines replaced by spaces (newlines kept, so offsets and
    lines survive)"""
    src = re.sub(r"(?m)^[ \t]*#(?:[^\n\\]|\\\n|\\.)*", lambda m: "".join(c if c == "\n" else " " for c in m.group(0)), src)
    out = []
    i, n = 0, len(src)
    while i < n:
        c = src[i]
        if src.startswith("//", i):
            j = src.find("\n", i)
            j = n if j < 0 else j
            out.append(" " * (j - i))
            i = j
        elif src.startswith("/*", i):
            j = src.find("*/", i + 2)
            j = n if j < 0 else j + 2
            out.append("".join(ch if ch == "\n" else " " for ch in src[i:j]))
            i = j
        elif c == "R" and src.startswith('R"', i) and (i == 0 or not (src[i - 1].isalnum() or src[i - 1] == "_")):
            k = src.find("(", i)
            delim = src[i + 2:k]
            j = src.find(")" + delim + '"', k)
            j = n if j < 0 else j + len(delim) + 2
            out.append('""' + "".join(ch if ch == "\n" else " " for ch in src[i + 2:j]))
            i = j
        elif c == '"' or c == "'":
            if c == "'" and i > 0 and (src[i - 1].isalnum()):   # digit separator 1'000
                out.append(c)
                i += 1
                continue
            j = i + 1
            while j < n and src[j] != c:
                j += 2 if src[j] == "\\" else 1
            out.append(c + "".join(ch if ch == "\n" else " " for ch in src[i + 1:j]) + c)
            i = j + 1
        else:
            out.append(c)
            i += 1
    return "".join(out)


def blocks(src):
    """list of (open, close, header) for every brace block; header = text between the previous `;`/`{`/`}` and `{`"""
    res = []
    stack = []
    last_break = 0
    for i, c in enumerate(src):
        if c == "{":
            stack.append((i, src[last_break:i]))
            last_break = i + 1
        elif c == "}":
            if stack:
                o, h = stack.pop()
                res.append((o, i, h))
            last_break = i + 1
        elif c == ";":
            last_break = i + 1
    return res


def class_body(src, cls):
    m = re.search(r"\b(?:class|struct)\s+(?:\w+::)*" + cls + r"\b[^;{]*\{", src)
    if not m:
        return None
    o = m.end() - 1
    depth = 0
    for i in range(o, len(src)):
        if src[i] == "{":
            depth += 1
        elif src[i] == "}":
            depth -= 1
            if depth == 0:
                return o, i
    return None


def find_decl(src, body, name):
    """declaration `<type> name [{..}|= ..];` at the top level of the class body -> (type text, offset)"""
    o, c = body
    depth = 0
    stmt_start = o + 1
    i = o + 1
    while i < c:
        ch = src[i]
        if ch == "{":
            depth += 1
        elif ch == "}":
            depth -= 1
            if depth == 0 and not re.match(r"\s*;", src[i + 1:i + 40]):
                stmt_start = i + 1      # end of a function body; `name{init};` stays one statement
        elif ch == ";" and depth == 0:
            stmt = src[stmt_start:i]
            m = re.search(r"([\w:<>,\s\*&]+?)\b" + re.escape(name) + r"\s*(?:\{[^}]*\}|=[^;]*)?\s*$", stmt)
            if m and "(" not in stmt:
                typ = re.sub(r"\s+", " ", m.group(1)).strip()
                typ = re.sub(r"^(?:public|private|protected)\s*:\s*", "", typ)
                return typ, stmt_start + m.start()
            stmt_start = i + 1
        elif ch == ":" and depth == 0 and src[stmt_start:i].strip() in ("public", "private", "protected"):
            stmt_start = i + 1
        i += 1
    return None


def mutable_members(src, body):
    """names of all `mutable` data members declared anywhere inside the class body (nested classes included;
    a lambda's `mutable {` is not a declaration and does not match)"""
    o, c = body
    names = []
    for m in re.finditer(r"\bmutable\b[^;{}()]*?\b(\w+)\s*(?:\{[^{}]*\})?\s*(?:=[^;{}]*)?;", src[o + 1:c]):
        if m.group(1) not in names:
            names.append(m.group(1))
    return names


def line_of(src, off):
    return src.count("\n", 0, off) + 1


def is_ctor_dtor_header(header, cls):
    h = header.strip()
    # `Cls(args) : inits` / `~Cls()` / `Cls::Cls(` / `Cls::~Cls(`
    return re.search(r"(?:^|[\s:~])~?" + cls + r"\s*\([^;]*$", h) is not None and \
        re.search(r"\b(?:class|struct)\b", h) is None and \
        re.search(r"\b(?:if|for|while|switch|return)\b", h.split("(")[0]) is None


def scan_sites(path, name, cls, decl_off=None, region=None, via=None):
    """every access site of `name` in the file -> list of dict(line, guarded, exempt, text).
    region=(a,b): bare occurrences count only inside it (the class body); via: accessor regex that makes an
    occurrence count anywhere in the file; neither: every bare occurrence in the file counts."""
    raw = open(path, errors="replace").read()
    src = strip_comments(raw)
    bl = blocks(src)
    sites = []
    for m in re.finditer(r"\b" + re.escape(name) + r"\b", src):
        off = m.start()
        if region is not None and not (region[0] < off < region[1]):
            if via is None or not re.search(via + r"$", src[max(0, off - 60):off]):
                continue
        if decl_off is not None and abs(off - decl_off) < 200 and src[decl_off:off].count(";") == 0 and off >= decl_off:
            continue  # the declaration itself
        enclosing = sorted([b for b in bl if b[0] < off < b[1]], key=lambda b: b[0])
        # the declaration statement (type name;) directly in a class body: skip
        exempt = False
        guarded = False
        in_function = False
        guard_off = None
        fn_off = None
        for (o, c, h) in enclosing:
            if is_ctor_dtor_header(h, cls):
                exempt = True
            if re.search(r"\)\s*(?:const)?\s*(?:noexcept)?\s*(?:override)?\s*(?:->[^{]*)?$", h.strip()) or "[" in h:
                in_function = True
                if fn_off is None and "[" not in h.split("(")[0]:
                    fn_off = o      # the outermost function body around the site
            # a lock declared directly in this block (not in a nested, already closed one) before the site
            for lm in LOCK_DECL.finditer(src, o, off):
                inner = [b for b in bl if o < b[0] and b[1] < off and b[0] < lm.start() < b[1]]
                if not inner:
                    guarded = True
                    guard_off = lm.start()
        if not enclosing or not in_function:
            # member initialiser list `Cls(...) : a_(x), name(...)` sits before the ctor body's `{`
            pre = src[max(0, off - 400):off]
            if re.search(r"\b" + cls + r"\s*\([^{};]*\)\s*:[^{};]*$", pre) or re.search(r"\)\s*\n?\s*:[^{};]*$", pre):
                exempt = True
            else:
                # declaration-like or default member initialiser at class level
                ls = src.rfind("\n", 0, off) + 1
                le = src.find("\n", off)
                if re.search(r"[\w>\*&]\s+" + re.escape(name) + r"\s*(?:\{[^}]*\})?\s*(?:=[^;]*)?;", src[ls:le]):
                    continue
        ls = raw.rfind("\n", 0, off) + 1
        le = raw.find("\n", off)
        sites.append({"line": line_of(src, off), "guarded": guarded, "exempt": exempt, "guard": guard_off, "fn": fn_off,
                      "text": raw[ls:le].strip()[:100]})
    return sites


def files_mentioning(word):
    out = []
    for d, dirs, files in os.walk(SRC):
        dirs.sort()
        for f in sorted(files):
            if f.endswith((".h", ".cpp", ".hpp")):
                p = os.path.join(d, f)
                try:
                    if word in open(p, errors="replace").read():
                        out.append(p)
                except OSError:
                    pass
    return out


def extract():
    table = []
    for cls, rel, names, extra, role in SURFACE:
        path = os.path.join(SRC, rel)
        if not os.path.isfile(path):
            raise SystemExit("shared_access: %s is missing" % path)
        src = strip_comments(open(path, errors="replace").read())
        body = class_body(src, cls)
        if body is None:
            raise SystemExit("shared_access: class %s not found in %s" % (cls, rel))
        if names is None:
            names = mutable_members(src, body)
        files = [path]
        via = None
        if extra and extra.startswith("grep:"):
            files = sorted(set(files + files_mentioning(extra[5:])))
        elif extra and extra.startswith("via:"):
            via = extra[4:]
        for name in names:
            d = find_decl(src, body, name)
            if d is None:
                # declared in a nested class of the body
                m = re.search(r"(?:^|[;{}])\s*((?:mutable\s+)?[\w:<>,\s\*&]+?)\b" + re.escape(name) +
                              r"\s*(?:\{[^{}]*\})?\s*(?:=[^;{}]*)?;", src[body[0] + 1:body[1]])
                if m and "(" not in m.group(1):
                    d = (re.sub(r"\s+", " ", m.group(1)).strip(), body[0] + 1 + m.start(1))
            if d is None:
                raise SystemExit("shared_access: declaration of %s::%s not found in %s (renamed? update SURFACE)" % (cls, name, rel))
            typ, decl_off = d
            sites = []
            for f in files:
                grep = bool(extra and extra.startswith("grep:"))
                for s in scan_sites(f, name, cls, decl_off if f == path else None,
                                    region=None if grep else body, via=via):
                    s["file"] = os.path.relpath(f, REPO)
                    sites.append(s)
            live = [s for s in sites if not s["exempt"]]
            if re.search(r"\b(?:std::)?atomic(?:_\w+)?\b", typ):
                kind = "atomic"
                ung = []
            else:
                ung = [s for s in live if not s["guarded"]]
                # one function touching the member under two different lock scopes is a read-modify-write split over
                # two critical sections: exactly the model's two-step `plain` access, however well each half is guarded
                per_fn = {}
                for s in live:
                    if s["guarded"] and s["fn"] is not None:
                        per_fn.setdefault((s["file"], s["fn"]), {}).setdefault(s["guard"], []).append(s)
                for key, guards in per_fn.items():
                    if len(guards) > 1:
                        for g in sorted(guards)[1:]:
                            first = dict(guards[g][0])
                            first["text"] = "[second lock scope in one function] " + first["text"]
                            ung.append(first)
                kind = "mutexGuarded" if live and not ung else "plain"
            table.append({
                "name": "%s::%s" % (cls, name), "member": name, "cls": cls, "file": os.path.relpath(path, REPO),
                "decl_type": typ, "kind": kind, "sites": len(live), "exempt_sites": len(sites) - len(live),
                "unguarded": ["%s:%d" % (s["file"], s["line"]) for s in ung],
                "unguarded_text": [s["text"] for s in ung][:6], "role": role,
            })
    return table


# ------------------------------------------------------------------------------------------ planner-internal monitors
# Fields a multi-threaded planner shares between its worker threads under one mutex (a monitor).  For every access site
# inside the WORKER functions (the code that runs on the planner's own threads) the scanner determines which mutex is held:
# a lock_guard/unique_lock on it declared in an enclosing open block, or a manual `m.lock();` not yet followed by
# `m.unlock();` in the same function.  Obligation: every worker site holds the field's mutex, and all worker sites of one
# function sit in ONE lock scope (a compare outside / update inside, or compare in one scope and update in the next, is a
# check-then-act split).  Sites in the single-threaded phases (constructor, setup, clear, solve before the threads start)
# and the const progress getters are listed but not part of the obligation.
PLANNER_FIELDS = [
    # (class, file, field, mutex expression, worker functions[, hint regexes])
    # (CForest's three progress getters are polled from other threads — F191 — and are worker functions of their fields.)
    # hint regexes: source lines of UNGUARDED worker sites that are deliberate optimistic reads (loop-exit / pre-check hints,
    # re-checked under the lock before any write); they are listed in the table, not part of the obligation.
    ("CForest", "geometric/planners/cforest/src/CForest.cpp", "bestCost_", "newSolutionFoundMutex_", ["newSolutionFound", "getBestCost"]),
    ("CForest", "geometric/planners/cforest/src/CForest.cpp", "numPathsShared_", "newSolutionFoundMutex_", ["newSolutionFound", "getNumPathsShared"]),
    ("CForest", "geometric/planners/cforest/src/CForest.cpp", "numStatesShared_", "newSolutionFoundMutex_", ["newSolutionFound", "getNumStatesShared"]),
    ("CForest", "geometric/planners/cforest/src/CForest.cpp", "statesShared_", "newSolutionFoundMutex_", ["newSolutionFound"]),
    ("CForest", "geometric/planners/cforest/CForest.h", "samplers_", "addSamplerMutex_", ["addSampler"]),
    ("CForestStateSampler", "geometric/planners/cforest/src/CForestStateSampler.cpp", "statesToSample_", "statesLock_",
     ["setStatesToSample", "getNextSample", "clear"]),
    # pRRT: the tree under nnLock_, the shared SolutionInfo under sol->lock
    # (a worker LOOP legitimately enters several critical sections per iteration — nearest, later add; exact / approximate branch —
    # so for these the one-lock-scope-per-function rule is off: "loop"; each of them is a separate step of the model, PStep)
    ("pRRT", "geometric/planners/rrt/src/pRRT.cpp", "nn_", "nnLock_", ["threadSolve"], ["loop"]),
    ("pRRT", "geometric/planners/rrt/src/pRRT.cpp", "solution", "sol->lock", ["threadSolve"],
     [r"^while \(sol->solution == nullptr && ptc == false\)$"]),
    ("pRRT", "geometric/planners/rrt/src/pRRT.cpp", "approxdif", "sol->lock", ["threadSolve"], ["loop", r"^if \(dist < sol->approxdif\)$"]),
    ("pRRT", "geometric/planners/rrt/src/pRRT.cpp", "approxsol", "sol->lock", ["threadSolve"]),
    # pSBL: the per-tree grid / PDF under tree.lock (removeMotion runs in the exclusive phase of the loopLock_ scheme — F39 — and is
    # not a worker function here), the removal list under its own lock, the found flag under sol->lock
    ("pSBL", "geometric/planners/sbl/src/pSBL.cpp", "pdf", "tree.lock", ["addMotion", "selectMotion"]),
    ("pSBL", "geometric/planners/sbl/src/pSBL.cpp", "grid", "tree.lock", ["addMotion"]),
    ("pSBL", "geometric/planners/sbl/src/pSBL.cpp", "motions", "removeList_.lock", ["threadSolve", "isPathValid"]),
    ("pSBL", "geometric/planners/sbl/src/pSBL.cpp", "found", "sol->lock", ["threadSolve"],
     [r"^while \(!sol->found && ptc == false\)$", r"^while \(retry && !sol->found && ptc == false\)$", r"^if \(sol->found \|\| ptc\)$"]),
    # PRM: the solution thread reads the roadmap only under graphMutex_ (the roadmap thread is the single writer)
    ("PRM", "geometric/planners/prm/src/PRM.cpp", "stateProperty_", "graphMutex_", ["maybeConstructSolution", "constructSolution"]),
    ("PRM", "geometric/planners/prm/src/PRM.cpp", "g_", "graphMutex_", ["constructSolution"]),
    # AnytimePathShortening: best cost under lock_ in the planner threads' addPath, start/goal failure counts under their lock
    ("AnytimePathShortening", "geometric/planners/AnytimePathShortening.cpp", "bestCost_", "lock_", ["addPath"]),
    ("AnytimePathShortening", "geometric/planners/AnytimePathShortening.cpp", "invalidStartStateCount_", "invalidStartOrGoalLock_", ["threadSolve"]),
    ("AnytimePathShortening", "geometric/planners/AnytimePathShortening.cpp", "invalidGoalCount_", "invalidStartOrGoalLock_", ["threadSolve"]),
    # ParallelPlan: solution count and the hybridization object shared by the planner threads
    ("ParallelPlan", "tools/multiplan/src/ParallelPlan.cpp", "foundSolCount_", "foundSolCountLock_", ["solveOne", "solveMore"]),
    ("ParallelPlan", "tools/multiplan/src/ParallelPlan.cpp", "phybrid_", "phlock_", ["solveMore"]),
    # GoalLazySamples: the sampling thread's stop flag and the goal states under lock_
    ("GoalLazySamples", "base/goals/src/GoalLazySamples.cpp", "terminateSamplingThread_", "lock_",
     ["goalSamplingThread", "isSampling", "startSampling", "stopSampling"],
     [r"^while \(!terminateSamplingThread_ && !si_->isSetup\(\)\)$"]),
    ("GoalLazySamples", "base/goals/src/GoalLazySamples.cpp", "states_", "lock_", ["addStateIfDifferent", "clear"]),
]


def function_name(header):
    m = re.search(r"([~\w]+)\s*\([^()]*(?:\([^()]*\)[^()]*)*\)\s*(?:const)?\s*(?:noexcept)?\s*(?:override)?\s*$", header.strip())
    return m.group(1) if m else None


def scan_field(path, field, mutex):
    """every occurrence of `field` in the file -> dict(line, fn, held (bool), scope (offset of the lock statement), text)"""
    raw = open(path, errors="replace").read()
    src = strip_comments(raw)
    bl = blocks(src)
    sites = []
    for m in re.finditer(r"\b" + re.escape(field) + r"\b", src):
        off = m.start()
        enclosing = sorted([b for b in bl if b[0] < off < b[1]], key=lambda b: b[0])
        fn, fn_off = None, None
        for (o, c, h) in enclosing:
            if re.search(r"\)\s*(?:const)?\s*(?:noexcept)?\s*(?:override)?\s*(?::[^{};]*)?$", h.strip()) and "[" not in h.split("(")[0] \
                    and not re.match(r"\s*(?:if|for|while|switch|catch)\b", h.strip()):
                fn = function_name(re.sub(r":[^:{};]*$", "", h) if re.search(r"\)\s*:[^:]", h) else h)
                fn_off = o
                break
        if fn is None:
            continue    # declaration / default initialiser at class level
        held, scope = False, None
        # scoped lock objects on this mutex in an enclosing, still open block
        for (o, c, h) in enclosing:
            if o < fn_off:
                continue
            for lm in re.finditer(r"\b(?:std::)?(?:lock_guard|unique_lock|scoped_lock)\s*(?:<[^;{}]*?>)?\s+\w+\s*[({]\s*" +
                                  re.escape(mutex) + r"\b", src[o:off]):
                inner = [b for b in bl if o < b[0] and b[1] < off and b[0] < o + lm.start() < b[1]]
                if not inner:
                    held, scope = True, o + lm.start()
        # manual lock()/unlock() in the same function, textual order
        if not held:
            body = src[fn_off:off]
            locks = [x.start() for x in re.finditer(r"\b" + re.escape(mutex) + r"\s*\.\s*lock\s*\(\s*\)", body)]
            unlocks = [x.start() for x in re.finditer(r"\b" + re.escape(mutex) + r"\s*\.\s*unlock\s*\(\s*\)", body)]
            if locks and (not unlocks or unlocks[-1] < locks[-1]):
                held, scope = True, fn_off + locks[-1]
        ls = raw.rfind("\n", 0, off) + 1
        le = raw.find("\n", off)
        sites.append({"line": line_of(src, off), "fn": fn, "held": held, "scope": scope, "text": raw[ls:le].strip()[:100]})
    return sites


def extract_planner_fields():
    out = []
    for entry in PLANNER_FIELDS:
        cls, rel, field, mutex, workers = entry[:5]
        hints = [h for h in (entry[5] if len(entry) > 5 else []) if h != "loop"]
        loop = len(entry) > 5 and "loop" in entry[5]
        path = os.path.join(SRC, rel)
        if not os.path.isfile(path):
            raise SystemExit("shared_access: %s is missing" % path)
        files = [path]
        # the class's header and source both count
        if path.endswith(".cpp"):
            d = os.path.dirname(path)
            alt = os.path.join(os.path.dirname(d) if os.path.basename(d) == "src" else d, os.path.basename(path).replace(".cpp", ".h"))
        else:
            alt = os.path.join(os.path.dirname(path), "src", os.path.basename(path).replace(".h", ".cpp"))
        if os.path.isfile(alt):
            files.append(alt)
        sites = []
        for f in files:
            for st in scan_field(f, field, mutex):
                st["file"] = os.path.relpath(f, REPO)
                sites.append(st)
        worker = [st for st in sites if st["fn"] in workers]
        if not worker:
            raise SystemExit("shared_access: no access to %s::%s in %s (renamed? update PLANNER_FIELDS)" % (cls, field, workers))
        hinted = [st for st in worker if not st["held"] and any(re.search(h, st["text"]) for h in hints)]
        bad = [dict(st, why="no lock") for st in worker if not st["held"] and st not in hinted]
        per_fn = {}
        for st in worker:
            if st["held"]:
                per_fn.setdefault((st["file"], st["fn"]), {}).setdefault(st["scope"], []).append(st)
        for key, scopes in per_fn.items():
            if len(scopes) > 1 and not loop:
                for sc in sorted(scopes)[1:]:
                    bad.append(dict(scopes[sc][0], why="second lock scope in one function"))
        other = [st for st in sites if st["fn"] not in workers]
        out.append({
            "name": "%s::%s" % (cls, field), "member": field, "cls": cls, "file": os.path.relpath(path, REPO), "mutex": mutex,
            "workers": workers, "worker_sites": len(worker),
            "unguarded": ["%s:%d %s (%s)" % (st["file"], st["line"], st["fn"], st["why"]) for st in bad],
            "unguarded_text": [st["text"] for st in bad][:6],
            "other_sites": sorted(set("%s:%d %s%s" % (st["file"], st["line"], st["fn"], "" if st["held"] else " (no lock)") for st in other) |
                                  set("%s:%d %s (no lock: optimistic hint read)" % (st["file"], st["line"], st["fn"]) for st in hinted)),
        })
    return out


def lean_str(s):
    return '"' + s.replace("\\", "\\\\").replace('"', '\\"') + '"'


def render(table, fields=()):
    L = []
    L.append("import OmplModel.Props.C19")
    L.append("/-!")
    L.append("GENERATED by extract/shared_access.py from the current source tree on every run of check C19 — do not edit.")
    L.append("")
    L.append("Access kind of every shared mutable member of the documented thread-safe surface: `atomic` by declared")
    L.append("type, `mutexGuarded` when every access site lies in a `lock_guard`/`unique_lock` scope, otherwise `plain`")
    L.append("(with the unguarded sites).  `surface_no_plain` is the obligation; it does not compile while a member is")
    L.append("plain.  Its consequences instantiate the theorems of Props/C19.lean at the extracted kinds.")
    L.append("-/")
    L.append("namespace OmplModel.Generated.SharedAccess")
    L.append("open OmplModel.Interleave")
    L.append("")
    L.append("structure Member where")
    L.append("  name : String")
    L.append("  file : String")
    L.append("  declType : String")
    L.append("  kind : Kind")
    L.append("  sites : Nat")
    L.append("  unguarded : List String")
    L.append("")
    L.append("def surface : List Member := [")
    rows = []
    for m in table:
        rows.append("  ⟨%s, %s, %s, .%s, %d, [%s]⟩" % (
            lean_str(m["name"]), lean_str(m["file"]), lean_str(m["decl_type"]), m["kind"], m["sites"],
            ", ".join(lean_str(u) for u in m["unguarded"][:12])))
    L.append(",\n".join(rows))
    L.append("]")
    L.append("")
    plain = [m["name"] for m in table if m["kind"] == "plain"]
    L.append("/-- the members that are neither atomic nor guarded at every access site (always provable: this is the")
    L.append("extraction result itself, stated in Lean) -/")
    L.append("theorem plain_members : (surface.filter (fun m => m.kind == .plain)).map (·.name) = [%s] := by decide"
             % ", ".join(lean_str(p) for p in plain))
    L.append("")
    L.append("/-- **the obligation**: no shared member of the thread-safe surface is a plain (non-atomic, unguarded) variable -/")
    L.append("theorem surface_no_plain : ∀ m ∈ surface, m.kind ≠ .plain := by decide")
    L.append("")
    L.append("/-- hence a counter of any surface member's kind is exact under every schedule … -/")
    L.append("theorem surface_counters_exact (m : Member) (hm : m ∈ surface) (N k : Nat) (is : List Nat)")
    L.append("    (hc : Complete (counterThreads m.kind N k) is) : counterFinal m.kind N k is = N * k :=")
    L.append("  OmplModel.Props.C19.atomic_counter_exact m.kind (surface_no_plain m hm) N k is hc")
    L.append("")
    L.append("/-- … guarded adds are linearizable, seeds are distinct, and a termination request is seen -/")
    L.append("theorem surface_adds_linearizable (m : Member) (hm : m ∈ surface) (xss : List (List Sol)) (is : List Nat)")
    L.append("    (hc : Complete (addThreads m.kind xss) is) :")
    L.append("    ∃ l : List Sol, l.Perm xss.flatten ∧ (∀ xs ∈ xss, xs.Sublist l) ∧")
    L.append("      (exec SStep.apply (addThreads m.kind xss) SStore.init is).sols = addAll l [] :=")
    L.append("  OmplModel.Props.C19.guarded_linearizable m.kind (surface_no_plain m hm) xss is hc")
    L.append("")
    L.append("theorem surface_add_clear_linearizable (m : Member) (hm : m ∈ surface) (opss : List (List QOp)) (is : List Nat)")
    L.append("    (hc : Complete (qThreads m.kind opss) is) :")
    L.append("    ∃ l : List QOp, l.Perm opss.flatten ∧ (∀ ops ∈ opss, ops.Sublist l) ∧")
    L.append("      (exec QStep.apply (qThreads m.kind opss) SStore.init is).sols = seqRun l [] :=")
    L.append("  OmplModel.Props.C19.guarded_add_clear_linearizable m.kind (surface_no_plain m hm) opss is hc")
    L.append("")
    L.append("theorem surface_seeds_distinct (m : Member) (hm : m ∈ surface) (N k : Nat) (is : List Nat) :")
    L.append("    ((exec GStep.apply (seedThreads m.kind N k) GStore.init is).handed.map Prod.snd).Nodup :=")
    L.append("  (OmplModel.Props.C19.seedgen_distinct m.kind (surface_no_plain m hm) N k is).1")
    L.append("")
    L.append("/-! ## planner-internal monitors (fields a multi-threaded planner shares between its worker threads) -/")
    L.append("")
    L.append("structure Field where")
    L.append("  name : String")
    L.append("  mutex : String")
    L.append("  workers : List String        -- functions that run on the planner's worker threads")
    L.append("  workerSites : Nat            -- access sites inside them")
    L.append("  unguarded : List String      -- worker sites not holding the mutex, or split over two lock scopes")
    L.append("  otherSites : List String     -- sites in single-threaded phases / progress getters (not part of the obligation)")
    L.append("")
    L.append("def plannerFields : List Field := [")
    rows = []
    for f in fields:
        rows.append("  ⟨%s, %s, [%s], %d, [%s], [%s]⟩" % (
            lean_str(f["name"]), lean_str(f["mutex"]), ", ".join(lean_str(w) for w in f["workers"]), f["worker_sites"],
            ", ".join(lean_str(u) for u in f["unguarded"][:12]), ", ".join(lean_str(u) for u in f["other_sites"][:16])))
    L.append(",\n".join(rows))
    L.append("]")
    L.append("")
    L.append("/-- **the obligation**: every access to a guarded field from a worker thread holds its lock, in one lock scope per")
    L.append("function (no check outside / act inside).  This is what makes the monitor step of the model —")
    L.append("`MStep.report`, one step — the right granularity for `OmplModel.Props.C19.cforest_best_cost_monotone`. -/")
    L.append("theorem planner_fields_guarded : ∀ f ∈ plannerFields, f.unguarded = [] := by decide")
    L.append("")
    L.append("end OmplModel.Generated.SharedAccess")
    return "\n".join(L) + "\n"


def regenerate():
    """extract + write (under a lock, only on change).  Returns (table, changed)."""
    table = extract()
    fields = extract_planner_fields()
    text = render(table, fields)
    os.makedirs(os.path.dirname(OUT), exist_ok=True)
    with open(OUT + ".lock", "w") as lk:
        fcntl.flock(lk, fcntl.LOCK_EX)
        old = open(OUT).read() if os.path.isfile(OUT) else None
        changed = old != text
        if changed:
            tmp = OUT + ".tmp.%d" % os.getpid()
            open(tmp, "w").write(text)
            os.replace(tmp, OUT)
        fcntl.flock(lk, fcntl.LOCK_UN)
    regenerate.fields = fields
    return table, changed


if __name__ == "__main__":
    if "--json" in sys.argv:
        print(json.dumps(extract(), indent=1))
    elif "--fields" in sys.argv:
        print(json.dumps(extract_planner_fields(), indent=1))
    else:
        t, ch = regenerate()
        for f in regenerate.fields:
            print("%-55s %-24s worker sites=%d %s" % (f["name"], f["mutex"], f["worker_sites"],
                                                      ("UNGUARDED " + "; ".join(f["unguarded"][:4])) if f["unguarded"] else ""))
        for m in t:
            print("%-55s %-13s %-40s sites=%d %s" % (m["name"], m["kind"], m["decl_type"], m["sites"],
                                                     ("UNGUARDED " + ",".join(m["unguarded"][:4])) if m["unguarded"] else ""))
        print("written" if ch else "unchanged", OUT)
