#!/usr/bin/env python3
"""Translator for C07's aliasing obligation (DESIGN 1.5, `RwSets.lean`).

For every leaf-space `interpolate` body (and the Mobius / Klein overrides) of the CURRENT tree it extracts
the ordered list of reads of input-state fields and writes of output-state fields, and regenerates
lean/OmplModel/Generated/RwSets.lean.  Props/C07.lean then closes, by `decide`, "no input field is read
after the same-named output field was written" and "the three alias modes of the memory micro-model
write the same values" for every extracted body.  A change that writes an output field before a later
read of the same input field (e.g. `qr->x = …` before `dq` is computed) breaks that obligation.

Method: regex over the function body (comments and assert()s removed), statement by statement; in an
assignment the right-hand side is read before the left-hand side is written; pointer aliases
(`static_cast<…>(from)`) and the one reference alias (`double &v = state->…->value`) are resolved;
calls with a known footprint (arcLength, copyState, a component's interpolate, CompoundStateSpace::
interpolate, getU/getV/setU/setV) are expanded.  Anything the translator does not understand that
mentions from/to/state makes it fail loudly (exit 1) rather than guess.
The file is only rewritten when its content changes; writers are serialised by a lock file.
"""
import fcntl
import os
import re
import sys

VERIF = os.path.dirname(os.path.dirname(os.path.abspath(__file__)))
REPO = os.environ.get("VERIF_REPO", "/repo")
OUT = os.path.join(VERIF, "lean", "OmplModel", "Generated", "RwSets.lean")
B = os.path.join(REPO, "src", "ompl", "base")
BODIES = [
    ("RealVectorStateSpace", os.path.join(B, "spaces/src/RealVectorStateSpace.cpp"), r"RealVectorStateSpace::interpolate"),
    ("SO2StateSpace", os.path.join(B, "spaces/src/SO2StateSpace.cpp"), r"SO2StateSpace::interpolate"),
    ("SO3StateSpace", os.path.join(B, "spaces/src/SO3StateSpace.cpp"), r"SO3StateSpace::interpolate"),
    ("TimeStateSpace", os.path.join(B, "spaces/src/TimeStateSpace.cpp"), r"TimeStateSpace::interpolate"),
    ("DiscreteStateSpace", os.path.join(B, "spaces/src/DiscreteStateSpace.cpp"), r"DiscreteStateSpace::interpolate"),
    ("MobiusStateSpace", os.path.join(B, "spaces/special/src/MobiusStateSpace.cpp"), r"MobiusStateSpace::interpolate"),
    ("KleinBottleStateSpace", os.path.join(B, "spaces/special/src/KleinBottleStateSpace.cpp"), r"KleinBottleStateSpace::interpolate"),
]
QUAT = ["x", "y", "z", "w"]
OBJ = {"from": "from", "to": "to", "state": "out"}


def body_of(path, name):
    src = open(path).read()
    src = re.sub(r"/\*.*?\*/", " ", src, flags=re.S)
    src = re.sub(r"//[^\n]*", " ", src)
    m = re.search(r"void\s+(?:ompl::base::)?" + name + r"\s*\([^)]*\)\s*const\s*\{", src)
    if not m:
        raise SystemExit("rwsets: cannot find %s in %s" % (name, path))
    i = m.end()
    depth = 1
    while depth:
        depth += {"{": 1, "}": -1}.get(src[i], 0)
        i += 1
    return src[m.end():i - 1]


def strip_calls(text, fname):
    """remove `fname( … );` statements with balanced parentheses (assert / BOOST_ASSERT_MSG)"""
    while True:
        m = re.search(r"\b" + fname + r"\s*\(", text)
        if not m:
            return text
        i, depth = m.end(), 1
        while depth:
            depth += {"(": 1, ")": -1}.get(text[i], 0)
            i += 1
        text = text[:m.start()] + text[i:]


def parse_stmt(s, i):
    """tiny statement parser: ('simple', text) | ('if', cond, then, else) | ('block', nodes); a `for`
    loop is its header plus its body executed once (all accesses must use the loop index itself)."""
    while i < len(s) and s[i].isspace():
        i += 1
    if i >= len(s):
        return None, i
    if s[i] == "{":
        nodes, i = parse_block(s, i + 1)
        return ("block", nodes), i
    m = re.match(r"(if|for)\s*\(", s[i:])
    if m:
        j, depth = i + m.end(), 1
        while depth:
            depth += {"(": 1, ")": -1}.get(s[j], 0)
            j += 1
        head = s[i + m.end():j - 1]
        body, j = parse_stmt(s, j)
        if m.group(1) == "for":
            if not re.search(r"\+\+\s*i\b|\bi\s*\+\+", head):
                raise SystemExit("rwsets: unsupported loop header `%s`" % head)
            return ("block", [("simple", head.split(";")[1]), body]), j
        k = j
        while k < len(s) and s[k].isspace():
            k += 1
        els = None
        if re.match(r"else\b", s[k:]):
            els, j = parse_stmt(s, k + 4)
        return ("if", head, body, els), j
    j, depth = i, 0
    while s[j] != ";" or depth:
        depth += {"(": 1, ")": -1}.get(s[j], 0)
        j += 1
    return ("simple", s[i:j]), j + 1


def parse_block(s, i):
    nodes = []
    while True:
        while i < len(s) and s[i].isspace():
            i += 1
        if i >= len(s):
            return nodes, i
        if s[i] == "}":
            return nodes, i + 1
        n, i = parse_stmt(s, i)
        if n:
            nodes.append(n)


def paths(node):
    """all control-flow paths through a node, each a list of statement texts (conditions included)"""
    if node is None:
        return [[]]
    if node[0] == "simple":
        return [[node[1]]]
    if node[0] == "block":
        out = [[]]
        for n in node[1]:
            out = [a + b for a in out for b in paths(n)]
        return out
    return [[node[1]] + p for p in paths(node[2])] + [[node[1]] + p for p in paths(node[3])]


def extract(name, path, fn):
    body = strip_calls(strip_calls(body_of(path, fn), "assert"), "BOOST_ASSERT_MSG")
    nodes, _ = parse_block(body, 0)
    out = []
    for p in paths(("block", nodes)):
        acc = extract_path(name, p)
        if acc not in out:
            out.append(acc)
    if not any(a[0] == "wr" for acc in out for a in acc):
        raise SystemExit("rwsets: %s: no output write found" % name)
    return out


def extract_path(name, stmts):
    ptr = dict(OBJ)                      # pointer variable -> object
    ref = {}                             # reference variable -> (object, field)
    acc = []                             # ("rd", obj, field) | ("wr", field)
    for st in [x.strip() for x in stmts]:
        if not st:
            continue
        m = re.search(r"(\w+)\s*=\s*static_cast<[^>]*>\s*\(\s*(\w+)\s*\)$", st)
        if m and m.group(2) in ptr:
            ptr[m.group(1)] = ptr[m.group(2)]
            continue
        names = "|".join(sorted(ptr, key=len, reverse=True))
        field = r"(?:->as<[^>]*>\(\))?->(?!as<|components\b|interpolate\b)(\w+)(\s*\[[^\]]*\])?(\s*\()?"
        pat = re.compile(r"\b(%s)%s" % (names, field))
        m = re.match(r"(?:const\s+)?double\s*&\s*(\w+)\s*=\s*(.*)$", st)
        if m:
            a = pat.search(m.group(2))
            if not a or a.group(4):
                raise SystemExit("rwsets: %s: unsupported reference `%s`" % (name, st))
            ref[m.group(1)] = (ptr[a.group(1)], a.group(2) + (a.group(3) or "").replace(" ", ""))
            continue
        # collect accesses of this statement in textual order: (start, end, kind, obj, field)
        found = []
        for a in pat.finditer(st):
            obj, f, idx, call = ptr[a.group(1)], a.group(2), (a.group(3) or "").replace(" ", ""), a.group(4)
            if call:
                g = re.match(r"(get|set)(U|V)$", f)
                if not g:
                    raise SystemExit("rwsets: %s: unknown method %s in `%s`" % (name, f, st))
                found.append((a.start(), a.end(), "rd" if g.group(1) == "get" else "set", obj, g.group(2)))
            else:
                found.append((a.start(), a.end(), "acc", obj, f + idx))
        for r_, (obj, f) in ref.items():
            for a in re.finditer(r"(?<![\w>.])%s\b" % r_, st):
                found.append((a.start(), a.end(), "acc", obj, f))
        for a in re.finditer(r"\barcLength\s*\(\s*(\w+)\s*,\s*(\w+)\s*\)", st):
            for q in QUAT:
                found.append((a.start(), a.start(), "rd", ptr[a.group(1)], q))
            for q in QUAT:
                found.append((a.start(), a.start(), "rd", ptr[a.group(2)], q))
        for a in re.finditer(r"\bcopyState\s*\(\s*(\w+)\s*,\s*(\w+)\s*\)", st):
            if ptr[a.group(1)] != "out":
                raise SystemExit("rwsets: %s: copyState into an input" % name)
            for q in QUAT:
                found.append((a.start(), a.start(), "rd", ptr[a.group(2)], q))
            for q in QUAT:
                found.append((a.end(), a.end(), "wrnow", "out", q))
        a = re.search(r"components_\[(\d)\]->interpolate\s*\(", st)
        if a:                            # SO(2) / R^1 component: reads both inputs' field, then writes it
            f = "UV"[int(a.group(1))] if name == "MobiusStateSpace" else "UV"[int(a.group(1))]
            found += [(a.start(), a.start(), "rd", "from", f), (a.start(), a.start(), "rd", "to", f), (a.end(), a.end(), "wrnow", "out", f)]
            st = st[:a.start()]
        a = re.search(r"CompoundStateSpace::interpolate\s*\(", st)
        if a:
            for f in "UV":
                found += [(a.start(), a.start(), "rd", "from", f), (a.start(), a.start(), "rd", "to", f), (a.end(), a.end(), "wrnow", "out", f)]
            st = st[:a.start()]
        found.sort(key=lambda x: (x[0], x[1]))
        # the assignment operator of the statement (not ==, <=, >=, !=)
        op = re.search(r"(?<![=!<>+\-*/])([+\-*/]?=)(?!=)", st)
        lhs = None
        if op:
            for fd in found:
                if fd[2] == "acc" and st[fd[1]:op.start()].strip() == "" and fd[1] <= op.start():
                    lhs = fd
        for fd in found:
            if fd is lhs:
                continue
            if fd[2] in ("acc", "rd"):
                acc.append(("rd", fd[3], fd[4]))
            elif fd[2] == "wrnow":
                acc.append(("wr", fd[4]))
            elif fd[2] == "set":
                if fd[3] != "out":
                    raise SystemExit("rwsets: %s: setter on an input state" % name)
                lhs_set = fd
        if lhs is not None:
            if lhs[3] != "out":
                raise SystemExit("rwsets: %s writes an input state: `%s`" % (name, st))
            if op.group(1) != "=":
                acc.append(("rd", "out", lhs[4]))
            acc.append(("wr", lhs[4]))
        for fd in found:
            if fd[2] == "set":
                acc.append(("wr", fd[4]))
    return acc


# ---- car-like spaces (round 10): the path overloads interpolate(from, path, t, state[, radius]) ----------------------
# Linear scan: every statement of the body in TEXTUAL order (all switch cases and both arms of every if: an over-approximation
# of each control-flow path), within a statement the reads before the writes.  Pointer variables are resolved: a state obtained
# from allocState() is a scratch object (its accesses are dropped), `state->as<…>()` is the output.  A loop body is scanned
# once; that is only sound if no loop body both reads an input state and writes the output, which is checked (fails loudly).
CAR_BODIES = [
    ("DubinsPathOverload", os.path.join(B, "spaces/src/DubinsStateSpace.cpp"),
     r"DubinsStateSpace::interpolate\s*\(\s*const\s+State\s*\*\s*from\s*,\s*const\s+DubinsPath\b[^)]*\)\s*const\s*\{"),
    ("ReedsSheppPathOverload", os.path.join(B, "spaces/src/ReedsSheppStateSpace.cpp"),
     r"ReedsSheppStateSpace::interpolate\s*\(\s*const\s+State\s*\*\s*from\s*,\s*const\s+ReedsSheppPath\b[^)]*\)\s*const\s*\{"),
]
CAR_GET = {"getX": ["X"], "getY": ["Y"], "getYaw": ["Yaw"]}
CAR_SET = {"setX": ["X"], "setY": ["Y"], "setYaw": ["Yaw"], "setXY": ["X", "Y"]}


def car_body(path, sig):
    src = open(path).read()
    src = re.sub(r"/\*.*?\*/", " ", src, flags=re.S)
    src = re.sub(r"//[^\n]*", " ", src)
    m = re.search(r"void\s+(?:ompl::base::)?" + sig, src)
    if not m:
        raise SystemExit("rwsets: cannot find the path overload %s in %s" % (sig[:40], path))
    i, depth = m.end(), 1
    while depth:
        depth += {"{": 1, "}": -1}.get(src[i], 0)
        i += 1
    return src[m.end():i - 1]


def car_stmt_accesses(name, st, ptr):
    """(reads, writes) of one statement; objects in {from, to, out}; scratch objects dropped"""
    names = "|".join(sorted(ptr, key=len, reverse=True))
    reads, writes, covered = [], [], []
    for a in re.finditer(r"\b(%s)\s*(?:->as<[^>]*>\(\))?\s*->\s*(\w+)\s*\(" % names, st):
        obj, meth = ptr[a.group(1)], a.group(2)
        covered.append(a.span())
        if meth in CAR_GET:
            reads += [(a.start(), obj, f) for f in CAR_GET[meth]]
        elif meth in CAR_SET:
            writes += [(a.start(), obj, f) for f in CAR_SET[meth]]
        elif meth == "as":
            continue
        else:
            raise SystemExit("rwsets: %s: unknown state method %s in `%s`" % (name, meth, st.strip()))
    for a in re.finditer(r"enforceBounds\s*\(\s*(%s)\b" % names, st):
        covered.append(a.span())
        reads.append((a.start(), ptr[a.group(1)], "Yaw"))
        writes.append((a.start(), ptr[a.group(1)], "Yaw"))
    for a in re.finditer(r"freeState\s*\(\s*(%s)\s*\)" % names, st):
        covered.append(a.span())
    # anything else that mentions a state pointer is not understood
    for a in re.finditer(r"\b(%s)\b" % names, st):
        if not any(c0 <= a.start() < c1 for c0, c1 in covered):
            raise SystemExit("rwsets: %s: state pointer `%s` used in a way the translator does not understand: `%s`" % (name, a.group(1), st.strip()))
    return sorted(reads), sorted(writes)


def extract_car(name, path, sig):
    body = strip_calls(strip_calls(car_body(path, sig), "assert"), "BOOST_ASSERT_MSG")
    ptr = dict(OBJ)
    acc = []
    loops = []                                           # (start, end) of every for-loop body
    body = re.sub(r"\bcase\s+\w+\s*:", ";", body)
    for m in re.finditer(r"\bfor\s*\(", body):
        i, depth = m.end(), 1
        while depth:
            depth += {"(": 1, ")": -1}.get(body[i], 0)
            i += 1
        while body[i].isspace():
            i += 1
        if body[i] != "{":
            raise SystemExit("rwsets: %s: for-loop without a braced body" % name)
        j, depth = i + 1, 1
        while depth:
            depth += {"{": 1, "}": -1}.get(body[j], 0)
            j += 1
        loops.append((i, j))
    flat = body
    pos = 0
    for piece in re.split(r"([;{}])", flat):
        start = pos
        pos += len(piece)
        st = piece.strip()
        if not st or st in ";{}" or st == "break":
            continue
        m = re.match(r"(?:auto|State|StateType)\s*\*?\s*(\w+)\s*=\s*(.*)$", st, flags=re.S)
        if m and re.search(r"\ballocState\s*\(", m.group(2)):
            ptr[m.group(1)] = "tmp"
            continue
        if m:
            a = re.match(r"\(?\s*(\w+)\b", m.group(2))
            if a and a.group(1) in ptr and re.fullmatch(r"\w+\s*(?:->as<[^>]*>\(\))?", m.group(2).strip()):
                ptr[m.group(1)] = ptr[a.group(1)]
                continue
        reads, writes = car_stmt_accesses(name, st, ptr)
        inloop = any(a <= start < b for a, b in loops)
        for _, obj, f in reads:
            if obj != "tmp":
                acc.append(("rd", obj, f, inloop))
        for _, obj, f in writes:
            if obj == "tmp":
                continue
            if obj != "out":
                raise SystemExit("rwsets: %s writes an input state: `%s`" % (name, st))
            acc.append(("wr", f, inloop))
    if any(a[0] == "rd" and a[1] in ("from", "to") and a[-1] for a in acc) and any(a[0] == "wr" and a[-1] for a in acc):
        raise SystemExit("rwsets: %s: a loop body reads an input state and writes the output (loop bodies are scanned once)" % name)
    if not any(a[0] == "wr" for a in acc):
        raise SystemExit("rwsets: %s: no output write found" % name)
    return [[a[:-1] for a in acc]]


def render(all_acc):
    fields = []
    for _, ps in all_acc:
        for acc in ps:
            for a in acc:
                if a[-1] not in fields:
                    fields.append(a[-1])
    L = ["import OmplModel.Model.SpaceInterp",
         "/-! GENERATED by extract/rwsets.py from the `interpolate` bodies of the current tree — do not edit.",
         "Ordered reads of input-state fields / writes of output-state fields (see `SpaceInterp.Alias`),",
         "one list per control-flow path of each body (a loop body is taken once: every access uses index `i`). -/",
         "namespace OmplModel.Generated.RwSets", "open OmplModel.SpaceInterp.Alias", "",
         "def fieldNames : List String := [%s]" % ", ".join('"%s"' % f for f in fields), ""]
    for name, ps in all_acc:
        rows, doc = [], []
        for acc in ps:
            items = []
            for a in acc:
                if a[0] == "rd":
                    items.append(".rd .%s %d" % (a[1], fields.index(a[2])))
                else:
                    items.append(".wr %d" % fields.index(a[1]))
            rows.append("[%s]" % ", ".join(items))
            doc.append("  " + " ".join(("r(%s.%s)" % (a[1], a[2]) if a[0] == "rd" else "W(%s)" % a[1]) for a in acc))
        L.append("/-- %s%s, one list per control-flow path:\n%s -/" % (name, " (interpolate(from, path, t, state): textual order, scratch state dropped)" if name.endswith("PathOverload") else "::interpolate", "\n".join(doc)))
        L.append("def %s : List (List Acc) :=\n  [%s]" % (name[0].lower() + name[1:], ",\n   ".join(rows)))
        L.append("")
    L.append("/-- every extracted path of every body -/")
    L.append("def bodies : List (List Acc) := %s" % " ++ ".join(n[0].lower() + n[1:] for n, _ in all_acc))
    L += ["", "end OmplModel.Generated.RwSets", ""]
    return "\n".join(L)


def main():
    all_acc = [(n, extract(n, p, fn)) for n, p, fn in BODIES] + [(n, extract_car(n, p, sig)) for n, p, sig in CAR_BODIES]
    text = render(all_acc)
    os.makedirs(os.path.dirname(OUT), exist_ok=True)
    with open(OUT + ".lock", "w") as lk:
        fcntl.flock(lk, fcntl.LOCK_EX)
        old = open(OUT).read() if os.path.isfile(OUT) else None
        if old != text:
            with open(OUT + ".tmp", "w") as f:
                f.write(text)
            os.replace(OUT + ".tmp", OUT)
            print("rwsets: %s rewritten" % os.path.relpath(OUT, VERIF))
        else:
            print("rwsets: unchanged")
        fcntl.flock(lk, fcntl.LOCK_UN)
    if "-v" in sys.argv:
        print(text)
    return 0


if __name__ == "__main__":
    sys.exit(main())
