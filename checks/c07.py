"""C07 — interpolation traces one consistent, bounded curve between its endpoints.

Obligations: theorems of lean/OmplModel/Props/C07.lean (kernel-checked, audited).
Correspondence: the real StateSpace::interpolate of libompl (harness/spaceinterp.cpp, linked against the
library built from the current tree) vs the Lean model (drv_spaceinterp), line by line, on every shipped
state space and random nested compounds (depth <= 3): interpolation result, satisfiesBounds and
equalStates of the result — bit-exact first, 1e-12 relative logged as numeric drift, beyond = disagreement.
Spec oracle (on the implementation's outputs only): the three alias modes agree bit for bit; the
result satisfies the bounds for every t; t=0 / t=1 give the endpoints (equalStates, or the library's
own sanityChecks statement distance <= float-eps slack); re-parameterisation
interpolate(interpolate(a,b,s), b, u) ~ interpolate(a,b,s+(1-s)u) for spaces without a discrete
component; distance(a, interpolate(a,b,t)) = t*distance(a,b) for the geodesic spaces the property lists.
Car-like spaces (Dubins plain + symmetric, Reeds-Shepp, Owen, Vana, VanaOwen, and wrappers / compounds containing them;
their own sanityChecks() switch the interpolation tests off): the same clauses on the 4-argument interpolate (closeness
measured on the pose values, not with their path-length distance; the position box is not judged: their curves leave it by
design), plus `walk`: the CACHED overloads (firstTime/path resp. a caller-held PathType) on one cache object per line —
first call at t=0 / t=1 / an interior t, sequences, re-use after the end points changed — compared point by point with the
4-argument result on fresh states, with the output aliasing either input.  Top-level Dubins / Reeds-Shepp are answered by
the Lean model (Model/SpaceInterpCar.lean over C14's planner models) bit for bit; the others by the oracle alone.
"""
import math
import os
from concurrent.futures import ThreadPoolExecutor

from lib import core

DRIVER = "drv_spaceinterp"
LEAN_TARGETS = ["OmplModel.Props.C07", DRIVER]
# imported by Props/C07.lean; its theorems are obligations of C07 too (car-like spaces: cached overloads, round 10)
EXTRA_PROPS = [os.path.join(core.LEAN, "OmplModel", "Props", "C07Car.lean")]
# The model (`interpolateTree`) already carries the PROPOSED Mobius repair notes/C07-fix-F159.diff.  While that diff is not
# in /repo the implementation equals the variant without it (`old159`) on the few lines where the two differ (the F159
# inputs — which the oracle reports as the known finding F159 — and extrapolation t outside [0,1], which is not judged).
# Such a line is counted, not reported.  SET TO False ONCE THE DIFF IS COMMITTED: from then on only the repaired variant
# is accepted (an in-quantifier revert is a VIOLATION either way, through the oracle, as soon as F159 is marked fixed).
ACCEPT_PRE_F159 = False
HARNESS = ("spaceinterp", ["spaceinterp.cpp"])
PI = math.pi
EPS_D = 2.0 ** -52
EPS_F = 2.0 ** -23                      # std::numeric_limits<float>::epsilon(): the slack of sanityChecks
CLAMP = math.acos(1.0 - 1e-9)           # SO3 arcLength returns 0 below this angle (F5, C06)
REL = 1e-12
fb = core.f2bits
bf = core.bits2f
WEIGHTS = [0.5, 1.0, 2.0, 1e-3, 1e3]
# zero-weight subspaces are legitimate (LTLSpaceInformation builds them) and interpolate must not depend on
# the weight at all: 0, a weight below DBL_EPSILON (what getMaximumExtent/getMeasure treat as zero), 1e-300
# and the smallest denormal are drawn at every nesting level
TINY_WEIGHTS = [0.0, 0.0, 1e-17, 1e-300, 5e-324]
SPECIAL = ("torus", "mobius", "klein", "sphere")
# car-like spaces (round 10): ("dubins", rho, sym, lo[2], hi[2]) ("rs", rho, lo[2], hi[2]) ("owen"|"vana"|"vanaowen", rho, maxPitch, lo, hi)
CAR2 = ("dubins", "rs")
CAR3 = ("owen", "vana", "vanaowen")
CAR = CAR2 + CAR3


def up(x):
    return math.nextafter(x, math.inf)


def dn(x):
    return math.nextafter(x, -math.inf)


# ---------------------------------------------------------------------------------- spaces
# ("rv", lo[], hi[]) ("so2",) ("so3",) ("time", None | (lo, hi)) ("disc", lo, hi) ("cmp", [(w, sp)…])
# ("se2", lo[2], hi[2]) ("se3", lo[3], hi[3]) ("torus", R, r) ("mobius", imax, rad) ("klein",)
# ("sphere", r) ("wrap", sp)
def space_tokens(sp):
    k = sp[0]
    if k == "rv":
        return ["rv", str(len(sp[1]))] + [fb(x) for x in sp[1]] + [fb(x) for x in sp[2]]
    if k in ("so2", "so3", "klein"):
        return [k]
    if k == "time":
        return ["time", "u"] if sp[1] is None else ["time", "b", fb(sp[1][0]), fb(sp[1][1])]
    if k == "disc":
        return ["disc", str(sp[1]), str(sp[2])]
    if k == "cmp":
        out = ["cmp", str(len(sp[1]))]
        for w, s in sp[1]:
            out += [fb(w)] + space_tokens(s)
        return out
    if k in ("se2", "se3"):
        return [k] + [fb(x) for x in sp[1]] + [fb(x) for x in sp[2]]
    if k in ("torus", "mobius"):
        return [k, fb(sp[1]), fb(sp[2])]
    if k == "sphere":
        return [k, fb(sp[1])]
    if k == "wrap":
        return ["wrap"] + space_tokens(sp[1])
    if k == "spacetime":          # ("spacetime", vmax, timeWeight, None | (lo, hi), space)
        return ["spacetime", fb(sp[1]), fb(sp[2])] + (["u"] if sp[3] is None else ["b", fb(sp[3][0]), fb(sp[3][1])]) + space_tokens(sp[4])
    if k == "empty":
        return ["empty"]
    if k == "dubins":
        return ["dubins", fb(sp[1]), "1" if sp[2] else "0"] + [fb(x) for x in sp[3]] + [fb(x) for x in sp[4]]
    if k == "rs":
        return ["rs", fb(sp[1])] + [fb(x) for x in sp[2]] + [fb(x) for x in sp[3]]
    if k in CAR3:
        return [k, fb(sp[1]), fb(sp[2]), fb(sp[3]), fb(sp[4])]
    if k == "cfw":                # CForestStateSpaceWrapper, top level only
        return ["cfw"] + space_tokens(sp[1])
    raise ValueError(k)


def parse_space(t, i=0):
    k = t[i]
    i += 1
    if k == "rv":
        n = int(t[i])
        lo = [bf(x) for x in t[i + 1:i + 1 + n]]
        hi = [bf(x) for x in t[i + 1 + n:i + 1 + 2 * n]]
        return ("rv", lo, hi), i + 1 + 2 * n
    if k in ("so2", "so3", "klein"):
        return (k,), i
    if k == "time":
        if t[i] == "u":
            return ("time", None), i + 1
        return ("time", (bf(t[i + 1]), bf(t[i + 2]))), i + 3
    if k == "disc":
        return ("disc", int(t[i]), int(t[i + 1])), i + 2
    if k == "cmp":
        n = int(t[i])
        i += 1
        cs = []
        for _ in range(n):
            w = bf(t[i])
            s, i = parse_space(t, i + 1)
            cs.append((w, s))
        return ("cmp", cs), i
    if k in ("se2", "se3"):
        n = 2 if k == "se2" else 3
        return (k, [bf(x) for x in t[i:i + n]], [bf(x) for x in t[i + n:i + 2 * n]]), i + 2 * n
    if k in ("torus", "mobius"):
        return (k, bf(t[i]), bf(t[i + 1])), i + 2
    if k == "sphere":
        return (k, bf(t[i])), i + 1
    if k == "wrap":
        s, i = parse_space(t, i)
        return ("wrap", s), i
    if k == "cfw":
        s, i = parse_space(t, i)
        return ("cfw", s), i
    if k == "empty":
        return ("empty",), i
    if k == "dubins":
        return ("dubins", bf(t[i]), t[i + 1] != "0", [bf(x) for x in t[i + 2:i + 4]], [bf(x) for x in t[i + 4:i + 6]]), i + 6
    if k == "rs":
        return ("rs", bf(t[i]), [bf(x) for x in t[i + 1:i + 3]], [bf(x) for x in t[i + 3:i + 5]]), i + 5
    if k in CAR3:
        return (k, bf(t[i]), bf(t[i + 1]), bf(t[i + 2]), bf(t[i + 3])), i + 4
    if k == "spacetime":
        vmax, tw = bf(t[i]), bf(t[i + 1])
        if t[i + 2] == "u":
            tb, i = None, i + 3
        else:
            tb, i = (bf(t[i + 3]), bf(t[i + 4])), i + 5
        s, i = parse_space(t, i)
        return ("spacetime", vmax, tw, tb, s), i
    raise ValueError("space kind " + k)


def leaves(sp, owner=None, w=1.0, out=None):
    """leaf components in state order: dicts kind/lo/hi/n (token count)/owner (the space whose
    interpolate clause handles this leaf: a special space, else the leaf itself)/w (effective weight)."""
    if out is None:
        out = []
    k = sp[0]

    def leaf(kind, n, lo=None, hi=None, ww=w):
        out.append({"kind": kind, "n": n, "lo": lo, "hi": hi, "owner": owner or kind, "w": ww})
    if k == "rv":
        leaf("rv", len(sp[1]), sp[1], sp[2])
    elif k == "so2":
        leaf("so2", 1)
    elif k == "so3":
        leaf("so3", 4)
    elif k == "time":
        leaf("time", 1, None if sp[1] is None else [sp[1][0]], None if sp[1] is None else [sp[1][1]])
    elif k == "disc":
        leaf("disc", 1, [sp[1]], [sp[2]])
    elif k == "cmp":
        for cw, s in sp[1]:
            leaves(s, owner, w * cw, out)
    elif k == "se2":
        leaf("rv", 2, sp[1], sp[2])
        leaf("so2", 1, ww=w * 0.5)
    elif k == "se3":
        leaf("rv", 3, sp[1], sp[2])
        leaf("so3", 4)
    elif k == "torus":
        out.append({"kind": "so2", "n": 1, "lo": None, "hi": None, "owner": owner or "torus", "w": w})
        out.append({"kind": "so2", "n": 1, "lo": None, "hi": None, "owner": owner or "torus", "w": w})
    elif k == "mobius":
        out.append({"kind": "so2", "n": 1, "lo": None, "hi": None, "owner": owner or "mobius", "w": w, "role": "u"})
        out.append({"kind": "rv", "n": 1, "lo": [-sp[1]], "hi": [sp[1]], "owner": owner or "mobius", "w": w, "role": "v"})
    elif k == "klein":
        out.append({"kind": "rv", "n": 1, "lo": [0.0], "hi": [PI], "owner": owner or "klein", "w": w, "role": "u"})
        out.append({"kind": "so2", "n": 1, "lo": None, "hi": None, "owner": owner or "klein", "w": w, "role": "v"})
    elif k == "sphere":
        out.append({"kind": "so2", "n": 1, "lo": None, "hi": None, "owner": owner or "sphere", "w": w})
        out.append({"kind": "rv", "n": 1, "lo": [0.0], "hi": [PI], "owner": owner or "sphere", "w": w})
    elif k in ("wrap", "cfw"):
        leaves(sp[1], owner, w, out)
    elif k == "empty":
        leaf("rv", 0, [], [])
    elif k in CAR:
        lo, hi = car_box(sp)
        out.append({"kind": "rv", "n": len(lo), "lo": lo, "hi": hi, "owner": owner or k, "w": w, "car": sp})
        out.append({"kind": "so2", "n": 1, "lo": None, "hi": None, "owner": owner or k, "w": w * 0.5, "car": sp})
    elif k == "spacetime":
        leaves(sp[4], owner, w * (1 - sp[2]), out)
        leaf("time", 1, None if sp[3] is None else [sp[3][0]], None if sp[3] is None else [sp[3][1]], w * sp[2])
    return out


def car_box(sp):
    """bounds of the R^n part of a car-like space: x y | x y z | x y z pitch"""
    k = sp[0]
    if k == "dubins":
        return list(sp[3]), list(sp[4])
    if k == "rs":
        return list(sp[2]), list(sp[3])
    if k == "owen":
        return [sp[3]] * 3, [sp[4]] * 3
    return [sp[3]] * 3 + [-sp[2]], [sp[4]] * 3 + [sp[2]]


def car_rho(sp):
    return sp[1]


def units(sp, out=None):
    """unit components in state order, as harness/spaceinterp.cpp's forUnits: wrappers and plain compounds
    (incl. SE2/SE3) are descended into; (kind, number of leaves() entries, the unit's own space)"""
    out = [] if out is None else out
    k = sp[0]
    if k == "cmp":
        for _, s_ in sp[1]:
            units(s_, out)
    elif k in ("wrap", "cfw"):
        units(sp[1], out)
    elif k == "spacetime":
        units(sp[4], out)
        out.append(("time", 1, ("time", sp[3])))
    elif k == "empty":
        out.append(("rv", 1, ("rv", [], [])))
    elif k == "se2":
        out += [("rv", 1, ("rv", sp[1], sp[2])), ("so2", 1, ("so2",))]
    elif k == "se3":
        out += [("rv", 1, ("rv", sp[1], sp[2])), ("so3", 1, ("so3",))]
    elif k in SPECIAL or k in CAR:
        out.append((k, 2, sp))
    else:
        out.append((k, 1, sp))
    return out


def ext_of(sp):
    """getMaximumExtent re-computed from the space description (the slack of the oracle does not take the
    implementation's word for it; C06 compares the extents themselves)"""
    k = sp[0]
    if k == "rv":
        return math.sqrt(sum((h - l) * (h - l) for l, h in zip(sp[1], sp[2])))
    if k == "so2":
        return PI
    if k == "so3":
        return 0.5 * PI
    if k == "time":
        return 1.0 if sp[1] is None else sp[1][1] - sp[1][0]
    if k == "disc":
        return float(sp[2] - sp[1])
    if k == "cmp":
        return sum(w * ext_of(s_) for w, s_ in sp[1] if w >= EPS_D)
    if k == "se2":
        return ext_of(("rv", sp[1], sp[2])) + 0.5 * PI
    if k == "se3":
        return ext_of(("rv", sp[1], sp[2])) + 0.5 * PI
    if k == "torus":
        return 2 * PI
    if k == "mobius":
        return PI + 2 * sp[1]
    if k == "klein":
        return 2 * PI
    if k == "sphere":
        return PI * sp[1]
    if k == "spacetime":
        return math.inf
    if k == "empty":
        return 0.0
    if k in CAR:
        lo, hi = car_box(sp)
        return ext_of(("rv", lo, hi)) + 0.5 * PI
    return ext_of(sp[1])


def kinds(sp, acc=None):
    acc = set() if acc is None else acc
    acc.add(sp[0])
    if sp[0] == "cmp":
        for _, s in sp[1]:
            kinds(s, acc)
    elif sp[0] in ("wrap", "cfw"):
        kinds(sp[1], acc)
    elif sp[0] == "spacetime":
        kinds(sp[4], acc)
    return acc


def is_continuous(sp):
    return "disc" not in kinds(sp)


def has_car(sp):
    return bool(kinds(sp) & set(CAR))


def is_geodesic(sp):
    """spaces the proportional-distance clause lists: R^n, SO(2), SO(3), SE(2), SE(3), time, torus and
    weighted compounds (and wrappers) of them."""
    return kinds(sp) <= {"rv", "so2", "so3", "se2", "se3", "time", "torus", "cmp", "wrap", "cfw", "empty"}


def depth(sp):
    if sp[0] == "cmp":
        return 1 + max([depth(s) for _, s in sp[1]] or [0])
    if sp[0] in ("wrap", "cfw"):
        return depth(sp[1])
    if sp[0] == "spacetime":
        return 1 + depth(sp[4])
    return 0


# ---------------------------------------------------------------------------------- state generators
def quat_norm(q):
    n = math.sqrt(sum(x * x for x in q))
    return [x / n for x in q]


def rand_quat(r):
    while True:
        q = [r.uniform(-1, 1) for _ in range(4)]
        n = sum(x * x for x in q)
        if 1e-3 < n <= 1:
            return quat_norm(q)


def so2_rand(r):
    v = r.uniform(-PI, PI)
    return v if v < PI else -PI


SO2_ADV = ["to-minus-pi", "from-minus-pi", "seam-close", "seam-wide", "pi-ulp", "half-turn", "coincident", "zero", "round-to-pi"]
# from-values for which from + ((pi - 1ulp) - from) * 1.0 rounds to exactly +pi in the SHORT branch (the F61 family)
ROUND_TO_PI = [0.7186777137621367, 0.7294028182616896, 0.6278140543261566, 0.8020298808435384, 0.2183890025040236, 1.01159838372536]


def so2_pair(r, cls):
    if cls == "round-to-pi":
        return r.choice(ROUND_TO_PI), dn(PI)
    if cls == "to-minus-pi":                      # the F4 family: any from > 0, to = -pi
        return r.choice([r.uniform(0.01, 3.1), PI / 2, dn(PI), 1.5]), -PI
    if cls == "from-minus-pi":
        return -PI, r.choice([r.uniform(0.01, 3.1), dn(PI), so2_rand(r)])
    if cls == "seam-close":                       # both sides of the seam, a few ulps / tiny distances away
        d1 = r.choice([0.0, 1e-15, 1e-12, 1e-9, 1e-6])
        d2 = r.choice([0.0, 1e-15, 1e-12, 1e-9, 1e-6])
        a, b = min(dn(PI), PI - d1), -PI + d2
        return (a, b) if r.chance(1, 2) else (b, a)
    if cls == "seam-wide":
        a, b = PI - r.uniform(0, 1.5), -PI + r.uniform(0, 1.5)
        a = min(a, dn(PI))
        return (a, b) if r.chance(1, 2) else (b, a)
    if cls == "pi-ulp":
        a = dn(PI)
        b = r.choice([so2_rand(r), -PI, up(-PI), dn(dn(PI)), 0.0])
        return (a, b) if r.chance(1, 2) else (b, a)
    if cls == "half-turn":                        # |diff| at / next to pi: the branch boundary
        a = r.uniform(-PI, 0)
        b = r.choice([a + PI, up(a + PI), dn(a + PI)])
        b = min(b, dn(PI))
        return (a, b) if r.chance(1, 2) else (b, a)
    if cls == "coincident":
        a = r.choice([so2_rand(r), -PI, dn(PI), 0.0])
        return a, a
    if cls == "zero":
        return r.choice([0.0, -0.0, 5e-324, -5e-324]), r.choice([so2_rand(r), 0.0, -PI])
    return so2_rand(r), so2_rand(r)


SO3_ADV = ["negated", "orthogonal", "orthogonal-basis", "near-1e-5", "near-1e-8", "near-clamp", "coincident",
           "negated-near", "identity"]


def so3_pair(r, cls):
    a = rand_quat(r)
    if cls == "negated":                          # q vs -q: the same rotation
        return a, [-x for x in a]
    if cls == "orthogonal-basis":                 # antipodal rotations, dq == 0 exactly
        i, j = r.below(4), r.below(3)
        j = j if j < i else j + 1
        e = [0.0] * 4
        f = [0.0] * 4
        e[i] = r.choice([1.0, -1.0])
        f[j] = r.choice([1.0, -1.0])
        return e, f
    if cls == "orthogonal":                       # dq ~ 0 of either sign (rotation by ~pi)
        b = rand_quat(r)
        d = sum(x * y for x, y in zip(a, b))
        b = quat_norm([y - d * x for x, y in zip(a, b)])
        return a, b
    if cls in ("near-1e-5", "near-1e-8", "near-clamp", "negated-near"):
        h = {"near-1e-5": 1e-5, "near-1e-8": 1e-8, "near-clamp": r.uniform(0.5, 2.0) * CLAMP,
             "negated-near": r.choice([1e-3, 1e-5, 0.3])}[cls]
        p = rand_quat(r)
        b = quat_norm([x + h * y for x, y in zip(a, p)])
        if cls == "negated-near":
            b = [-x for x in b]
        return a, b
    if cls == "coincident":
        return a, list(a)
    if cls == "identity":
        return [0.0, 0.0, 0.0, 1.0], r.choice([rand_quat(r), [0.0, 0.0, 0.0, -1.0], [1.0, 0.0, 0.0, 0.0]])
    return a, rand_quat(r)


def scalar_in(r, lo, hi, adv):
    if lo == hi:
        return lo
    if adv:
        return r.choice([lo, hi, up(lo), dn(hi), 0.5 * (lo + hi), r.uniform(lo, hi)])
    v = r.uniform(lo, hi)
    return min(max(v, lo), hi)


def leaf_pair(r, lf, mode, counts):
    """(from values, to values) of one leaf, both in bounds."""
    k = lf["kind"]
    if k == "so2":
        cls = "rand" if mode == "rand" else ("coincident" if mode in ("coincident", "wall") else r.choice(SO2_ADV))
        counts["pair:so2:" + cls] = counts.get("pair:so2:" + cls, 0) + 1
        a, b = so2_pair(r, cls)
        return [a], [b]
    if k == "so3":
        cls = "rand" if mode in ("rand", "wall") else ("coincident" if mode == "coincident" else r.choice(SO3_ADV))
        counts["pair:so3:" + cls] = counts.get("pair:so3:" + cls, 0) + 1
        return so3_pair(r, cls)
    if k == "disc":
        lo, hi = lf["lo"][0], lf["hi"][0]
        a = r.range(lo, hi)
        b = a if mode == "coincident" else (r.choice([lo, hi, r.range(lo, hi)]) if mode == "adv" else r.range(lo, hi))
        return [a], [b]
    if k == "time" and lf["lo"] is None:
        a = r.uniform(-1e3, 1e3)
        b = a if mode == "coincident" else r.uniform(-1e3, 1e3)
        return [a], [b]
    lo, hi = lf["lo"], lf["hi"]
    if mode == "wall":
        # motion along a wall of the box / start in a corner: some coordinates EQUAL in from and to, sitting
        # exactly on (or an ulp inside) a bound; the others free
        a, b = [], []
        for i in range(lf["n"]):
            if r.chance(2, 3):
                v = r.choice([lo[i], hi[i], lo[i], hi[i], up(lo[i]) if lo[i] < hi[i] else lo[i], dn(hi[i]) if lo[i] < hi[i] else hi[i]])
                a.append(v)
                b.append(v)
                counts["pair:rv:wall-coordinate"] = counts.get("pair:rv:wall-coordinate", 0) + 1
            else:
                a.append(scalar_in(r, lo[i], hi[i], False))
                b.append(scalar_in(r, lo[i], hi[i], False))
        return a, b
    a = [scalar_in(r, lo[i], hi[i], mode == "adv") for i in range(lf["n"])]
    if mode == "coincident":
        return a, list(a)
    b = [scalar_in(r, lo[i], hi[i], mode == "adv") for i in range(lf["n"])]
    return a, b


def tok(lf, vals):
    if lf["kind"] == "disc":
        return [str(int(v)) for v in vals]
    return [fb(v) for v in vals]


def special_seam_fix(r, sp_leaves, a, b, counts):
    """for Mobius / Klein components make the seam branch frequent (|du| > pi resp. pi/2)."""
    for i, lf in enumerate(sp_leaves):
        if lf.get("role") == "u" and lf["owner"] == "klein" and r.chance(1, 2):
            x = r.uniform(0, 0.7)
            y = PI - r.uniform(0, 0.7)
            a[i], b[i] = ([x], [y]) if r.chance(1, 2) else ([y], [x])
            counts["pair:klein:seam-forced"] = counts.get("pair:klein:seam-forced", 0) + 1


def clip(v, lo, hi):
    return min(max(v, lo), hi)


CAR_CLASSES = ["default", "default", "near", "near", "same-pos", "ahead", "behind", "flat", "steep"]


def car_fix(r, sp_leaves, a, b, counts):
    """pose-pair classes of the car-like components (the R^n leaf carrying "car" and the yaw leaf after it): target within
    4 rho, same position / different heading, straight ahead / behind, 3D: same altitude, steep climb"""
    for i, lf in enumerate(sp_leaves):
        if "car" not in lf or lf["kind"] != "rv":
            continue
        sp = lf["car"]
        rho = car_rho(sp)
        cls = r.choice(CAR_CLASSES)
        lo, hi = lf["lo"], lf["hi"]
        x, y, th = a[i][0], a[i][1], a[i + 1][0]
        if cls == "near":
            b[i][0] = clip(x + r.uniform(-4 * rho, 4 * rho), lo[0], hi[0])
            b[i][1] = clip(y + r.uniform(-4 * rho, 4 * rho), lo[1], hi[1])
        elif cls == "same-pos":
            b[i][0], b[i][1] = x, y
        elif cls in ("ahead", "behind"):
            d = r.choice([r.uniform(0.0, 6 * rho), rho, 2 * rho, 1e-3 * rho]) * (1 if cls == "ahead" else -1)
            nx, ny = x + d * math.cos(th), y + d * math.sin(th)
            if lo[0] <= nx <= hi[0] and lo[1] <= ny <= hi[1]:
                b[i][0], b[i][1], b[i + 1][0] = nx, ny, th
            else:
                cls = "default"
        elif cls == "flat" and lf["n"] >= 3:
            b[i][2] = a[i][2]
        elif cls == "steep" and lf["n"] >= 3:
            b[i][0] = clip(x + r.uniform(-rho, rho), lo[0], hi[0])
            b[i][1] = clip(y + r.uniform(-rho, rho), lo[1], hi[1])
        elif cls in ("flat", "steep"):
            cls = "default"
        counts["pair:%s:%s" % (sp[0], cls)] = counts.get("pair:%s:%s" % (sp[0], cls), 0) + 1


WALK_PATTERNS = ["fwd", "bwd", "interior-first", "one-first", "zero-first", "neg-zero-first", "random", "ends-only", "interior-only"]


def walk_ts(r, pat):
    n = r.choice([2, 3, 4, 8])
    if pat == "fwd":
        return [j / n for j in range(n + 1)]
    if pat == "bwd":
        return [j / n for j in range(n, -1, -1)]
    if pat == "interior-first":
        return [r.unit(), 0.0, 1.0, r.unit(), 1.0, 0.0, r.choice(T_NONDYADIC)]
    if pat == "one-first":
        return [1.0, r.unit(), 0.0, r.choice(T_NONDYADIC), 1.0]
    if pat == "zero-first":
        return [0.0, r.unit(), 1.0, r.choice(T_NONDYADIC), 0.0]
    if pat == "neg-zero-first":
        return [-0.0, r.choice(T_NONDYADIC), r.unit()]
    if pat == "ends-only":
        return [0.0, 1.0, 1.0, 0.0]
    if pat == "interior-only":
        return [r.unit() for _ in range(3)]
    return [r.choice([0.0, 1.0, r.unit(), r.unit(), dn(1.0), EPS_D, 5e-324, r.choice(T_NONDYADIC)]) for _ in range(r.range(1, 6))]


def gen_walk_line(r, sp, counts):
    """`walk` on a top-level car-like space: 1..3 legs on ONE cache (firstTime reset per leg, the path object kept):
    first call at t = 0 / at t = 1 / at an interior t, then a sequence on the same cache; later legs re-use the cache
    after the end points changed (new pair, the same pair swapped, the same start with a new target)"""
    lv = leaves(sp)
    legs = r.choice([1, 1, 2, 2, 3])
    out = ["walk", str(legs)]
    prev = None
    for j in range(legs):
        mode = r.choice(["rand", "adv", "rand", "wall"])
        how = "fresh" if prev is None else r.choice(["fresh", "swapped", "same-start", "same-target"])
        a, b = [], []
        for lf in lv:
            x, y = leaf_pair(r, lf, mode, {})
            a.append(x)
            b.append(y)
        car_fix(r, lv, a, b, counts)
        if how == "swapped":
            a, b = [list(v) for v in prev[1]], [list(v) for v in prev[0]]
        elif how == "same-start":
            a = [list(v) for v in prev[0]]
        elif how == "same-target":
            b = [list(v) for v in prev[1]]
        prev = (a, b)
        pat = r.choice(WALK_PATTERNS)
        ts = walk_ts(r, pat)
        counts["walk-leg:%s" % pat] = counts.get("walk-leg:%s" % pat, 0) + 1
        if j:
            counts["walk-cache-reused:%s" % how] = counts.get("walk-cache-reused:%s" % how, 0) + 1
        out += sum((tok(lf, v) for lf, v in zip(lv, a)), []) + sum((tok(lf, v) for lf, v in zip(lv, b)), [])
        out += [str(len(ts))] + [fb(t) for t in ts]
    return " ".join(out)


T_FIXED = [0.0, -0.0, 1.0, 0.5, 0.75, EPS_D, 5e-324, dn(1.0)]
# outside the property's quantifier: never judged by the oracle, but model and implementation must still agree
# bit for bit and nothing may crash (not generated for spaces with a discrete component: (int)floor(NaN) is UB)
T_OUTSIDE = [-0.25, 1.5, up(1.0), -5e-324, math.nan, math.inf, -1e300]
# non-dyadic parameters (what DiscreteMotionValidator's j/nd produces): 1-t and the products are inexact
T_NONDYADIC = [0.06, 0.07, 0.08, 0.19, 1.0 / 3.0, 0.1, 0.3, 0.57, 0.7, 0.93, 2.0 / 3.0, 0.01, 0.99]


def t_values(r, sp_leaves, a, b, n_rand):
    ts = list(T_FIXED) + [r.unit() for _ in range(n_rand)]
    k = r.below(len(T_NONDYADIC))
    ts += [T_NONDYADIC[k], T_NONDYADIC[(k + 3) % len(T_NONDYADIC)], T_NONDYADIC[(k + 7) % len(T_NONDYADIC)], r.below(101) / 100.0]
    # the seam family {from + |diff'| * t = pi}: the t at which the long SO(2) branch lands on +-pi
    for lf, x, y in zip(sp_leaves, a, b):
        if lf["kind"] == "so2":
            d = y[0] - x[0]
            if abs(d) > PI:
                L = 2 * PI - abs(d)
                hit = (PI - abs(x[0])) / L if L > 0 else 0.0
                if 0 <= hit <= 1:
                    ts += [hit, min(1.0, up(hit)), max(0.0, dn(hit))]
                break
    return ts


def gen_pair_lines(r, sp, mode, counts, n_rand_t, n_reparam):
    lv = leaves(sp)
    a, b = [], []
    for lf in lv:
        x, y = leaf_pair(r, lf, mode, counts)
        a.append(x)
        b.append(y)
    if mode != "coincident":
        special_seam_fix(r, lv, a, b, counts)
        car_fix(r, lv, a, b, counts)
    at = " ".join(sum((tok(lf, v) for lf, v in zip(lv, a)), []))
    bt = " ".join(sum((tok(lf, v) for lf, v in zip(lv, b)), []))
    sep = " " if at else ""
    lines = []
    tv = t_values(r, lv, a, b, n_rand_t)
    if r.chance(1, 4) and not any(lf["kind"] == "disc" for lf in lv):
        tv.append(r.choice(T_OUTSIDE))
        counts["t-outside-quantifier"] = counts.get("t-outside-quantifier", 0) + 1
    for t in tv:
        lines.append(("interp %s%s%s%s%s" % (at, sep, bt, sep, fb(t))).replace("  ", " "))
    for _ in range(n_reparam):
        s = r.choice([0.5, r.unit(), r.unit(), 0.0, 1.0, dn(1.0)])
        u = r.choice([0.5, r.unit(), r.unit(), 0.0, 1.0])
        lines.append(("interp2 %s%s%s%s%s %s" % (at, sep, bt, sep, fb(s), fb(u))).replace("  ", " "))
    return lines


def rv_space(r, n=None):
    n = n or r.range(1, 4)
    lo, hi = [], []
    for _ in range(n):
        c = r.below(7)
        if c == 5:
            m = r.choice([5.0, 1000.0, 1e6, 4.0, 37.5])
            l, h = -m, m
        elif c == 6:
            l = r.choice([4.0, 5.0, 100.0, 1e6])
            h = l + r.choice([1.0, 3.0, 1000.0])
        elif c == 0:
            l, h = -1.0, 1.0
        elif c == 1:
            l, h = 0.0, r.uniform(0.1, 10.0)
        elif c == 2:
            l, h = -1e3, 1e3
        elif c == 3:
            l = r.uniform(-100, 100)
            h = l + r.uniform(1e-6, 50)
        else:
            l = r.uniform(-5, 5)
            h = l                                 # degenerate dimension
        lo.append(l)
        hi.append(h)
    return ("rv", lo, hi)


def leaf_space(r):
    c = r.below(17)
    if c == 15:
        return ("dubins", r.choice([1.0, 0.25, 3.7]), r.chance(1, 2), [-10.0, -10.0], [10.0, 10.0])
    if c == 16:
        return ("rs", r.choice([1.0, 2.5]), [-10.0, -5.0], [10.0, 5.0])
    if c == 13:
        return ("spacetime", r.choice([0.5, 1.0, 3.0]), r.choice([0.0, 0.25, 0.5, 1.0]), r.choice([None, (0.0, r.uniform(1, 20))]),
                r.choice([("so2",), rv_space(r, 2), ("se2", [-1.0, -1.0], [1.0, 1.0])]))
    if c == 14:
        return ("empty",)
    if c == 0:
        return rv_space(r)
    if c == 1:
        return ("so2",)
    if c == 2:
        return ("so3",)
    if c == 3:
        return ("time", None)
    if c == 4:
        l = r.uniform(-10, 10)
        return ("time", (l, l + r.uniform(0.1, 100)))
    if c == 5:
        l = r.range(-5, 5)
        return ("disc", l, l + r.range(0, 9))
    if c == 6:
        return ("se2", [-1.0, r.uniform(-5, 0)], [1.0, r.uniform(0.1, 5)])
    if c == 7:
        return ("se3", [-1.0, -2.0, r.uniform(-5, 0)], [1.0, 2.0, r.uniform(0.1, 5)])
    if c == 8:
        return ("torus", r.uniform(1, 3), r.uniform(0.1, 0.9))
    if c == 9:
        return ("mobius", r.choice([1.0, 0.5, 2.0]), 1.0)
    if c == 10:
        return ("klein",)
    if c == 11:
        return ("sphere", r.choice([1.0, 3.0]))
    return ("wrap", r.choice([("so2",), rv_space(r, 2), ("so3",), ("se2", [0.0, 0.0], [1.0, 1.0])]))


def rand_compound(r, d):
    k = r.choice([0, 1, 2, 2, 3, 3]) if d > 1 else r.range(1, 3)
    cs = []
    for _ in range(k):
        if d < 3 and r.chance(1, 3):
            s = rand_compound(r, d + 1)
        else:
            s = leaf_space(r)
        cs.append((r.choice(TINY_WEIGHTS) if r.chance(1, 4) else r.choice(WEIGHTS), s))
    sp = ("cmp", cs)
    return ("wrap", sp) if r.chance(1, 10) else sp


def remutate(r, sp):
    """HISTORY: the same structure with re-drawn bounds and weights (what setBounds / setSubspaceWeight
    after setup() produce); an unbounded time component may become bounded, never the reverse"""
    k = sp[0]
    if k == "rv":
        return rv_space(r, len(sp[1]))
    if k == "time":
        if sp[1] is None and r.chance(1, 2):
            return sp
        l = r.uniform(-10, 10)
        return ("time", (l, l + r.uniform(0.1, 100)))
    if k == "disc":
        l = r.range(-5, 5)
        return ("disc", l, l + r.range(0, 9))
    if k == "cmp":
        return ("cmp", [((r.choice(TINY_WEIGHTS) if r.chance(1, 3) else r.choice(WEIGHTS)), remutate(r, s_)) for _, s_ in sp[1]])
    if k in ("se2", "se3"):
        n = rv_space(r, len(sp[1]))
        if any(not l < h for l, h in zip(n[1], n[2])):
            return sp                      # SE2/SE3::setBounds insists on low < high
        return (k, n[1], n[2])
    if k in ("wrap", "cfw"):
        return (k, remutate(r, sp[1]))
    if k == "spacetime":
        tb = sp[3]
        if tb is not None or r.chance(1, 2):
            l = r.uniform(0, 5)
            tb = (l, l + r.uniform(1, 50))
        return ("spacetime", sp[1], sp[2], tb, remutate(r, sp[4]))
    return sp


def shipped_spaces():
    return [
        ("rv", [-1.0], [1.0]),
        ("rv", [-1.0, 0.0, -1e3], [1.0, 2.5, 1e3]),
        ("rv", [2.0, -3.0], [2.0, 4.0]),
        ("so2",), ("so2",), ("so2",),
        ("so3",), ("so3",),
        ("se2", [-1.0, -2.0], [1.0, 2.0]),
        ("se3", [-1.0, -2.0, 0.0], [1.0, 2.0, 5.0]),
        ("time", None),
        ("time", (0.0, 10.0)),
        ("disc", -3, 7),
        ("disc", 0, 0),
        ("torus", 2.0, 0.5),
        ("mobius", 1.0, 1.0),
        ("klein",),
        ("sphere", 1.0),
        ("wrap", ("so2",)),
        ("wrap", ("se2", [0.0, 0.0], [1.0, 1.0])),
        ("cmp", [(1.0, ("so2",)), (2.0, ("so2",))]),
        ("cmp", [(1.0, ("rv", [0.0], [1.0])), (0.5, ("disc", 0, 4)), (1.0, ("so2",))]),
        ("cmp", []),
        # the remaining shipped spaces that inherit or forward interpolate: SpaceTime (a compound [space, time] with
        # weights 1-w, w), Empty (R^0), CForestStateSpaceWrapper (forwards to the wrapped space, shares its states),
        # WrapperStateSpace around compounds / special spaces (aliasing goes through the wrapper's inner states)
        ("spacetime", 1.0, 0.5, None, ("rv", [-1.0, -1.0], [1.0, 1.0])),
        ("spacetime", 2.0, 0.0, (0.0, 10.0), ("se2", [-5.0, -5.0], [5.0, 5.0])),
        ("spacetime", 0.5, 1.0, (0.0, 4.0), ("so2",)),
        ("empty",),
        ("cmp", [(1.0, ("empty",)), (1.0, ("so2",)), (0.0, ("empty",))]),
        ("cfw", ("se2", [-1.0, -2.0], [1.0, 2.0])),
        ("cfw", ("so3",)),
        ("cfw", ("cmp", [(1.0, ("so2",)), (0.0, ("rv", [-5.0], [5.0])), (2.0, ("klein",))])),
        ("wrap", ("wrap", ("so2",))),
        ("wrap", ("mobius", 1.0, 1.0)),
        ("wrap", ("klein",)),
        ("wrap", ("cmp", [(1.0, ("wrap", ("so3",))), (0.5, ("disc", 0, 3))])),
        # discrete spaces with lower == upper and close to the int extremes (difference stays representable)
        ("disc", 5, 5),
        ("disc", 2147483000, 2147483647),
        ("disc", -2147483648, -2147483000),
        ("disc", -1073741823, 1073741823),
        ("disc", -2147483648, 2147483647),      # states can be more than INT_MAX apart (F155)
        # boxes whose walls have large magnitude (ulp(bound) > DBL_EPSILON: satisfiesBounds' slack no longer hides an ulp)
        ("rv", [-5.0, -5.0], [5.0, 5.0]),
        ("rv", [-1000.0, -1000.0], [1000.0, 1000.0]),
        ("rv", [-1e6, 4.0, -37.5], [1e6, 7.0, 37.5]),
        ("se2", [-1000.0, -5.0], [1000.0, 5.0]),
        ("se3", [-5.0, -1000.0, 4.0], [5.0, 1000.0, 1e6]),
        ("time", (5.0, 1000.0)),
        # zero / vanishing weights at every nesting level, over every plain leaf kind
        ("cmp", [(0.0, ("so2",)), (1.0, ("rv", [-1.0], [1.0]))]),
        ("cmp", [(1.0, ("rv", [0.0, -2.0], [1.0, 2.0])), (0.0, ("so3",)), (0.0, ("disc", -2, 5)), (0.0, ("time", (0.0, 4.0))),
                 (0.0, ("time", None)), (0.0, ("rv", [-3.0], [5.0]))]),
        ("cmp", [(0.0, ("so2",)), (0.0, ("rv", [0.0], [1.0]))]),
        ("cmp", [(1.0, ("cmp", [(0.0, ("cmp", [(1.0, ("so2",)), (0.0, ("so3",))])), (2.0, ("time", (0.0, 1.0)))])),
                 (5e-324, ("rv", [-1.0, -1.0], [1.0, 1.0])), (1e-300, ("so2",))]),
        ("wrap", ("cmp", [(0.0, ("se2", [-1.0, -1.0], [1.0, 1.0])), (1e-17, ("torus", 2.0, 0.5)), (0.0, ("mobius", 1.0, 1.0))])),
    ] + car_spaces()


def car_spaces():
    """the car-like spaces (their sanityChecks() switch STATESPACE_INTERPOLATION off) and wrappers / compounds of them"""
    box = ([-10.0, -10.0], [10.0, 10.0])
    return [
        ("dubins", 1.0, False) + box,
        ("dubins", 1.0, True) + box,
        ("dubins", 0.25, False, [-3.0, -2.0], [3.0, 2.0]),
        ("dubins", 3.7, True, [-20.0, -20.0], [20.0, 20.0]),
        ("rs", 1.0) + box,
        ("rs", 2.5, [-5.0, -5.0], [5.0, 5.0]),
        ("owen", 1.0, 0.5, -10.0, 10.0),
        ("owen", 2.5, 0.7, -20.0, 20.0),
        ("vana", 1.0, 0.5, -10.0, 10.0),
        ("vanaowen", 1.0, 0.5, -10.0, 10.0),
        ("wrap", ("dubins", 1.0, False) + box),
        ("cfw", ("dubins", 1.0, True) + box),
        ("cmp", [(1.0, ("dubins", 2.0, True) + box), (0.0, ("wrap", ("rs", 1.0) + box))]),
        ("cmp", [(1.0, ("so2",)), (2.0, ("wrap", ("rs", 1.0) + box)), (0.5, ("rv", [-1.0], [1.0])), (1e-17, ("dubins", 1.0, False) + box)]),
        ("cmp", [(1.0, ("owen", 1.0, 0.5, -10.0, 10.0)), (1.0, ("so2",))]),
        ("wrap", ("vana", 1.0, 0.5, -10.0, 10.0)),
        ("cmp", [(1.0, ("vanaowen", 1.0, 0.5, -10.0, 10.0)), (0.0, ("disc", 0, 3))]),
    ]


def gen_scripts(ck, tier):
    """list of (tag, script lines, counts)"""
    n_pairs, n_rand_sp, n_rand_t, n_rep = (40, 300, 3, 4) if tier == "quick" else (100, 1200, 5, 6)
    scripts = []
    spaces = [("shipped", sp) for sp in shipped_spaces()]
    r0 = ck.rng.fork("spaces")
    for i in range(n_rand_sp):
        spaces.append(("nested", rand_compound(r0.fork("c%d" % i), 1)))
    chunk = 6
    for c in range(0, len(spaces), chunk):
        lines = ["spaceinterp"]
        counts = {}
        for j, (tag, sp) in enumerate(spaces[c:c + chunk]):
            r = ck.rng.fork("pairs%d" % (c + j))
            lines.append("space " + " ".join(space_tokens(sp)))
            counts["space:" + tag] = counts.get("space:" + tag, 0) + 1
            for kd in kinds(sp):
                counts["space-kind:" + kd] = counts.get("space-kind:" + kd, 0) + 1
            counts["space-depth:%d" % depth(sp)] = counts.get("space-depth:%d" % depth(sp), 0) + 1
            np_ = n_pairs if tag == "shipped" else max(3, n_pairs // 2)
            if kinds(sp) & set(CAR3):
                np_ = max(3, np_ // 2)          # every interpolate of a 3D space runs its path search
            mutate_at = np_ // 2 if r.chance(1, 3) else -1
            for p in range(np_):
                if p == mutate_at:
                    sp = remutate(r, sp)
                    lines.append("mutate " + " ".join(space_tokens(sp)))
                    counts["history:mutate-after-setup"] = counts.get("history:mutate-after-setup", 0) + 1
                mode = ["adv", "rand", "wall", "adv", "rand", "coincident", "adv", "wall"][p % 8]
                counts["pair-mode:" + mode] = counts.get("pair-mode:" + mode, 0) + 1
                lines += gen_pair_lines(r, sp, mode, counts, n_rand_t, n_rep if is_continuous(sp) else 1)
                if sp[0] in CAR:
                    for _ in range(3 if sp[0] in CAR2 else 2):
                        lines.append(gen_walk_line(r, sp, counts))
            if tag == "shipped":
                lines.append("sanity")
        scripts.append(("gen%d" % (c // chunk), lines, counts))
    return scripts


# ---------------------------------------------------------------------------------- parsing outputs
def fields(line):
    out = {}
    for part in line.split(" | "):
        p = part.split()
        if p:
            out[p[0]] = p[1:]
    return out


def split_state(lv, toks):
    out, i = [], 0
    for lf in lv:
        out.append(toks[i:i + lf["n"]])
        i += lf["n"]
    return out


def vals(lf, toks):
    return [int(x) for x in toks] if lf["kind"] == "disc" else [bf(x) for x in toks]


def leaf_in_bounds(lf, v):
    """the leaf's satisfiesBounds, re-stated (used only to attribute a failure to a component)."""
    k = lf["kind"]
    if k == "so2":
        return -PI <= v[0] < PI
    if k == "so3":
        n = sum(x * x for x in v)
        nrm = math.sqrt(n) if abs(n - 1.0) > EPS_D else 1.0
        return abs(nrm - 1.0) < 1e-9
    if k == "disc":
        return lf["lo"][0] <= v[0] <= lf["hi"][0]
    if lf["lo"] is None:
        return not any(math.isnan(x) for x in v)
    if k == "time":
        return lf["lo"][0] - EPS_D <= v[0] <= lf["hi"][0] + EPS_D
    return all(not (x - EPS_D > h or x + EPS_D < l) for x, l, h in zip(v, lf["lo"], lf["hi"]))


def leaf_close(lf, x, y):
    """leafwise closeness with the sanityChecks slack (used to attribute a failure to a component, and
    for the end-point clause in the one case where the library's distance cannot be called at all)."""
    k = lf["kind"]
    if k == "disc":
        return x == y
    if k == "so2":
        d = abs(x[0] - y[0])
        return min(d, abs(2 * PI - d)) <= EPS_F
    if k == "so3":
        return min(math.dist(x, y), math.dist(x, [-v for v in y])) <= 2 * CLAMP
    return all(abs(p - q) <= EPS_F * max(1.0, abs(p), abs(q)) for p, q in zip(x, y))


def has_sentinel(lf, v):
    """the harness fills a distinct output with 7.77e77 (R^n, time) / 77 (SO2) / (7,7,7,7) (SO3) / upper+1000
    (discrete) before the call: a leaf that still holds it was never written by interpolate"""
    k = lf["kind"]
    if k == "so2":
        return v[0] == 77.0
    if k == "so3":
        return v == [7.0] * 4
    if k == "disc":
        hi, lo = lf["hi"][0], lf["lo"][0]
        return v[0] == (hi + 1000 if hi <= 2147483647 - 1000 else (lo - 1000 if lo >= -2147483648 + 1000 else hi))
    return any(x == 7.77e77 for x in v)


def ulp_out(lf, v):
    """how far an R^n / time leaf value lies outside its bounds, in ulps of the largest operand
    magnitude the box allows (from + (to - from) * t is off by up to an ulp of |from| or |to - from|)"""
    worst = 0.0
    for x, l, h in zip(v, lf["lo"], lf["hi"]):
        u = math.ulp(max(abs(l), abs(h), 1e-300))
        if x > h:
            worst = max(worst, (x - h) / u)
        if x < l:
            worst = max(worst, (l - x) / u)
    return worst


def so2_coded(a, b, t):
    """SO2StateSpace::interpolate as coded (after the F4 and F61 fixes: both branches wrapped), in IEEE double"""
    diff = b - a
    if abs(diff) <= PI:
        v = a + diff * t
    else:
        diff = 2.0 * PI - diff if diff > 0.0 else -2.0 * PI - diff
        v = a - diff * t
    if v >= PI:
        v -= 2.0 * PI
    elif v < -PI:
        v += 2.0 * PI
    return v


MOBIUS_ROUNDING = ("mobius cylinder branch: rounding carries u onto the seam, SO2 interpolate wraps it to the other side "
                   "and v is not mirrored")


def mobius_seam_rounding(fu, bu, tt):
    """Mobius cylinder branch (|du| <= pi) whose SO(2) value from + diff*t rounds onto / past the seam, so that the
    (repaired) SO(2) clause wraps it to the other side (F159)"""
    d = bu - fu
    if abs(d) > PI:
        return False
    v = fu + d * tt
    return v >= PI or v < -PI


def klein_coded(u1, v1, u2, v2, t):
    """KleinBottleStateSpace::interpolate as coded (after the F4 fix), in IEEE double"""
    du = u2 - u1
    if abs(du) <= 0.5 * PI:
        return u1 + (u2 - u1) * t, so2_coded(v1, v2, t)
    du = PI - du if du > 0.0 else -PI - du
    u = u1 - du * t
    crossed = False
    if u > PI:
        u -= PI
        crossed = True
    elif u < 0.0:
        u += PI
        crossed = True
    if crossed:
        v1 = PI - v1 if v1 > 0.0 else -PI - v1
    else:
        v2 = PI - v2 if v2 > 0.0 else -PI - v2
    dv = v2 - v1
    if abs(dv) <= PI:
        v = v1 + dv * t
    else:
        dv = 2.0 * PI - dv if dv > 0.0 else -2.0 * PI - dv
        v = v1 - dv * t
        if v >= PI:
            v -= 2.0 * PI
        elif v < -PI:
            v += 2.0 * PI
    return u, v


def dist_coded(sp, la, lb, clamp, pos=None, w=1.0):
    """the weighted distance of a geodesic space as coded (clamp=True) or with SO(3)'s arcLength clamp
    removed (clamp=False); la/lb = leaf value lists in state order"""
    pos = [0] if pos is None else pos
    k = sp[0]

    def nxt():
        x, y = la[pos[0]], lb[pos[0]]
        pos[0] += 1
        return x, y
    if k in ("rv", "empty"):
        x, y = nxt()
        return math.sqrt(sum((p - q) * (p - q) for p, q in zip(x, y)))
    if k == "so2":
        x, y = nxt()
        d = abs(x[0] - y[0])
        return 2.0 * PI - d if d > PI else d
    if k == "so3":
        x, y = nxt()
        dq = abs(sum(p * q for p, q in zip(x, y)))
        if clamp and dq > 1.0 - 1e-9:
            return 0.0
        return math.acos(min(1.0, dq))
    if k == "time":
        x, y = nxt()
        return abs(x[0] - y[0])
    if k == "cmp":
        return sum(cw * dist_coded(s_, la, lb, clamp, pos) for cw, s_ in sp[1])
    if k == "se2":
        return dist_coded(("rv",), la, lb, clamp, pos) + 0.5 * dist_coded(("so2",), la, lb, clamp, pos)
    if k == "se3":
        return dist_coded(("rv",), la, lb, clamp, pos) + dist_coded(("so3",), la, lb, clamp, pos)
    if k == "torus":
        x = dist_coded(("so2",), la, lb, clamp, pos)
        y = dist_coded(("so2",), la, lb, clamp, pos)
        return math.sqrt(x * x + y * y)
    if k in ("wrap", "cfw"):
        return dist_coded(sp[1], la, lb, clamp, pos)
    raise ValueError(k)


def parse_op(sp, line):
    """('interp'|'interp2', from leaf values, to leaf values, params)"""
    lv = leaves(sp)
    t = line.split()
    n = sum(lf["n"] for lf in lv)
    a = split_state(lv, t[1:1 + n])
    b = split_state(lv, t[1 + n:1 + 2 * n])
    a = [vals(lf, x) for lf, x in zip(lv, a)]
    b = [vals(lf, x) for lf, x in zip(lv, b)]
    return t[0], lv, a, b, [bf(x) for x in t[1 + 2 * n:]]


def so2_class(a, b, rv):
    branch = "short" if abs(b - a) <= PI else "long"
    if rv == PI:
        where = "result == +pi"
    elif rv > PI:
        where = "result > pi"
    elif rv < -PI:
        where = "result < -pi"
    else:
        where = "result in range"
    return "%s-branch %s" % (branch, where)


# ---------------------------------------------------------------------------------- car-like spaces (round 10)
BY_DESIGN = ("car-like curve leaves the position box (by design: Dubins / Reeds-Shepp / 3D Dubins curves between in-bounds poses swing "
             "outside it; the motion validators test satisfiesBounds of every interpolated state) - counted, not judged")
PITCH_SLACK = 1e-5          # the vertical profile is a Dubins word in the (arc length, altitude) plane: DUBINS_EPS-scale snaps


def gap_bin(gap, tol):
    return "0" if gap == 0 else "<= 1e-12" if gap <= 1e-12 else "<= 1e-7" if gap <= 1e-7 else "<= tolerance" if gap <= tol else "> tolerance"


SYM_SWITCH = ("symmetric Dubins: the remainder is re-planned in the other direction (the shorter of dubins(s3,to) and the reversed "
              "dubins(to,s3) is not the direction the original motion used)")
RS_TIE = "Reeds-Shepp: the path re-planned from the point at s is a different word of the same length (tie between optimal words)"
RS_F67 = ("Reeds-Shepp: the path re-planned from the point at s is longer than the remainder of the motion, while reedsShepp(to, s3) "
          "has exactly the remainder's length (asymmetry at an interpolated pose: the degenerate remaining word - a single straight or "
          "arc segment - is rejected by the ZERO threshold in one direction only: C14's F67)")


RS_F67_STRAIGHT = ("Reeds-Shepp: the path re-planned from the point at s is longer than the remainder of the motion, which is a straight "
                   "segment (degenerate word rejected by the ZERO threshold: C14's F67)")


RS_F67_PAIR = ("Reeds-Shepp: the end points of the motion are joined by a straight segment but the planner returned a longer word "
               "(degenerate word rejected by the ZERO threshold: C14's F67), so the path re-planned from the point at s is shorter than the remainder")


def car_reparam_class(usp, sub, s3t, tot, clen, s, frt=None):
    """why a car-like component's continued interpolation left the original motion, from the FORWARD path lengths the harness
    printed for (from,to) (to,from) (s3,to) (to,s3) — independent of the interpolation under test"""
    if clen == "-":
        return "distance beyond tolerance"
    L = [bf(x) for x in clen.split(",")]
    if usp[0] == "dubins":
        if usp[2] and (L[1] < L[0]) != (L[3] < L[2]):
            return SYM_SWITCH
        return "distance beyond tolerance"
    if usp[0] == "rs":
        rem = (1.0 - s) * L[0]
        if abs(L[2] - rem) <= 1e-9 * (1.0 + L[0]):
            return RS_TIE
        if L[2] > rem and abs(L[3] - rem) <= 1e-9 * (1.0 + L[0]) and abs(L[1] - L[0]) <= 1e-9 * (1.0 + L[0]):
            # independent signature of F67: the whole motion is symmetric (L(a,b) = L(b,a)), the opposite direction finds the
            # remainder's exact length, only reedsShepp(s3, to) is longer
            return RS_F67
        if L[2] > rem:
            # the remainder is a pure straight segment (target on the axis of the intermediate pose, same heading): the straight
            # word is rejected in both directions (rounding leaves the target 1e-16 off the axis)
            (x, y), th = vals(sub[0], s3t[:2]), bf(s3t[2])
            (x2, y2), th2 = vals(sub[0], tot[:2]), bf(tot[2])
            dx, dy = x2 - x, y2 - y
            dth = abs(th2 - th)
            if abs(dx * math.sin(th) - dy * math.cos(th)) <= 1e-9 * (1.0 + math.hypot(dx, dy)) and min(dth, abs(2 * PI - dth)) <= 1e-9 \
                    and abs(math.hypot(dx, dy) / car_rho(usp) - rem) <= 1e-9 * (1.0 + L[0]):
                return RS_F67_STRAIGHT
        if L[2] < rem and frt is not None:
            (x, y), th = vals(sub[0], frt[:2]), bf(frt[2])
            (x2, y2), th2 = vals(sub[0], tot[:2]), bf(tot[2])
            dx, dy = x2 - x, y2 - y
            dth = abs(th2 - th)
            if abs(dx * math.sin(th) - dy * math.cos(th)) <= 1e-9 * (1.0 + math.hypot(dx, dy)) and min(dth, abs(2 * PI - dth)) <= 1e-9 \
                    and L[0] > math.hypot(dx, dy) / car_rho(usp) * (1.0 + 1e-9):
                return RS_F67_PAIR
    return "distance beyond tolerance"


def car_by_design(lf, v):
    """an out-of-bounds R^n leaf of a car-like space whose only offence is the POSITION (x, y, z): not judged.
    The yaw (SO2 leaf), a NaN, a sentinel and a pitch outside [-maxPitch, maxPitch] by more than rounding are."""
    if "car" not in lf or lf["kind"] != "rv" or any(math.isnan(x) for x in v) or has_sentinel(lf, v):
        return False
    if lf["n"] == 4 and not (lf["lo"][3] - PITCH_SLACK <= v[3] <= lf["hi"][3] + PITCH_SLACK):
        return False
    return True


def pose_gap(lv, xt, yt):
    """closeness of two printed states on their values: max |difference| over the leaves, angles wrapped (a car-like space's own
    distance is not a closeness measure: a pose a hair behind the other is a full circle away); per leaf index"""
    gaps = []
    for lf, x, y in zip(lv, split_state(lv, xt), split_state(lv, yt)):
        if lf["kind"] == "disc":
            gaps.append(0.0 if x == y else math.inf)
            continue
        g = 0.0
        for j, (p_, q_) in enumerate(zip(vals(lf, x), vals(lf, y))):
            d_ = abs(p_ - q_)
            if lf["kind"] == "so2" or (lf.get("car") and lf["n"] == 4 and j == 3):
                d_ = min(d_, abs(2 * PI - d_))
            g = max(g, d_) if d_ == d_ else math.inf
        gaps.append(g)
    return gaps


def car_tol(sp):
    """what separates `the same point up to the solvers' own tolerances` from another point: DUBINS_EPS / RS_EPS = 1e-6 scale
    snaps in mod2pi and the end-pose assertions of the word solvers (position rho * (1 + L) * 3e-6, heading 2.5e-6; C14)"""
    return 4e-6 * (ext_of(sp) + 10.0 * car_rho(sp))


def parse_walk(sp, line):
    lv = leaves(sp)
    n = sum(lf["n"] for lf in lv)
    t = line.split()
    legs, i, out = int(t[1]), 2, []
    for _ in range(legs):
        a = [vals(lf, x) for lf, x in zip(lv, split_state(lv, t[i:i + n]))]
        b = [vals(lf, x) for lf, x in zip(lv, split_state(lv, t[i + n:i + 2 * n]))]
        k = int(t[i + 2 * n])
        ts = [bf(x) for x in t[i + 2 * n + 1:i + 2 * n + 1 + k]]
        out.append((a, b, ts, t[i:i + n], t[i + n:i + 2 * n]))
        i += 2 * n + 1 + k
    return lv, out


def split_states(toks):
    out, cur = [], []
    for x in toks:
        if x == "/":
            out.append(cur)
            cur = []
        else:
            cur.append(x)
    return out + [cur] if (cur or out) else []


def oracle_walk(sp, line, out):
    """the cached overloads, judged against the 4-argument interpolate on fresh states (printed by the harness as m<j>):
    an interior point must be THE point interpolate(from, to, t) gives, bit for bit, whatever was asked of the cache before
    (first call at an end point, cache re-used after the end points changed); an end point asked of a warm cache is integrated
    along the stored path and must reach the end point up to the solvers' tolerance; aliasing the output with either input
    changes nothing; yaw stays in [-pi, pi)"""
    lv, legs = parse_walk(sp, line)
    f = fields(out)
    kind = sp[0]
    fails = []
    tol = car_tol(sp)
    for j, (a, b, ts, at, bt) in enumerate(legs):
        if f.get("np%d" % j) == ["1"]:
            fails.append({"clause": "count", "class": "walk leg without a path (getPath fails: C14's F126 / F145; Vana: no helix) - not judged"})
            continue
        c, m, cf, ct = (split_states(f.get(k_ + str(j), [])) for k_ in ("c", "m", "cf", "ct"))
        if not (len(c) == len(m) == len(cf) == len(ct) == len(ts)):
            fails.append({"clause": "protocol", "culprit": kind, "class": "walk output malformed", "what": "leg %d: %d states for %d calls" % (j, len(c), len(ts))})
            continue
        first = "first call of the leg at t=%s" % ("0" if ts[0] <= 0 else "1" if ts[0] >= 1 else "interior")
        hist = first + (", cache re-used after the end points changed (firstTime reset)" if j else ", fresh cache")
        for q, t in enumerate(ts):
            if not 0.0 <= t <= 1.0:
                continue
            if any(x != x for lf, x_ in zip(lv, split_state(lv, c[q])) for x in vals(lf, x_)):
                fails.append({"clause": "nan", "culprit": kind, "class": "NaN in result (cached overload)", "what": "cached interpolate produced NaN at t=%r" % t})
                break
            for other, nm in ((cf, "output==from"), (ct, "output==to")):
                if other[q] != c[q]:
                    fails.append({"clause": "alias", "culprit": kind, "class": "cached overload, " + nm,
                                  "what": "cached interpolate (call %d of leg %d, t=%r) with %s differs from the run with a distinct output" % (q, j, t, nm)})
            for lf, x in zip(lv, split_state(lv, c[q])):
                v = vals(lf, x)
                if has_sentinel(lf, v):
                    fails.append({"clause": "bounds", "culprit": kind, "class": "component of the output never written (the harness's sentinel is still there)",
                                  "what": "cached interpolate, call %d of leg %d, t=%r" % (q, j, t)})
                elif not leaf_in_bounds(lf, v) and not car_by_design(lf, v):
                    fails.append({"clause": "bounds", "culprit": kind, "class": "cached overload: yaw / pitch out of range",
                                  "what": "cached interpolate, call %d of leg %d, t=%r: %r" % (q, j, t, v)})
                elif not leaf_in_bounds(lf, v):
                    fails.append({"clause": "count", "class": BY_DESIGN})
            if c[q] == m[q]:
                continue
            gap = max(pose_gap(lv, c[q], m[q]))
            if 0.0 < t < 1.0:
                fails.append({"clause": "walk", "culprit": kind, "class": "interior point of the cached overload is not interpolate(from,to,t): " + hist,
                              "what": "call %d of leg %d (t sequence %r): cached overload is %.6g away from the 4-argument interpolate at t=%r"
                                      % (q, j, ts[:q + 1], gap, t)})
                break
            fails.append({"clause": "count", "class": "walk: end point integrated along the warm cache, gap " + gap_bin(gap, tol)})
            if not gap <= tol:
                fails.append({"clause": "walk-endpoint", "culprit": kind, "class": "end point asked of a warm cache misses the end point: " + hist,
                              "what": "call %d of leg %d: cached overload at t=%r is %.6g away from the end point (tolerance %.3g)" % (q, j, t, gap, tol)})
                break
    return fails


# ---------------------------------------------------------------------------------- spec oracle
def oracle_line(sp, line, out):
    """the property evaluated on one implementation output line.
    returns a list of failure records (dicts with clause / culprit / class / what)."""
    if out in ("ok",) or line == "sanity":
        return []
    if out == "oob-input":
        return [{"clause": "generator", "culprit": sp[0], "class": "input not in bounds", "what": "generated state fails satisfiesBounds"}]
    if out == "bad-op" or out == "<missing>":
        return [{"clause": "protocol", "culprit": sp[0], "class": out, "what": "no result for a well-formed line (crash, abort or sanitizer report)"}]
    if line.startswith("walk "):
        return oracle_walk(sp, line, out)
    op, lv, a, b, par = parse_op(sp, line)
    if not all(0.0 <= p_ <= 1.0 for p_ in par):
        return []      # t outside [0,1] / NaN: outside the property's quantifier (correspondence and sanitizers only)
    f = fields(out)
    fails = []
    cnp = f.get("cnp", [])
    ext = ext_of(sp)
    slack = EPS_F * max(1.0, ext if math.isfinite(ext) else 1.0)
    has3 = [lf for lf in lv if lf["kind"] == "so3"]
    w3 = sum(abs(lf["w"]) for lf in has3)

    def attribute(rt, pred):
        """owner kind + leaf index of the first leaf of state tokens rt violating pred"""
        for i, (lf, x) in enumerate(zip(lv, split_state(lv, rt))):
            if not pred(lf, vals(lf, x), i):
                return lf["owner"], i
        return "unknown", None

    def bounds_record(rt, what, frm, tcall):
        """frm = leaf values of the `from` state and tcall the parameter of the interpolate call that produced rt"""
        own, i = attribute(rt, lambda lf, v, i: leaf_in_bounds(lf, v) or car_by_design(lf, v))
        if i is None and not any(has_sentinel(lf, vals(lf, x)) for lf, x in zip(lv, split_state(lv, rt))) and \
                any(car_by_design(lf, vals(lf, x)) and not leaf_in_bounds(lf, vals(lf, x)) for lf, x in zip(lv, split_state(lv, rt))):
            return {"clause": "count", "class": BY_DESIGN}
        cls = "out of bounds"
        if i is not None and "car" in lv[i]:
            cls = "yaw out of [-pi, pi)" if lv[i]["kind"] == "so2" else "pitch out of range / NaN"
        if i is not None:
            v = vals(lv[i], split_state(lv, rt)[i])
            if lv[i]["kind"] == "so2":
                cls = so2_class(frm[i][0], b[i][0], v[0])
                if cls == "short-branch result == +pi" and frm[i][0] + (b[i][0] - frm[i][0]) * tcall != PI:
                    cls = "short-branch result == +pi, but the coded from + diff * t does not round to +pi"
                if lv[i]["owner"] == "klein" and i > 0 and abs(b[i - 1][0] - frm[i - 1][0]) > 0.5 * PI:
                    # Klein's own copy of the SO(2) code (seam branch); its cylinder branch is the SO(2) clause
                    cls = "seam-branch v == +pi" if v[0] == PI else "seam-branch v outside [-pi, pi]"
                    if v[0] == PI and (0 < frm[i][0] < 2.0 ** -51 or 0 < b[i][0] < 2.0 ** -51) and \
                            klein_coded(frm[i - 1][0], frm[i][0], b[i - 1][0], b[i][0], tcall)[1] == PI:
                        cls = "seam-branch v == +pi: mirror(v) = pi - v rounds to +pi for 0 < v < ulp(pi)/2 (rounding)"
            if lv[i]["kind"] in ("rv", "time") and lv[i]["lo"] is not None and lv[i]["owner"] in ("rv", "time", "sphere") \
                    and ulp_out(lv[i], v) <= 4.0:
                # F60 is the rounding of the AS-CODED formula only: the value must be bit-identical to what
                # from + (to - from) * t gives in IEEE double (python floats); any other formula that leaves
                # the box — e.g. (1-t)*from + t*to, which moves a coordinate that is equal in from and to — alarms
                coded = [x + (y - x) * tcall for x, y in zip(frm[i], b[i])]
                if coded == v:
                    cls = "rounding: <= 4 ulp(max |bound|) outside the box (satisfiesBounds has only an absolute DBL_EPSILON slack)"
                else:
                    j = [k for k, (c, w) in enumerate(zip(coded, v)) if c != w][0]
                    cls = "out of the box, and not the value the coded from + (to - from) * t gives" + (
                        " (coordinate equal in from and to)" if frm[i][j] == b[i][j] else "")
        for lf, x in zip(lv, split_state(lv, rt)):
            if has_sentinel(lf, vals(lf, x)):
                own, cls = lf["owner"], "component of the output never written (the harness's sentinel is still there)"
                break
        return {"clause": "bounds", "culprit": own, "class": cls, "what": what}

    def nan_in(rt):
        for lf, x in zip(lv, split_state(lv, rt)):
            if lf["kind"] != "disc" and any(math.isnan(v) for v in vals(lf, x)):
                return True
        return False

    if op == "interp":
        t = par[0]
        r = f["r"]
        if nan_in(r):
            fails.append({"clause": "nan", "culprit": attribute(r, lambda lf, v, i: lf["kind"] == "disc" or not any(math.isnan(z) for z in v))[0],
                          "class": "NaN in result", "what": "interpolate produced NaN"})
            return fails
        if f["a1"] != r or f["a2"] != r:
            which = "output==from" if f["a1"] != r else "output==to"
            own, _ = attribute(f["a1"] if f["a1"] != r else f["a2"], lambda lf, v, i: tok(lf, v) == split_state(lv, r)[i])
            fails.append({"clause": "alias", "culprit": own, "class": which,
                          "what": "interpolate with %s differs from the run with a distinct output state" % which})
        un = units(sp)
        csb = f.get("csb", [])
        if f["sb"] != ["1"] or "0" in csb:
            rec = bounds_record(r, "interpolate(from,to,t) at t=%r does not satisfy the space's bounds" % t, a, t)
            if rec["clause"] != "count" and rec["culprit"] == "unknown" and "0" in csb:
                rec["culprit"] = un[csb.index("0")][0]
            fails.append(rec)
        # discrete components: the point at t is the linear blend rounded to an integer, i.e. within 1 of
        # from + (to - from) * t in exact arithmetic (the discrete analogue of "t times the full distance"; it
        # holds of the coded floor(from + (to-from)*t + 0.5) whenever the int difference does not overflow)
        from fractions import Fraction
        for li, lf in enumerate(lv):
            if lf["kind"] == "disc":
                x, y, z = a[li][0], b[li][0], vals(lf, split_state(lv, r)[li])[0]
                exact = x + (y - x) * Fraction(t)
                if abs(z - exact) > 1:
                    fails.append({"clause": "discrete-blend", "culprit": "disc",
                                  "class": "|to - from| > INT_MAX: the int difference to - from overflows" if abs(y - x) > 2147483647 else "off the linear blend by more than 1",
                                  "what": "discrete interpolate(%d, %d, %r) = %d, the linear blend is %.3f" % (x, y, t, z, float(exact))})
        # a coordinate that is equal in from and to stays exactly there for every t: a theorem of the coded
        # formulas (R^n/time/SO2 short branch: a + (a - a) * t = a + 0 = a in IEEE arithmetic for finite t;
        # discrete: floor(a + 0 + 0.5) = a; Props/C07.lean rv_interpolate_fixed_coordinate) — "coincident
        # states", motions along a wall of the box
        for li, lf in enumerate(lv):
            if lf["kind"] in ("rv", "time", "so2", "disc") and lf["owner"] in ("rv", "time", "so2", "disc", "torus", "sphere"):
                rv_ = vals(lf, split_state(lv, r)[li])
                for j, (x, y, z) in enumerate(zip(a[li], b[li], rv_)):
                    if x == y and z != x:
                        fails.append({"clause": "fixed-coordinate", "culprit": lf["owner"],
                                      "class": "coordinate equal in from and to moved" + (" off a bound" if lf["lo"] is not None and x in (lf["lo"][j], lf["hi"][j]) else ""),
                                      "what": "from[i] == to[i] == %r but interpolate(from,to,%r)[i] = %r" % (x, t, z)})
                        break
        dfr, dft, drt = f["dfr"][0], f["dft"][0], f["drt"][0]
        # end points, judged per unit component with the component's OWN equalStates / distance (a compound's
        # weighted distance cannot see a component whose weight is 0 or tiny); a component that is itself out
        # of bounds is already reported above
        for ui, (uk, _n, usp) in enumerate(un):
            if ui >= len(csb) or csb[ui] != "1":
                continue
            if ui < len(cnp) and cnp[ui] == "1":
                if t in (0.0, 1.0):
                    fails.append({"clause": "count", "class": "3D space without a path for the pair (getPath fails: C14's F126 / F145; Vana: no helix): interpolate stays at from - not judged"})
                continue
            cslack = EPS_F * max(1.0, ext_of(usp))
            li0 = sum(n_ for _, n_, _ in un[:ui])
            ovf = ", |to - from| > INT_MAX: the int difference to - from overflows" if uk == "disc" and abs(b[li0][0] - a[li0][0]) > 2147483647 else ""
            for tv, flag, dk, clause, name in ((0.0, "cef", "cdfr", "endpoint0", "from"), (1.0, "cet", "cdrt", "endpoint1", "to")):
                if t == tv and f[flag][ui] != "1" and not (f[dk][ui] != "-" and bf(f[dk][ui]) <= cslack):
                    cls_ = "t=%d%s" % (tv, ovf)
                    if uk == "mobius" and mobius_seam_rounding(a[li0][0], b[li0][0], t):
                        cls_ = MOBIUS_ROUNDING
                    fails.append({"clause": clause, "culprit": uk, "class": cls_,
                                  "what": "component %d (%s) of interpolate(from,to,%d) is not that of %s (its equalStates is false, its distance %s)"
                                          % (ui, uk, tv, name, f[dk][ui] if f[dk][ui] == "-" else bf(f[dk][ui]))})
        if f["sb"] != ["1"] and f.get("enf") == ["1"]:
            # the result is out of bounds (reported above); its distances were taken after enforceBounds on a
            # copy (+pi -> -pi, which e.g. lands on the mirrored twin in a Mobius strip), so the whole-space
            # distance clause below would only restate that failure
            return fails
        if is_geodesic(sp) and dfr != "-" and dft != "-":
            dev = abs(bf(dfr) - t * bf(dft))
            if not dev <= slack:
                rl_ = [vals(lf, x) for lf, x in zip(lv, split_state(lv, r))]
                c_fr, c_ft = dist_coded(sp, a, rl_, True), dist_coded(sp, a, b, True)
                near = lambda p_, q_: abs(p_ - q_) <= 1e-9 * max(1.0, abs(p_), abs(q_))
                # F64 = exactly the as-coded clamp: the implementation's two distances are the as-coded ones, and the
                # deviation is the sum, over the SO(3) leaves on the slerp branch whose point at t is still inside the
                # clamp band (|<from, r>| > 1-1e-9, so distance(from, r) is reported as 0), of weight * t * theta;
                # any other deviation alarms
                expected_dev = 0.0
                for lf, x, y, z in zip(lv, a, b, rl_):
                    if lf["kind"] == "so3":
                        dq = abs(sum(p_ * q_ for p_, q_ in zip(x, y)))
                        if dq <= 1.0 - 1e-9 and abs(sum(p_ * q_ for p_, q_ in zip(x, z))) > 1.0 - 1e-9:
                            expected_dev += abs(lf["w"]) * t * math.acos(dq)
                if has3 and near(bf(dfr), c_fr) and near(bf(dft), c_ft) and expected_dev > 0 and \
                        abs((t * bf(dft) - bf(dfr)) - expected_dev) <= slack:
                    fails.append({"clause": "dist-prop", "culprit": "so3", "class": "within the arcLength clamp (dq > 1-1e-9 -> 0)",
                                  "what": "distance(from, interpolate(t)) deviates from t*distance(from,to) by %.3g <= weight * acos(1-1e-9)" % dev})
                else:
                    fails.append({"clause": "dist-prop", "culprit": "+".join(sorted(set(lf["owner"] for lf in lv))), "class": "deviation beyond slack",
                                  "what": "distance(from, interpolate(t)) = %r but t*distance(from,to) = %r" % (bf(dfr), t * bf(dft))})
    else:
        s, u = par
        for key in ("s3", "r", "direct", "ra"):
            if nan_in(f[key]):
                fails.append({"clause": "nan", "culprit": sp[0], "class": "NaN in result", "what": "interpolate produced NaN (%s)" % key})
                return fails
        for key, flag in (("s3", "sbs3"), ("r", "sbr"), ("direct", "sbd")):
            if f[flag] != ["1"]:
                frm = [vals(lf, x) for lf, x in zip(lv, split_state(lv, f["s3"]))] if key == "r" else a
                tcall = {"s3": s, "r": u, "direct": s + (1.0 - s) * u}[key]
                fails.append(bounds_record(f[key], "%s of the re-parameterisation sequence (s=%r,u=%r) does not satisfy the bounds" % (key, s, u), frm, tcall))
        from fractions import Fraction
        s3l = [vals(lf, x) for lf, x in zip(lv, split_state(lv, f["s3"]))]
        for li, lf in enumerate(lv):
            if lf["kind"] == "disc":
                for key, x, tt in (("s3", a[li][0], s), ("direct", a[li][0], s + (1.0 - s) * u), ("r", s3l[li][0], u)):
                    y, z = b[li][0], vals(lf, split_state(lv, f[key])[li])[0]
                    if abs(z - (x + (y - x) * Fraction(tt))) > 1:
                        fails.append({"clause": "discrete-blend", "culprit": "disc",
                                      "class": "|to - from| > INT_MAX: the int difference to - from overflows" if abs(y - x) > 2147483647 else "off the linear blend by more than 1",
                                      "what": "discrete interpolate(%d, %d, %r) = %d (%s of the re-parameterisation sequence)" % (x, y, tt, z, key)})
                        break
        if f["ra"] != f["r"]:
            fails.append({"clause": "alias", "culprit": sp[0], "class": "output==from (continued interpolation)",
                          "what": "interpolate(s3,to,u,s3) differs from the run with a distinct output"})
        oob = any(f[flag] != ["1"] for flag in ("sbs3", "sbr", "sbd"))
        car = has_car(sp)
        if car and f["sbs3"] != ["1"]:
            # the intermediate point left the position box (by design), so the second leg would start from an out-of-bounds
            # state: outside the property's quantifier
            fails.append({"clause": "count", "class": "re-parameterisation not judged: the point at s is outside the position box of a car-like space"})
        elif is_continuous(sp) and (f["d"][0] != "-" or car) and not (oob and f.get("enf") == ["1"]):
            d = 0.0 if car else bf(f["d"][0])      # a car-like distance is not a closeness measure: per component, on the values
            un = units(sp)
            bad_units = []
            li_ = 0
            for ui, (uk, n_, usp) in enumerate(un):
                cd = f["cd"][ui]
                if uk in CAR:
                    if ui < len(cnp) and cnp[ui] == "1":
                        fails.append({"clause": "count", "class": "re-parameterisation not judged: 3D space without a path"})
                    else:
                        sub = lv[li_:li_ + n_]
                        off = sum(lf_["n"] for lf_ in lv[:li_])
                        wid = sum(lf_["n"] for lf_ in sub)
                        gap = max(pose_gap(sub, f["r"][off:off + wid], f["direct"][off:off + wid]))
                        fails.append({"clause": "count", "class": "reparam gap of a %s component %s" % (uk, gap_bin(gap, car_tol(usp)))})
                        if not gap <= car_tol(usp):
                            if uk in CAR2:
                                cl_ = f.get("clen", [])
                                fails.append({"clause": "reparam", "culprit": uk,
                                              "class": car_reparam_class(usp, sub, f["s3"][off:off + wid], sum((tok(lf_, v_) for lf_, v_ in zip(sub, b[li_:li_ + n_])), []),
                                                                         cl_[ui] if ui < len(cl_) else "-", s,
                                                                         sum((tok(lf_, v_) for lf_, v_ in zip(sub, a[li_:li_ + n_])), [])),
                                              "what": "interpolate(interpolate(a,b,s),b,u) is %.6g away from interpolate(a,b,s+(1-s)u) in the %s component "
                                                      "(s=%r,u=%r; closeness on the pose values)" % (gap, uk, s, u)})
                            else:
                                # Owen / Vana / VanaOwen paths are not geodesics of anything: re-planning from the point at s re-runs a
                                # root / radius search and returns another curve (C14's F128 for Vana): counted, not judged
                                fails.append({"clause": "count", "class": "re-parameterisation of a 3D Dubins space deviates (heuristic paths, re-planned from the point at s) - not judged"})
                elif cd != "-" and not bf(cd) <= EPS_F * max(1.0, ext_of(usp)):
                    bad_units.append((uk, bf(cd)))
                li_ += n_
            if "spacetime" in kinds(sp):
                d = 0.0     # SpaceTimeStateSpace::distance is infinite for pairs it calls unreachable: per component only
            if bad_units or not d <= slack:
                owners = sorted(set(k for k, _ in bad_units))
                cls = "distance beyond slack"
                if owners == ["klein"]:
                    # Klein seam branch: before the crossing the v-arc is chosen between from.v and mirror(to.v),
                    # after it between mirror(from.v) and to.v; when those are half a turn apart (|diffV| = pi up
                    # to rounding) the two choices can be opposite arcs and v jumps at the crossing (F62)
                    for i, lf in enumerate(lv):
                        if lf["owner"] == "klein" and lf.get("role") == "u" and abs(b[i][0] - a[i][0]) > 0.5 * PI:
                            v1, v2 = a[i + 1][0], b[i + 1][0]
                            m2 = (PI - v2) if v2 > 0 else (-PI - v2)
                            s3v = [vals(lf_, x_) for lf_, x_ in zip(lv, split_state(lv, f["s3"]))]
                            rv2 = [vals(lf_, x_) for lf_, x_ in zip(lv, split_state(lv, f["r"]))]
                            dv2 = [vals(lf_, x_) for lf_, x_ in zip(lv, split_state(lv, f["direct"]))]
                            coded_r = klein_coded(s3v[i][0], s3v[i + 1][0], b[i][0], v2, u)
                            coded_d = klein_coded(a[i][0], v1, b[i][0], v2, s + (1.0 - s) * u)
                            # F62 = exactly the as-coded tie: both points are bit-identical to the as-coded formula
                            if abs(abs(m2 - v1) - PI) <= 1e-6 and coded_r == (rv2[i][0], rv2[i + 1][0]) \
                                    and coded_d == (dv2[i][0], dv2[i + 1][0]):
                                cls = "klein seam branch, mirror(to.v) half a turn from from.v (tie between the two arcs)"
                if owners == ["mobius"]:
                    s3v_ = [vals(lf_, x_) for lf_, x_ in zip(lv, split_state(lv, f["s3"]))]
                    for i, lf in enumerate(lv):
                        if lf["owner"] == "mobius" and lf.get("role") == "u" and (
                                mobius_seam_rounding(s3v_[i][0], b[i][0], u) or mobius_seam_rounding(a[i][0], b[i][0], s) or
                                mobius_seam_rounding(a[i][0], b[i][0], s + (1.0 - s) * u)):
                            cls = MOBIUS_ROUNDING
                worst = max([x for _, x in bad_units] + [d])
                fails.append({"clause": "reparam", "culprit": "+".join(owners) or sp[0], "class": cls,
                              "what": "interpolate(interpolate(a,b,s),b,u) is %.6g away from interpolate(a,b,s+(1-s)u) (s=%r,u=%r; judged per "
                                      "component with its own distance)" % (worst, s, u)})
    return fails


def oracle(script, impl, notes=None):
    """(script, impl output) -> list of (line index in script, record); records of clause `count` (things looked at but not
    judged, with the reason) go to the dict `notes` instead"""
    sp = None
    res = []
    for i, line in enumerate(script[1:]):
        out = impl[i] if i < len(impl) else "<missing>"
        if line.startswith(("space ", "mutate ")):
            sp, _ = parse_space(line.split()[1:])
            if out != "ok":
                res.append((i + 1, {"clause": "protocol", "culprit": sp[0], "class": out, "what": "space not constructed"}))
            continue
        for rec in oracle_line(sp, line, out):
            if rec["clause"] == "count":
                if notes is not None:
                    notes[rec["class"]] = notes.get(rec["class"], 0) + 1
                continue
            res.append((i + 1, rec))
        if out == "<missing>":
            break
    return res


# ---------------------------------------------------------------------------------- correspondence
def cmp_tokens(lv, it, mt):
    """'same' | 'drift' | 'diff' for two state token lists"""
    if it == mt:
        return "same"
    if len(it) != len(mt):
        return "diff"
    worst = "same"
    for lf, x, y in zip(lv, split_state(lv, it), split_state(lv, mt)):
        if x == y:
            continue
        if lf["kind"] == "disc":
            return "diff"
        for p, q in zip(vals(lf, x), vals(lf, y)):
            if p == q or (math.isnan(p) and math.isnan(q)):
                continue
            if abs(p - q) <= REL * max(abs(p), abs(q)):
                worst = "drift"
            else:
                return "diff"
    return worst


def correspondence(script, impl, model):
    """list of (line index, kind 'drift'|'diff', key, impl-matches-pre-fix-clause?)"""
    sp, lv = None, None
    res = []
    for i, line in enumerate(script[1:]):
        o = impl[i] if i < len(impl) else "<missing>"
        m = model[i] if i < len(model) else "<missing>"
        if line.startswith(("space ", "mutate ")):
            try:
                sp, _ = parse_space(line.split()[1:])
                lv = leaves(sp)
            except Exception:
                sp = None
            if o != m:
                res.append((i + 1, "diff", "space", False))
            continue
        if line == "sanity":
            continue
        fo, fm = fields(o), fields(m)
        if m == "nomodel":
            res.append((i + 1, "nomodel", line.split()[0], False))
            continue
        if line.startswith("walk ") and fm and fo and o not in ("bad-op", "oob-input", "<missing>") and m not in ("bad-op", "oob-input", "<missing>"):
            for key in fm:
                if fo.get(key) != fm[key]:
                    res.append((i + 1, "diff", "walk", False))
                    break
            continue
        if not fm or not fo or (o in ("bad-op", "oob-input", "<missing>")) or (m in ("bad-op", "oob-input", "<missing>")):
            if o != m:
                res.append((i + 1, "diff", "line", False))
            continue
        pre159 = ACCEPT_PRE_F159 and any(
            (fm.get(k_ + "_old159") or (fm.get("old159") if k_ == "r" else None)) not in (None, fm[k_]) and
            fo.get(k_) == (fm.get(k_ + "_old159") or fm.get("old159")) for k_ in ("r", "s3", "direct") if k_ in fm)
        if pre159:
            res.append((i + 1, "pre159", "r", False))
            continue
        for key in ("r", "s3", "direct", "sb", "ef", "et"):
            if key not in fm:
                continue
            if key in ("sb", "ef", "et"):
                if fo.get(key) != fm[key]:
                    res.append((i + 1, "diff", key, False))
                continue
            c = cmp_tokens(lv, fo.get(key, []), fm[key])
            if c != "same":
                # label a tree that lost a fix: the implementation equals a FORMER variant of the SO(2) clause
                # (before the F61 fix / before the F4 fix) exactly where it differs from the current one
                former = fo.get(key) in (fm.get("old"), fm.get("old61"), fm.get("old159"), fm.get(key + "_old61"))
                res.append((i + 1, c, key, former))
    return res


# ---------------------------------------------------------------------------------- the check
def branch_counts(ck, script):
    sp = None
    for line in script[1:]:
        if line.startswith(("space ", "mutate ")):
            sp, _ = parse_space(line.split()[1:])
            continue
        if line == "sanity":
            ck.count("op:sanity")
            continue
        if line.startswith("walk "):
            ck.count("op:walk:" + sp[0])
            continue
        op, lv, a, b, par = parse_op(sp, line)
        ck.count("op:" + op + (":car-like" if has_car(sp) else ""))
        if op != "interp":
            continue
        t = par[0]
        if not 0.0 <= t <= 1.0:
            ck.count("t:outside-[0,1]-or-NaN (not judged)")
            continue
        ck.count("t:" + ("0" if t == 0 else "1" if t == 1 else "tiny" if t <= EPS_D else "1-ulp" if t == dn(1.0) else "interior"))
        for lf, x, y in zip(lv, a, b):
            if lf["kind"] == "so2" and lf["owner"] in ("so2", "torus", "sphere"):
                ck.count("branch:so2:" + ("long" if abs(y[0] - x[0]) > PI else "short"))
            elif lf["kind"] == "so3":
                dq = sum(p * q for p, q in zip(x, y))
                ck.count("branch:so3:" + ("copy" if abs(dq) > 1 - 1e-9 else "slerp-flip" if dq < 0 else "slerp"))
            elif lf.get("role") == "u":
                seam = abs(y[0] - x[0]) > (PI if lf["owner"] == "mobius" else 0.5 * PI)
                ck.count("branch:%s:%s" % (lf["owner"], "seam" if seam else "cylinder"))


def minimal(script, idx):
    """[header, the governing `space` line (+ the last `mutate` of that object, if any), the op line]"""
    j = idx
    while not script[j].startswith("space "):
        j -= 1
    mut = [l for l in script[j + 1:idx] if l.startswith("mutate ")][-1:]
    return [script[0], script[j]] + mut + [script[idx]]


def run_one(ck, hbin, script):
    impl, rc, err, model = ck.run_pair(hbin, DRIVER, script)
    return impl or [], rc, err or "", model


def corpus():
    d = os.path.join(core.VERIF, "corpus", "C07")
    out = []
    if os.path.isdir(d):
        for f in sorted(os.listdir(d)):
            if f.endswith(".txt"):
                out.append((f, [l.rstrip("\n") for l in open(os.path.join(d, f)) if l.strip() and not l.startswith("#")]))
    return out


def setup(ck):
    ck.build_harness(HARNESS[0], HARNESS[1], link_ompl=True)


def run(ck):
    ck.rule = ("one case = one interpolate / re-parameterisation line (space, from, to, t | s,u); non-trivial if from != to "
               "and the parameter is strictly inside (0,1); distinct by (space line, op line) text")
    ck.trusted += ["harness/spaceinterp.cpp + harness/common/spaces.h (protocol <-> real state spaces; no hooks in /repo)",
                   "car-like spaces: lean/OmplModel/Model/Dubins.lean and ReedsShepp.lean (C14's planner / integration models, imported read-only); "
                   "Owen / Vana / VanaOwen and wrappers / compounds of car-like spaces have no model here: the oracle (4-argument result on fresh, "
                   "non-aliased states as reference) judges alone",
                   "the aliasing clause is tied by running every interpolate with the output distinct, == from and == to "
                   "(bit comparison) and by the read/write-order obligation over lean/OmplModel/Generated/RwSets.lean when present",
                   "python oracle in checks/c07.py (slack = float epsilon * max(1, maximum extent), as StateSpace::sanityChecks; the extent is re-computed from the space description, not taken from the implementation)"]
    ck.assumptions += ["input states satisfy the space's own satisfiesBounds (SO(3): unit quaternions within 1e-9); t,s,u in [0,1]",
                       "theorems are over the reals: IEEE rounding is executed (bit-exact correspondence) but not verified",
                       "car-like spaces: the position box is not judged (curves between in-bounds poses leave it by design), pairs for which a 3D space "
                       "finds no path are not judged (C14's F126 / F145), re-parameterisation is demanded of Dubins and Reeds-Shepp only (3D paths are "
                       "heuristic and re-planned from the intermediate point); all three are counted in the evidence under `not-judged:`",
                       "re-parameterisation is demanded for spaces without a discrete component; proportional distance for R^n, SO(2), "
                       "SO(3), SE(2), SE(3), time, torus and weighted compounds/wrappers of them (as the property lists)"]
    gen = os.path.join(core.VERIF, "extract", "rwsets.py")
    if os.path.isfile(gen):
        r = core._run(["python3", gen])
        ck.log("extract/rwsets.py: %s" % ("ok" if r.returncode == 0 else "FAILED " + (r.stdout + r.stderr)[-300:]))
        if r.returncode != 0:
            ck.failed_obligations.append(("rwsets-translator", (r.stdout + r.stderr)[-400:]))
    ck.lean_build(LEAN_TARGETS, extra_props=EXTRA_PROPS)
    ck.audit(roots=["Drv.SpaceInterp"])
    if ck.tier == "thorough" and ck.lean_ok:
        ck.leanchecker(["OmplModel.Props.C07"])
    hbin = ck.build_harness(HARNESS[0], HARNESS[1], link_ompl=True)

    scripts = [("corpus:" + n, s, {}) for n, s in corpus()] + gen_scripts(ck, ck.tier)
    with ThreadPoolExecutor(max_workers=12) as ex:
        results = list(ex.map(lambda x: run_one(ck, hbin, x[1]), scripts))

    groups = {}          # (kind, record key) -> first example
    order = []
    for (tag, script, counts), (impl, rc, err, model) in zip(scripts, results):
        ck.traces_validated += 1
        ck.count("scripts:" + tag.split(":")[0].rstrip("0123456789"))
        for k, v in counts.items():
            ck.count(k, v)
        if not tag.startswith("corpus:malformed"):
            branch_counts(ck, script)
        sp = None
        for i, line in enumerate(script[1:]):
            if tag.startswith("corpus:malformed"):
                ck.count("malformed-lines")
                continue
            if line.startswith(("space ", "mutate ")):
                sp = line
                continue
            if line == "sanity":
                continue
            if line.startswith("walk "):
                ck.case((sp, line), True)
                continue
            op, lv, a, b, par = parse_op(parse_space(sp.split()[1:])[0], line)
            ck.case((sp, line), a != b and all(0.0 < p < 1.0 for p in par))
        if tag.startswith("gen") and len(ck.samples) < 4:
            ck.sample({"generator": tag, "script": script[:4] + ["…(%d more lines)" % (len(script) - 4)]})
        for ln_, o_ in zip(script[1:], impl):
            if ln_ == "sanity":
                ck.count("library-sanityChecks:" + " ".join(o_.split()[1:6]))
        notes = {}
        fails = [] if tag.startswith("corpus:malformed") else oracle(script, impl, notes)
        for k, v in notes.items():
            ck.count("not-judged:" + k, v)
        if rc != 0 and not any(r["clause"] == "protocol" for _, r in fails):
            fails.append((min(len(impl) + 1, len(script) - 1), {"clause": "protocol", "culprit": "harness", "class": "exit code %s" % rc,
                                                                "what": "harness exited with code %s: %s" % (rc, err[-300:])}))
        bad_lines = set()
        for idx, rec in fails:
            bad_lines.add(idx)
            key = ("oracle", rec["clause"], rec["culprit"], rec["class"])
            ck.count("oracle-fail:%s:%s:%s" % (rec["clause"], rec["culprit"], rec["class"]))
            if key not in groups:
                groups[key] = (script, idx, rec, impl, model)
                order.append(key)
        for idx, kind, key, is_old in correspondence(script, impl, model):
            if kind == "drift":
                ck.drift_events += 1
                ck.count("drift:" + key)
                continue
            if kind == "pre159":
                ck.count("implementation-without-the-proposed-F159-repair (accepted while ACCEPT_PRE_F159)")
                continue
            if kind == "nomodel":
                ck.count("oracle-only (space not covered by the Lean model):" + key)
                continue
            if idx in bad_lines:
                ck.count("disagreement-on-a-line-the-oracle-rejects" + (":impl-matches-a-former-SO2-clause (F4/F61 fix lost)" if is_old else ""))
                continue
            ck.disagreements += 1
            gk = ("corr", key, "pre-fix" if is_old else "", "")
            if gk not in groups:
                groups[gk] = (script, idx, {"clause": "correspondence", "culprit": key, "class": "pre-fix" if is_old else "",
                                            "what": "model and implementation disagree on `%s`" % key}, impl, model)
                order.append(gk)

    order.sort(key=lambda k_: 0 if k_[0] == "oracle" else 1)     # concrete failing inputs first
    if any(k_[0] == "oracle" and k_[1] in ("walk", "walk-endpoint") for k_ in order):
        # the cached overload is already reported with concrete failing call sequences; a `walk` line on which model and
        # implementation differ but that the oracle accepts (e.g. an end point that is now copied instead of integrated)
        # is the same change seen again, not a second finding
        for k_ in [k_ for k_ in order if k_[0] == "corr" and k_[1] == "walk"]:
            ck.count("correspondence disagreement on `walk` explained by the reported cached-overload failures")
            order.remove(k_)
    for key in order[:12]:
        script, idx, rec, impl, model = groups[key]
        small = minimal(script, idx)
        o, rc, err, m = run_one(ck, hbin, small)
        record = {"engine": "spaceinterp", "clause": rec["clause"], "culprit": rec["culprit"], "class": rec["class"], "what": rec["what"]}
        if key[0] == "oracle":
            still = oracle(small, o)
            if not still and rc == 0:
                small, o, m = script[:idx + 1], impl[:idx], model[:idx]
            if ck.report(record, script=small, expected=m, observed=o, engine="spaceinterp"):
                ck.log("property failure [%s / %s / %s]: %s" % (rec["clause"], rec["culprit"], rec["class"], rec["what"]))
        else:
            ck.report(record, script=small, expected=m, observed=o, found_input=False, engine="spaceinterp",
                      obligation="correspondence spaceinterp: StateSpace::interpolate vs OmplModel.SpaceInterp.interpolate differ on `%s`%s; the "
                                 "oracle accepts the implementation's output on this line (no failing input found by the seam-family search)"
                                 % (rec["culprit"], " (the implementation matches a former SO(2) clause: the F4 or F61 fix is missing)" if rec["class"] else ""))
            ck.log("correspondence disagreement on `%s` at line %d" % (rec["culprit"], idx))
    return 0


def replay(ck, data):
    hbin = ck.build_harness(HARNESS[0], HARNESS[1], link_ompl=True)
    ck.lean_build([DRIVER])
    script = data["script"]
    impl, rc, err, model = run_one(ck, hbin, script)
    for i, ln in enumerate(script[1:]):
        print("%s" % ln)
        print("   impl : %s" % (impl[i] if i < len(impl) else "<missing>"))
        print("   model: %s" % (model[i] if i < len(model) else "<missing>"))
    fails = oracle(script, impl)
    if rc != 0:
        print("harness exit code %s: %s" % (rc, err[-600:]))
    for idx, rec in fails:
        print("PROPERTY FAILS at line %d [%s / %s / %s]: %s" % (idx, rec["clause"], rec["culprit"], rec["class"], rec["what"]))
    diffs = [d for d in correspondence(script, impl, model) if d[1] == "diff"]
    for idx, kind, key, is_old in diffs:
        print("model and implementation disagree at line %d on `%s`%s" % (idx, key, " (implementation = a former SO(2) clause: F4 / F61 fix missing)" if is_old else ""))
    if fails or diffs or rc != 0:
        return 1
    print("no failure on the current tree")
    return 0


MANIFEST = {
    "engine": "spaceinterp",
    "category": "proof",
    "design_ref": "DESIGN.md 2.7",
    "text": "Lean 4 theorems over an executable model of StateSpace::interpolate for every shipped state space incl. SpaceTime, "
            "Empty, Wrapper and the CForest wrapper, and (round 10) the cached interpolate overloads of Dubins / Reeds-Shepp as a state machine "
            "over C14's planner models (history independence of the cache, the path overload's alias safety from extracted rw-sets); "
            "Owen / Vana / VanaOwen and compounds of car-like spaces are oracle-only; constrained spaces are C16's (end points, "
            "bounds, re-parameterisation incl. SO(3) slerp composition and the Mobius seam, proportional distance incl. SO(3) outside "
            "the arcLength clamp band, weight-irrelevance, fixed coordinates, a general soundness theorem for the aliasing rw-set "
            "obligation; arbitrarily nested weighted compounds by structural induction), "
            "tied to the C++ by bit-exact lock-step runs of the real libompl against the compiled model with the output aliased "
            "to neither / from / to (the model follows the tree: SO(2) with both branches wrapped, discrete with the double difference; "
            "former variants are kept as witnesses, an implementation equal to one of them where they differ is a violation), after histories (bounds / weights changed in place after setup), plus the property itself evaluated "
            "on the implementation's outputs per component.",
    "note": "Trusted: Lean kernel, the three standard axioms, the hand-written model outside the inputs the correspondence explored, "
            "the harness and the python oracle. Theorems are over the reals (rounding executed, not verified); SO(3) results need exactly-unit "
            "quaternions and exclude the arcLength clamp band for proportional distance (F64); Mobius/Klein re-parameterisation across "
            "the seam is compared, not proved.",
    "technique": "Lean 4 proof (case analysis on the SO(2) seam, structural induction over compounds) + differential correspondence + spec oracle",
}
