"""C17 — path post-processing preserves endpoints, validity and never worsens cost.

Obligations: theorems of lean/OmplModel/Props/C17.lean (kernel-checked, audited).
Correspondence (lock-step, bit-exact): the real PathSimplifier::collapseCloseVertices / ropeShortcutPath /
reduceVertices / partialShortcutPath (the last two under SCRIPTED random draws substituted for the private rng_),
PathGeometric::checkAndRepair (scripted raw sampler) and subdivide / interpolate() / interpolate(count)
(harness/pathops.cpp, compiled from the tree under test with ASan+UBSan) against the Lean model (drv_pathops), which gets
the same path plus the checkMotion / isValid transcript recorded on the real code as its oracle.  The model follows the
tree AFTER the fixes F9 / F55 / F56; the driver also prints the pre-fix variant so that a regression is named.
Trace conformance (no model): smoothBSpline, perturbPath, findBetterGoal, simplify, simplifyMax, PathHybridization and
the randomised runs of the routines above under the real RNG (seeded) and several objectives.
Spec oracle (Python, on the implementation's outputs only): endpoints, three-way classification of every output motion
(input motion / piece of an input or validated motion / recorded checkMotion-true pair), independent re-validation
against the boxes, length / own-objective monotonicity, subsequence and exact counts for densification, length
preserved by densification, simplify() true => check() true, hybrid cost <= best input cost.
"""
import concurrent.futures
import math
import os

from lib import core

DRIVER = "drv_pathops"
LEAN_TARGETS = ["OmplModel.Props.C17", DRIVER]
B = core.f2bits
F = core.bits2f

NON_ADDITIVE = ("toll", "tolli", "step", "stepi", "checker", "clear")     # motion cost not additive along interpolated points
# motion cost EXACTLY additive along interpolated points (up to rounding): the routines' own cost tests then bound path.cost(obj) itself.
# `lin` = state-cost integral over a LINEAR field (end-point trapezoid exact), `wreg` = length weighted by an expensive region (closed form):
# neither is a metric — a geometrically shorter chord can be costlier than the piece of path it replaces
ADDITIVE = ("len", "work", "lin", "wreg")
BG_OBJECTIVES = ("toll", "tolli", "step", "stepi", "checker", "integral", "clear", "work", "lin", "wreg")
LOCKSTEP = ("collapse", "rope", "subdivide", "interp", "interpn", "reduce", "pshort")
REMOVERS = ("collapse", "reduce")
DENSIFIERS = ("subdivide", "interp", "interpn")
LEN_MONOTONE = ("collapse", "reduce", "rope", "pshort")       # "never longer" (metric space, length objective)
OWN_OBJECTIVE = ("rope", "pshort", "perturb", "bettergoal")   # compare costs under their objective before replacing
ROPE_OBJ = ("work", "lin", "wreg", "wreg", "toll", "step")      # objectives of the lock-step ropeShortcutPath under an objective (`ropeo`)
PSHORT_OBJ = ("len", "work", "lin", "wreg", "wreg", "toll", "step", "checker")    # objectives of the scripted partialShortcutPath (`pshorto`), lock-step
RET_FALSE_UNCHANGED = ("collapse", "reduce", "pshort", "perturb", "bettergoal")


# ---------------------------------------------------------------------------------- scenarios
class Scenario:
    def __init__(self):
        self.kind = "rv2"
        self.pdim = 2
        self.w = 2
        self.lo, self.hi = 0.0, 10.0
        self.boxes = []       # (lo tuple, hi tuple)
        self.res = 0.01
        self.path = []        # list of tuples of floats (w values)
        self.goals = []
        self.rho = 0.4        # Dubins turning radius
        self.oneway = None    # (ylo, yhi): direction-sensitive validator — inside the band no motion may go in +x direction
        self.wts = (1.0, 0.0)  # kind "pm": PSEUDO-METRIC compound space cmp(w0 * R^2, w1 * SO(2)); a zero weight puts distinct states at distance 0

    def space_tokens(self):
        if self.kind == "dubins":
            return ["dubins", B(self.rho), "0"] + [B(self.lo)] * 2 + [B(self.hi)] * 2
        if self.kind == "se2":
            return ["se2"] + [B(self.lo)] * 2 + [B(self.hi)] * 2
        if self.kind == "pm":
            return ["cmp", "2", B(self.wts[0]), "rv", "2"] + [B(self.lo)] * 2 + [B(self.hi)] * 2 + [B(self.wts[1]), "so2"]
        n = self.pdim
        return ["rv", str(n)] + [B(self.lo)] * n + [B(self.hi)] * n

    def env_line(self):
        t = ["env"] + self.space_tokens() + ["boxes", str(self.pdim), str(len(self.boxes))]
        for lo, hi in self.boxes:
            t += [B(x) for x in lo] + [B(x) for x in hi]
        t += ["res", B(self.res)]
        if self.oneway:
            t += ["oneway", B(self.oneway[0]), B(self.oneway[1])]
        return " ".join(t)

    def lvs(self):
        """longest valid segment of the position subspace (the spacing of the discrete motion check)"""
        if self.kind == "pm":
            # positions every sqrt(2) * 10 * res, headings every pi * res: spacing in (x, y, theta) below the sum
            return (math.sqrt(2) * (self.hi - self.lo) + math.pi) * self.res
        return math.sqrt(self.pdim) * (self.hi - self.lo) * self.res

    def states_line(self, word, sts):
        return " ".join([word, str(len(sts))] + [B(x) for s in sts for x in s])


def seg_hits_box(a, b, lo, hi, pdim, margin=0.0):
    """closed segment a-b intersects the box shrunk (margin > 0) or inflated (margin < 0) on every side"""
    t0, t1 = 0.0, 1.0
    for d in range(pdim):
        l, h = lo[d] + margin, hi[d] - margin
        if l > h:
            return False
        da = b[d] - a[d]
        if da == 0.0:
            if a[d] < l or a[d] > h:
                return False
        else:
            u0, u1 = (l - a[d]) / da, (h - a[d]) / da
            if u0 > u1:
                u0, u1 = u1, u0
            t0, t1 = max(t0, u0), min(t1, u1)
            if t0 > t1:
                return False
    return True


def free_segment(sc, a, b, margin):
    return not any(seg_hits_box(a, b, lo, hi, sc.pdim, margin) for lo, hi in sc.boxes)


def gen_scenario(rng, tier):
    sc = Scenario()
    sc.kind = rng.choice(["rv2", "rv2", "rv3", "se2"])
    sc.pdim = 3 if sc.kind == "rv3" else 2
    sc.w = 3 if sc.kind in ("rv3", "se2") else 2
    sc.res = rng.choice([0.005, 0.01, 0.02])
    nb = rng.choice([0, 1, 2, 3, 4, 6, 8, 12])
    for _ in range(nb):
        lo = [rng.uniform(0.5, 7.5) for _ in range(sc.pdim)]
        hi = [l + rng.uniform(1.5, 3.0) for l in lo]
        if sc.pdim == 3 and rng.chance(1, 2):
            lo[2], hi[2] = -1.0, 11.0       # a wall through the whole height
        sc.boxes.append((tuple(lo), tuple(hi)))

    def rand_state():
        p = [rng.uniform(0.2, 9.8) for _ in range(sc.pdim)]
        if rng.chance(1, 6):
            p = [float(round(x)) for x in p]      # lattice points: exact ties in distances
            p = [min(max(x, 0.0), 10.0) for x in p]
        if sc.kind == "se2":
            p.append(rng.uniform(-3.1, 3.1))
        return tuple(p)

    def free_state():
        for _ in range(200):
            s = rand_state()
            if free_segment(sc, s, s, -1e-6):
                return s
        return None

    n = rng.choice([2, 3, 3, 4, 5, 6, 8, 10, 14, 20, 30] + ([45, 60] if tier != "quick" or rng.chance(1, 4) else [12]))
    style = rng.choice(["walk", "walk", "zigzag", "local"])
    cur = free_state()
    if cur is None:
        return None
    path = [cur]
    tries = 0
    while len(path) < n and tries < 40 * n:
        tries += 1
        r = rng.below(100)
        if r < 10:
            nxt = path[-1]                              # repeated state: zero-length segment
        elif r < 14 and len(path) >= 2:
            nxt = path[-2]                              # go back
        elif r < 18:
            nxt = tuple(x + rng.uniform(-1e-7, 1e-7) for x in path[-1])   # near duplicate
        elif style == "local" or (style == "walk" and rng.chance(1, 2)):
            nxt = list(path[-1])
            for d in range(sc.pdim):
                nxt[d] = min(max(nxt[d] + rng.uniform(-2.0, 2.0), 0.1), 9.9)
            if sc.kind == "se2":
                nxt[2] = rng.uniform(-3.1, 3.1)
            nxt = tuple(nxt)
        else:
            nxt = rand_state()
        if free_segment(sc, nxt, nxt, -1e-6) and free_segment(sc, path[-1], nxt, -1e-6):
            path.append(nxt)
    if len(path) < 2:
        return None
    sc.path = path
    # goal states for findBetterGoal / simplify: the last state plus a few free states
    sc.goals = [path[-1]]
    for _ in range(rng.range(1, 4)):
        g = free_state()
        if g is not None and rng.chance(1, 2):
            # near the path's last stretch, where findBetterGoal samples
            q = path[rng.range(max(0, len(path) - 4), len(path) - 1)]
            g2 = tuple(min(max(q[d] + rng.uniform(-1.5, 1.5), 0.1), 9.9) for d in range(sc.pdim)) + tuple(q[sc.pdim:])
            if free_segment(sc, g2, g2, -1e-6):
                g = g2
        if g is not None:
            sc.goals.append(g)
    rng.shuffle(sc.goals)
    return sc


def path_len(sc, sts):
    return sum(dist(sc, sts[i], sts[i + 1]) for i in range(len(sts) - 1))


def dist(sc, a, b):
    if sc.kind == "pm":
        y = abs(a[2] - b[2])
        if y > math.pi:
            y = 2 * math.pi - y
        return sc.wts[0] * math.sqrt((a[0] - b[0]) ** 2 + (a[1] - b[1]) ** 2) + sc.wts[1] * y
    d = math.sqrt(sum((a[i] - b[i]) ** 2 for i in range(sc.pdim)))
    if sc.kind == "se2":
        y = abs(a[2] - b[2])
        if y > math.pi:
            y = 2 * math.pi - y
        d += 0.5 * y
    return d


def gen_ops(rng, sc, tier):
    """(routine, harness line) list: lock-step ops first, then randomised ones"""
    ops = []
    n = len(sc.path)
    L = max(path_len(sc, sc.path), 1e-3)
    steps = lambda: rng.choice([0, 0, 1, 3, 10, 50])
    rr = lambda: rng.choice([0.0, 0.33, 0.33, 1.0, 0.1])
    snap = lambda: rng.choice([0.0, 0.005, 0.005, 0.5, 0.05])
    ops.append(("collapse", "collapse %d %d" % (steps(), steps())))
    for _ in range(2):
        delta = rng.choice([L / 3, L / 6, L / 10, 1.0, 2.5 * L, L])
        if L / delta + n > 45:
            delta = L / 8 if n <= 30 else 2.5 * L
        ops.append(("rope", "rope %s %s" % (B(delta), B(rng.choice([0.1, 0.1, 0.01, 0.5])))))
    for _ in range(2):
        delta = rng.choice([L / 3, L / 6, L / 10, 1.0, L])
        if L / delta + n > 45:
            delta = L / 8 if n <= 30 else 2.5 * L
        ops.append(("rope", "ropeo %s %s %s" % (rng.choice(ROPE_OBJ), B(delta), B(rng.choice([0.1, 0.1, 0.01, 0.5])))))
    ops.append(("subdivide", "subdivide"))
    if L / sc.lvs() < 3000:
        ops.append(("interp", "interp"))
    for _ in range(3):
        c = rng.choice([0, 1, n - 1, n, n + 1, n + 2, 2 * n, 2 * n + 1, 3 * n + 7, n + rng.below(200)])
        ops.append(("interpn", "interpn %d" % max(c, 0)))
    for _ in range(3):
        k = rng.choice([0, 4, 20, 120])
        raws = [rng.below(1 << 30) if rng.chance(3, 4) else rng.below(4) for _ in range(k)]
        ops.append(("reduce", " ".join(["reduce", str(steps()), str(steps()), B(rr()), str(k)] + [str(x) for x in raws])))
    for _ in range(3):
        k = rng.choice([0, 4, 20, 120])
        us = [rng.unit() if rng.chance(5, 6) else rng.choice([0.0, 0.5, 0.25, 1.0 - 2.0 ** -53]) for _ in range(k)]
        ops.append(("pshort", " ".join(["pshort", str(steps()), str(steps()), B(rr()), B(snap()), str(k)] + [B(x) for x in us])))
    for _ in range(2):
        k = rng.choice([4, 20, 120])
        us = [rng.unit() if rng.chance(5, 6) else rng.choice([0.0, 0.5, 0.25, 1.0 - 2.0 ** -53]) for _ in range(k)]
        ops.append(("pshort", " ".join(["pshorto", rng.choice(PSHORT_OBJ), str(steps()), str(steps()), B(rr()), B(snap()), str(k)] + [B(x) for x in us])))
    # directed: snapToVertex = 0 and a first sample EXACTLY on a repeated vertex (t = 0/0), second sample elsewhere
    if sc.kind not in ("se2", "pm"):
        ds = [0.0]
        for i in range(n - 1):
            d = 0.0
            for k in range(sc.pdim):
                diff = sc.path[i][k] - sc.path[i + 1][k]
                d += diff * diff
            ds.append(ds[-1] + math.sqrt(d))
        for i in range(1, n - 1):
            if ds[i] == ds[i + 1] and ds[-1] > 0 and 0 < ds[i] < ds[-1]:
                u = ds[i] / ds[-1]
                for cand in (u, math.nextafter(u, 0.0), math.nextafter(u, 1.0)):
                    if (ds[-1] - 0.0) * cand + 0.0 == ds[i]:
                        for u1 in (0.93, 0.07):
                            ops.append(("pshort", " ".join(["pshort", "1", "1", B(1.0), B(0.0), "2", B(cand), B(u1)])))
                        break
                break
    # randomised, real RNG
    if sc.kind != "se2":
        seeds = [rng.below(1000) for _ in range(2 if tier == "quick" else 6)]
        for sd in seeds:
            objs = ["len", "len", "integral", "clear", "work", "work", "lin", "wreg", "wreg"]
            o = lambda: rng.choice(objs)
            ops.append(("reduce", "rnd %d %s reduce %d %d %s" % (sd, "len", steps(), steps(), B(rr()))))
            ops.append(("pshort", "rnd %d %s pshort %d %d %s %s" % (sd, o(), steps(), steps(), B(rr()), B(snap()))))
            ops.append(("collapse", "rnd %d %s collapse %d %d" % (sd, "len", steps(), steps())))
            ops.append(("rope", "rnd %d %s rope %s %s" % (sd, rng.choice(["len", "integral", "work", "lin", "wreg"]), B(rng.choice([L / 4, 1.0, 2.5 * L])), B(0.1))))
            ops.append(("bspline", "rnd %d %s bspline %d %s" % (sd, "len", rng.choice([0, 1, 3, 5]), B(rng.choice([2.2e-16, 1e-3, L / 100])))))
            ops.append(("perturb", "rnd %d %s perturb %s %d %d %s" % (sd, o(), B(rng.choice([0.3, 1.0, L, 3 * L])), steps(), steps(), B(snap()))))
            ops.append(("bettergoal", "rnd %d %s bettergoal %d %d %s %s" % (sd, o(), rng.choice([0, 3, 1000000]), rng.choice([1, 10]), B(rr()), B(snap()))))
            for bo in BG_OBJECTIVES:
                ops.append(("bettergoal", "rnd %d %s bettergoal 1000000 %d %s %s" % (rng.below(100000), bo, rng.choice([10, 40]), B(rng.choice([1.0, 0.33, 0.6])), B(snap()))))
            for _ in range(2):
                ops.append(("simplify", "rnd %d %s simplify %d %d" % (sd, "len", rng.choice([0, 1, 2, 3, 4, 5, 6, 8, 10, 13, 21, 40, 1000000]), rng.below(2))))
            ops.append(("simplifymax", "rnd %d %s simplifymax" % (sd, "len")))
    return ops


# ---------------------------------------------------------------------------------- parsing
def chunk(tokens, w):
    return [tuple(tokens[i:i + w]) for i in range(0, len(tokens), w)]


def parse_result(line, w):
    """harness result line -> dict; states stay tuples of bit strings"""
    t = line.split()
    r = {}
    if len(t) >= 2 and t[-2] == "worse":
        r["worse"] = t[-1] == "1"
        t = t[:-2]
    i = 0
    if t[i] != "r":
        raise ValueError("no r")
    r["ret"] = int(t[i + 1])
    i += 2
    assert t[i] == "out"
    k = int(t[i + 1])
    r["out"] = chunk(t[i + 2:i + 2 + k * w], w)
    r["prefix"] = " ".join(t[:i + 2 + k * w])
    i += 2 + k * w
    assert t[i] == "cm"
    m = int(t[i + 1])
    cm_tokens = t[i:i + 2 + m * (2 * w + 1)]
    r["cm_tokens"] = cm_tokens
    cm = []
    j = i + 2
    for _ in range(m):
        cm.append((tuple(t[j:j + w]), tuple(t[j + w:j + 2 * w]), t[j + 2 * w] == "1"))
        j += 2 * w + 1
    r["cm"] = cm
    i = j
    assert t[i] == "len"
    r["len0"], r["len1"] = F(t[i + 1]), F(t[i + 2])
    assert t[i + 3] == "cost"
    r["cost0"], r["cost1"] = F(t[i + 4]), F(t[i + 5])
    assert t[i + 6] == "chk"
    r["chk"] = t[i + 7] == "1"
    i += 8
    if i < len(t) and t[i] == "vsc":
        r["vsc_tokens"] = t[i:]
        r["vsc"] = [int(x) for x in t[i + 2:]]
    if i < len(t) and t[i] == "ptc":
        r["ptc_fired"] = t[i + 1] == "1"
    if i < len(t) and t[i] == "iv":
        r["iv_tokens"] = t[i:]
    return r


def fl(st):
    return tuple(F(x) for x in st)


def canon(line):
    """result prefix with every NaN bit pattern replaced by `nan` (the sign/payload of a NaN is not compared)"""
    out = []
    for t in line.split():
        if len(t) > 15 and t.isdigit():
            v = int(t)
            if (v >> 52) & 0x7FF == 0x7FF and v & ((1 << 52) - 1):
                t = "nan"
        out.append(t)
    return " ".join(out)


# ---------------------------------------------------------------------------------- spec oracle
def subseq(small, big):
    it = iter(big)
    return all(any(x == y for y in it) for x in small)


def wrap_pi(v):
    while v > math.pi:
        v -= 2 * math.pi
    while v <= -math.pi:
        v += 2 * math.pi
    return v


def on_segment(sc, x, a, b, tol):
    """parameter of x on segment a-b (positions), or None if farther than tol from it"""
    if sc.kind == "pm":
        # the heading is interpolated along the SHORTER arc (SO(2)): states the routines SAMPLE (perturbPath) have headings anywhere in
        # (-pi, pi], so a validated motion can wrap through +-pi; unwrap the motion and try the point's heading modulo 2 pi
        b2 = (b[0], b[1], a[2] + wrap_pi(b[2] - a[2]))
        for k in (0, -1, 1):
            t_ = on_segment_lin(sc, (x[0], x[1], x[2] + 2 * math.pi * k), a, b2, tol)
            if t_ is not None:
                return t_
        return None
    return on_segment_lin(sc, x, a, b, tol)


def seg_hits_box_sc(sc, a, b, lo, hi, margin):
    """seg_hits_box in the scenario's geometry: for the pseudo-metric kind the heading runs along the shorter arc and the box's heading
    range is meant modulo 2 pi"""
    if sc.kind != "pm":
        return seg_hits_box(a, b, lo, hi, sc.pdim, margin)
    b2 = (b[0], b[1], a[2] + wrap_pi(b[2] - a[2]))
    return any(seg_hits_box(a, b2, (lo[0], lo[1], lo[2] + 2 * math.pi * k), (hi[0], hi[1], hi[2] + 2 * math.pi * k), 3, margin) for k in (0, -1, 1))


def on_segment_lin(sc, x, a, b, tol):
    pd = sc.pdim
    ab = [b[i] - a[i] for i in range(pd)]
    L2 = sum(v * v for v in ab)
    if L2 == 0.0:
        t = 0.0
    else:
        t = sum((x[i] - a[i]) * ab[i] for i in range(pd)) / L2
    tc = min(max(t, 0.0), 1.0)
    d2 = sum((a[i] + tc * ab[i] - x[i]) ** 2 for i in range(pd))
    if d2 > tol * tol:
        return None
    return tc


def oracle(sc, routine, line, res, objective, goals_used):
    """returns list of (clause, detail) failures for one routine result"""
    fails = []
    inp_bits = [tuple(B(x) for x in s) for s in sc.path]
    out_bits = res["out"]
    out = [fl(s) for s in out_bits]
    inp = sc.path
    tol = 1e-9 * (sc.hi - sc.lo) * 10
    if any(math.isnan(x) or math.isinf(x) for s in out for x in s):
        return [("finite", "a non-finite coordinate in the result")]
    if not inp_bits:
        return [] if not out_bits else [("endpoints", "an empty path became a path of %d states" % len(out_bits))]
    if not out_bits:
        return [("endpoints", "empty result")]
    # --- endpoints
    if out_bits[0] != inp_bits[0]:
        fails.append(("keeps_first", "first state changed"))
    if out_bits[-1] != inp_bits[-1]:
        goal_bits = [tuple(B(x) for x in g) for g in sc.goals]
        if not (goals_used and out_bits[-1] in goal_bits):
            fails.append(("keeps_last", "last state is neither the input's last state nor a goal state"))
    # --- classification of every output motion
    # DIRECTION-AWARE: "validated" means checkMotion(a, b) answered true for THIS orientation; an input motion or a piece of a
    # motion counts in its own direction only
    cm_true_set = set((a, b) for a, b, ans in res["cm"] if ans)
    in_pairs = set(zip(inp_bits[:-1], inp_bits[1:]))
    segs = [(fl(a), fl(b)) for a, b in in_pairs] + [(fl(a), fl(b)) for a, b in cm_true_set]
    margin = sc.lvs()

    def classify(p, x, y, directed):
        if p in in_pairs or (not directed and (p[1], p[0]) in in_pairs):
            return "a"
        if p in cm_true_set or (not directed and (p[1], p[0]) in cm_true_set):
            return "c"
        if routine in REMOVERS:
            return None
        if sc.kind == "dubins":
            return "b"        # pieces of Dubins curves are not classified geometrically (only exact pairs are, for the removers)
        for a, b in segs:
            tx = on_segment(sc, x, a, b, tol)
            if tx is None:
                continue
            if p[0] == p[1]:
                return "b"
            ty = on_segment(sc, y, a, b, tol)
            if ty is None:
                continue
            if not directed or tx <= ty + 1e-9:
                return "b"
        return None
    for i in range(len(out_bits) - 1):
        p = (out_bits[i], out_bits[i + 1])
        x, y = out[i], out[i + 1]
        cls = classify(p, x, y, True)
        if cls is None:
            if classify(p, x, y, False) is not None:
                fails.append(("only_validated_motions", "output motion %d was validated (or is a piece of a motion that exists) only in the REVERSE "
                              "direction: checkMotion(b, a) was asked, the path contains (a, b)" % i, "validated-in-reverse-direction"))
            else:
                fails.append(("only_validated_motions", "output motion %d is not an input motion, a piece of an input or validated "
                              "motion, or a pair checkMotion answered true for" % i))
            break
        if cls != "c":
            # independent re-validation: a motion that passed the discrete check never enters a box by more than the
            # check's spacing; neither does any piece of it
            for lo, hi in sc.boxes:
                if seg_hits_box_sc(sc, x, y, lo, hi, margin):
                    fails.append(("revalidate", "output motion %d crosses an obstacle (deeper than the checking resolution)" % i))
                    break
            if sc.oneway and y[0] > x[0] + 1e-9 and min(x[1], y[1]) <= sc.oneway[1] - 1e-9 and max(x[1], y[1]) >= sc.oneway[0] + 1e-9:
                fails.append(("revalidate", "output motion %d goes the wrong way through the one-way zone" % i))
    # --- per routine class
    base = routine
    rel = 1e-9
    if base in REMOVERS:
        if not subseq(out_bits, inp_bits):
            fails.append(("subsequence", "result is not a subsequence of the input"))
        if not res["chk"]:
            fails.append(("check", "check() fails on a result made of input motions and validated pairs"))
    if base in DENSIFIERS:
        if res["cm"]:
            fails.append(("densify", "densification called checkMotion"))
        if not subseq(inp_bits, out_bits):
            fails.append(("subsequence", "original vertices do not survive in order"))
        n = len(inp_bits)
        if base == "subdivide":
            want = 2 * n - 1 if n >= 2 else n
        elif base == "interp":
            want = n + sum(max(v - 1, 0) for v in res.get("vsc", []))
        else:
            cnt = int(line.split()[-1])
            want = cnt if (cnt >= n and n >= 2) else n
        if len(out_bits) != want:
            fails.append(("count", "%d states, expected exactly %d" % (len(out_bits), want)))
        if abs(res["len1"] - res["len0"]) > rel * max(res["len0"], 1.0) + 1e-12 * len(out_bits):
            fails.append(("length_unchanged", "length %r -> %r" % (res["len0"], res["len1"])))
    if base in LEN_MONOTONE and objective == "len":
        if res["len1"] > res["len0"] * (1 + rel) + 1e-12:
            fails.append(("never_longer", "length %r -> %r" % (res["len0"], res["len1"])))
    if base in OWN_OBJECTIVE and objective in ADDITIVE:
        # `work` = mechanical work over the linear height field h = y (ASYMMETRIC: climbing costs, descending is free): cuts are additive
        # (y is interpolated linearly), so the routine's own direction-dependent comparison bounds path.cost(obj) exactly as for length.
        # Dubins + path length: asymmetric distance, geodesic interpolation; tolerance 1e-6 for the Dubins classification noise.
        tol_ = 1e-6 if sc.kind == "dubins" else rel
        if res.get("worse", res["cost1"] > res["cost0"]) and res["cost1"] > res["cost0"] * (1 + tol_) + 1e-12:
            fails.append(("never_worse", "cost %r -> %r under %s%s" % (res["cost0"], res["cost1"], objective, " (Dubins)" if sc.kind == "dubins" else ""),
                          "worse-under-an-additive-non-length-objective" if objective not in ("len", "work") else None))
    if base == "bettergoal" and objective != "len":
        # findBetterGoal compares COMPLETE candidate paths (cost to the sample + motion to the goal against costs.back()) with the very
        # sums path.cost(obj) uses, so path.cost(obj) itself must not get worse, whatever the objective (verdict of the objective's own
        # isCostBetterThan, ignoring differences below 1e-9 relative)
        if res.get("worse") and abs(res["cost1"] - res["cost0"]) > rel * max(1.0, abs(res["cost0"]), abs(res["cost1"])):
            fails.append(("never_worse", "findBetterGoal returned %d and made the path worse under its own objective %s: cost %r -> %r"
                          % (res["ret"], objective, res["cost0"], res["cost1"])))
    if base in RET_FALSE_UNCHANGED and res["ret"] == 0 and out_bits != inp_bits:
        fails.append(("ret_false", "returned false but changed the path"))
    if base in ("simplify", "simplifymax") and res["ret"] == 1 and not res["chk"]:
        fails.append(("simplify_true_implies_check", "simplify returned true but check() fails on the result"
                      + (" (the termination condition fired during the run)" if res.get("ptc_fired") else "")))
    return fails


def oracle_hybrid(sc, line, out, paths):
    t = out.split()
    fails = []
    try:
        ic = t.index("costs")
        costs = [F(x) for x in t[ic + 1:ic + 1 + len(paths)]]
        i = ic + 1 + len(paths)
        if t[i] == "none":
            return [("hybrid", "no hybrid path although every input is a root->goal walk")]
        k = int(t[i + 1])
        hp = chunk(t[i + 2:i + 2 + k * sc.w], sc.w)
        i += 2 + k * sc.w
        hcost = F(t[i + 1])
        chk = t[i + 3] == "1"
        i += 4
        m = int(t[i + 1])
        cm = []
        j = i + 2
        for _ in range(m):
            cm.append((tuple(t[j:j + sc.w]), tuple(t[j + sc.w:j + 2 * sc.w]), t[j + 2 * sc.w] == "1"))
            j += 2 * sc.w + 1
    except Exception as e:
        return [("hybrid", "unparsable result: %r" % (e,))]
    best = min(costs)
    if hcost > best * (1 + 1e-9) + 1e-12:
        fails.append(("hybrid_le_best", "hybrid cost %r > best recorded input %r" % (hcost, best)))
    pb = [[tuple(B(x) for x in s) for s in p] for p in paths]
    pairs = set()
    for p in pb:
        pairs |= set(zip(p[:-1], p[1:]))
        pairs |= set(zip(p[1:], p[:-1]))     # the hybridization graph is undirected
    ok_pairs = set()
    for a, b, ans in cm:
        if ans:
            ok_pairs.add((a, b))
            ok_pairs.add((b, a))
    for a, b in zip(hp[:-1], hp[1:]):
        if (a, b) not in pairs and (a, b) not in ok_pairs:
            fails.append(("hybrid_validated", "hybrid motion is neither an input motion nor a validated connection"))
            break
    if hp and (hp[0] not in [p[0] for p in pb] or hp[-1] not in [p[-1] for p in pb]):
        fails.append(("hybrid_endpoints", "hybrid path does not run from an input start to an input end"))
    return fails


# ---------------------------------------------------------------------------------- running
def run_h(ck, binary, script, timeout=90):
    """ck.run_bin, retried while the shared libompl.so is being relinked by a concurrent check (loader error, rc 127)"""
    import time
    for attempt in range(40):
        impl, rc, err = ck.run_bin(binary, script, timeout=timeout)
        if rc == 127 and "shared libraries" in (err or ""):
            time.sleep(5)
            continue
        return impl, rc, err
    raise RuntimeError("libompl.so stayed unloadable for 200 s: %s" % (err or "")[:300])


def classify_crash(line, err, ck=None, hchk=None, hdr=None):
    """name the crash site from the sanitizer report (used as the `class` key of the violation record)"""
    t = line.split()
    rnd = t[0] == "rnd"
    rt = t[3] if rnd else t[0]
    import re
    npath = None
    if hdr and len(hdr) > 2 and hdr[2].startswith("path "):
        npath = int(hdr[2].split()[1])
    if rt == "interp" and npath == 0 and "PathGeometric::interpolate()" in err:
        return "interpolate-empty-path"
    if rt == "perturb" and npath is not None and npath < 2 and "perturbPath" in err:
        return "perturb-fewer-than-two-states"
    memerr = any(k in err for k in ("heap-buffer-overflow", "SEGV", "heap-use-after-free"))
    if memerr and rt == "perturb" and "selectAlongPath" in err and F(t[-1]) == 0.0:
        return "selectAlongPath-oob-snap0"
    if memerr and rt == "perturb" and F(t[-1]) == 0.0 and " #1 " not in err and hchk is not None:
        # the sanitizer died while printing its report (no stack): ask the bounds-checked build of the same sources which
        # index went out of range; in perturbPath/selectAlongPath the only vector<double> that is indexed is `dists`
        o2, rc2, err2 = run_h(ck, hchk, hdr + [line], timeout=60)
        if rc2 != 0 and "Assertion" in (err2 or "") and "_Tp = double" in err2 and "size()" in err2:
            return "selectAlongPath-oob-snap0"
    # partialShortcutPath lines 384-386 / 396-398: t = (distTo - dists[pos]) / (dists[pos+1] - dists[pos]); interpolate(states[pos], states[pos+1], ..)
    # (the out-of-range dists[pos+1] / states[pos+1] show up as a redzone hit, a wild pointer or a freed state)
    if t[0] == "pshorto":
        rt = "pshort"
    if memerr and rt == "pshort" and F(t[7] if rnd else t[5] if t[0] == "pshorto" else t[4]) == 0.0 and \
            re.search(r"partialShortcutPath.*PathSimplifier\.cpp:(38[4-6]|39[6-8])\b", err):
        return "snap0-sample-at-path-end"
    for key in ("heap-buffer-overflow", "heap-use-after-free", "SEGV", "runtime error", "Assertion", "LeakSanitizer"):
        if key in err:
            return key
    return "exit"


def run_ops(ck, hbin, hdr, ops):
    """run the op lines in one harness process; after a crash the remaining ops are re-run in a fresh process.
    returns (outs: list of line|None, crashes: list of (op index, rc, stderr))"""
    outs = [None] * len(ops)
    crashes = []
    pending = list(range(len(ops)))
    nh = len(hdr) - 1
    while pending:
        impl, rc, err = run_h(ck, hbin, hdr + [ops[i][1] for i in pending], timeout=90)
        if impl is None:
            # timeout: no partial output; run the ops one by one
            for i in pending:
                o, rc1, err1 = run_h(ck, hbin, hdr + [ops[i][1]], timeout=30)
                if o is None or rc1 != 0 or len(o) != nh + 1:
                    crashes.append((i, rc1, err1 or ""))
                else:
                    outs[i] = o[nh]
            break
        got = impl[nh:]
        for k, o in enumerate(got[:len(pending)]):
            outs[pending[k]] = o
        if rc != 0 and len(got) < len(pending):
            crashes.append((pending[len(got)], rc, err or ""))
            pending = pending[len(got) + 1:]
        elif len(got) < len(pending):
            crashes.append((pending[len(got)], rc, "harness stopped without an error code"))
            pending = pending[len(got) + 1:]
        else:
            pending = []
    return outs, crashes


def run_scenario(ck, hbin, hchk, sc, ops, tag, seedtag):
    """returns a list of issue dicts; counts into ck (thread-safe enough: GIL)"""
    issues = []
    hdr = ["pathops", sc.env_line(), sc.states_line("path", sc.path), sc.states_line("goals", sc.goals)]
    impl, rc, err = run_h(ck, hbin, hdr, timeout=60)
    if impl is None and rc == "timeout":
        # a header-only script runs no routine under test (env, path + its check(), goals): 60 s without an answer is the loaded machine, not
        # the property — never a wall-clock verdict: run it again with a long limit, and if it still does not answer report the MACHINERY
        ck.count("infrastructure:header-script-timeout-retried")
        impl, rc, err = run_h(ck, hbin, hdr, timeout=600)
        if impl is None:
            return [dict(kind="infra", routine="harness", clause="protocol", detail="the harness did not answer a header-only script within 600 s",
                         script=hdr, observed=[])]
    if impl is None or len(impl) < 3 or not impl[0].startswith("ok") or not impl[1].startswith("ok chk="):
        return [dict(kind="oracle", routine="harness", clause="protocol", detail="header lines: %r" % (impl and impl[:3],), script=hdr, observed=impl or [])]
    if impl[1] != "ok chk=1":
        ck.count("scenario:input-not-valid-skipped")
        return []
    outs, crashes = run_ops(ck, hbin, hdr, ops)
    for i, rc, err in crashes:
        routine, line = ops[i]
        cls = classify_crash(line, err, ck, hchk, hdr)
        ck.count("crash:" + routine + ":" + cls)
        issues.append(dict(kind="oracle", routine=routine, clause="indices_in_range" if cls in ("selectAlongPath-oob-snap0", "snap0-sample-at-path-end", "interpolate-empty-path", "perturb-fewer-than-two-states") else "crash", cls=cls,
                           detail="the routine does not return (rc=%s): %s" % (rc, err[:700] if rc != "timeout" else "no result within 30 s"),
                           script=hdr + [line], observed=[err[:1500]]))
    dscript = ["pathops", sc.env_line(), sc.states_line("path", sc.path)]
    dmap = []
    pending_fails = {}
    for idx, ((routine, line), o) in enumerate(zip(ops, outs)):
        if o is None:
            continue
        t = line.split()
        rnd = t[0] == "rnd"
        objective = t[2] if rnd else t[1] if t[0] in ("pshorto", "ropeo") else "len"
        ck.count("op:" + ("rnd-" if rnd else "") + routine + ("-obj" if t[0] in ("pshorto", "ropeo") else ""))
        if t[0] == "ropeo":
            ck.count("ropeo:objective=" + objective)
            if "r 1 " in o[:5]:
                ck.count("ropeo:shortcut-taken:" + objective)
        if t[0] == "pshorto":
            ck.count("pshorto:objective=" + objective)
        if o == "budget-exceeded":
            nonadd = routine == "rope" and objective in NON_ADDITIVE
            issues.append(dict(kind="oracle", routine=routine, clause="terminates", cls="rope-does-not-return-under-a-non-additive-objective (as before fix F173)" if nonadd else "checkMotion-budget",
                               detail="the routine asked more than 150000 motions without returning" + (" (objective %s)" % objective), objective=objective,
                               script=hdr + [line], observed=[o]))
            continue
        if o == "bad-op":
            issues.append(dict(kind="oracle", routine=routine, clause="protocol", detail="bad-op on a well-formed line", script=hdr + [line], observed=[o]))
            continue
        try:
            res = parse_result(o, sc.w)
        except Exception as e:
            issues.append(dict(kind="oracle", routine=routine, clause="protocol", detail="unparsable: %r" % (e,), script=hdr + [line], observed=[o]))
            continue
        goals_used = routine in ("bettergoal", "simplify", "simplifymax")
        fails = oracle(sc, routine, line, res, objective, goals_used)
        changed = res["out"] != [tuple(B(x) for x in s) for s in sc.path]
        ck.case((tag, seedtag, idx), changed)
        if changed:
            ck.count("changed:" + routine)
        if not res["chk"]:
            ck.count("result-check-false:" + routine)
        fail_issues = [dict(kind="oracle", routine=routine, clause=f_[0], detail=f_[1], objective=objective,
                            cls="termination condition fired mid-run (F56 window)" if (f_[0] == "simplify_true_implies_check" and res.get("ptc_fired"))
                            else (f_[2] if len(f_) > 2 else None),
                            rnd=rnd, script=hdr + [line], observed=[o]) for f_ in fails]
        if not rnd and routine in LOCKSTEP:
            pending_fails[line] = fail_issues      # judged after the model run (an index error explains them)
        else:
            issues += fail_issues
        if not rnd and routine in LOCKSTEP:
            dl = line
            if routine == "interp":
                dl += " " + " ".join(res.get("vsc_tokens", ["vsc", "0"]))
            elif routine not in ("subdivide", "interpn"):
                dl += " " + " ".join(res["cm_tokens"])
            dscript.append(dl)
            dmap.append((routine, line, res, o))
    if dmap:
        model, rc2, err2 = ck.run_bin(ck.driver(DRIVER), dscript, timeout=300)
        if rc2 != 0 or model is None or len(model) != len(dmap) + 2:
            for v in pending_fails.values():
                issues += v
            issues.append(dict(kind="corr", routine="driver", clause="driver", detail="driver rc=%s lines=%s %s" % (rc2, None if model is None else len(model), (err2 or "")[-300:]),
                               script=dscript, observed=model or []))
            return issues
        for (routine, line, res, o), m in zip(dmap, model[2:]):
            ck.traces_validated += 1
            impl_c = canon(res["prefix"])
            corr = lambda: dict(kind="corr", routine=routine, clause="lockstep",
                                detail="model and implementation differ (op %s%s)" % (line.split()[0], ", objective " + line.split()[1] if line.split()[0] in ("pshorto", "ropeo") else ""),
                                opname=line.split()[0] + (":" + line.split()[1] if line.split()[0] in ("pshorto", "ropeo") else ""),
                                script=hdr + [line], dscript=dscript[:3] + [dscript[3 + [x[1] for x in dmap].index(line)]],
                                observed=[res["prefix"]], model=[m])
            idx_err = lambda: dict(kind="idx", routine=routine, clause="indices_in_range", cls="model-index-error",
                                   detail="checked indexing fails in the model of the current code: the routine indexes a vector out of range",
                                   script=hdr + [line], observed=[o], model=[m])
            if routine == "pshort" and line.startswith("pshorto "):
                # partialShortcutPath under an objective: the tree's model, then the variant whose alongPath starts at posTemp = pos0
                # (the segment containing an un-snapped first sample is counted twice)
                mc, _, mdbl = m.partition(" | dbl ")
                mc, mdbl = canon(mc), canon(mdbl)
                if mc == "idx-error":
                    issues.append(idx_err())
                elif impl_c == mc:
                    if mc != mdbl:
                        ck.count("pshorto:input-on-which-double-counting-differs")
                    if res["ret"] == 1:
                        ck.count("pshorto:shortcut-taken:" + line.split()[1])
                    issues += pending_fails.get(line, [])
                elif impl_c == mdbl and mdbl != "idx-error" and line.split()[1] in ADDITIVE and res["cost1"] > res["cost0"]:
                    # the implementation took a shortcut the tree's cost test rejects, the objective is additive and path.cost(obj) went up
                    issues += pending_fails.get(line, [])
                    issues.append(dict(kind="regress", fid=None, named="alongPath started at posTemp = pos0", routine="pshort", clause="never_worse",
                                       cls="replaced piece over-priced: the segment containing the un-snapped first sample is counted twice",
                                       detail="partialShortcutPath prices the replaced piece from the segment that CONTAINS the earlier sample: with the sample "
                                              "inside that segment its partial cost and the whole segment are both in alongPath, so a shortcut costlier than "
                                              "the piece it replaces is accepted (objective %s)" % line.split()[1],
                                       script=hdr + [line], observed=[o], model=[m]))
                else:
                    issues += pending_fails.get(line, [])
                    issues.append(corr())
            elif routine == "pshort":
                # the driver prints the model of the current code, then the model of the code before fix b725c3169 (F55)
                # the driver prints the model of the tree's code (fixes F55 + F170), then the code before fix F55, then the code before
                # fix F170 (checkMotion in sampling order).  Only the first is accepted.
                mc, _, mo = m.partition(" | old ")
                mo, _, msamp = mo.partition(" | sampling ")
                mc, mo, msamp = canon(mc), canon(mo), canon(msamp)
                if mc == "idx-error":
                    issues.append(idx_err())
                elif impl_c == mc:
                    if mc != mo:
                        ck.count("pshort:input-on-which-the-pre-F55-code-differs")
                    if mc != msamp:
                        ck.count("pshort:input-on-which-the-pre-F170-code-differs")
                    issues += pending_fails.get(line, [])
                elif impl_c == msamp and msamp != "idx-error":
                    issues += pending_fails.get(line, [])
                    issues.append(dict(kind="regress", fid="F170", routine="pshort", clause="only_validated_motions",
                                       cls="checkMotion in sampling order (behaviour of the code before fix 7afd3abe1)",
                                       detail="partialShortcutPath behaves like the code before fix F170: checkMotion(s0, s1) is asked in SAMPLING order, "
                                              "the motion spliced into the path is (earlier, later): the recorded transcript holds the reversed pair",
                                       script=hdr + [line], observed=[o], model=[m]))
                elif mo == "idx-error" or impl_c == mo:
                    issues.append(dict(kind="regress", fid="F55", routine="pshort", clause="indices_in_range" if mo == "idx-error" else "finite" if " nan" in mo else "lockstep",
                                       cls="snap test misses an exact hit (behaviour of the code before fix f9a435dd6)",
                                       detail="partialShortcutPath behaves like the code before fix F55 (snap-to-vertex test `<`): " +
                                              ("the implementation differs from the model of the current code on an input where the pre-fix code reads dists[pos+1] / states[pos+1] out of range (a sample at the end of the path)" if mo == "idx-error"
                                               else "a sample exactly on a vertex is not snapped" + (" (t = 0/0: NaN state in the path)" if " nan" in mo else "")),
                                       script=hdr + [line], observed=[o], model=[m]))
                else:
                    issues += pending_fails.get(line, [])
                    issues.append(corr())
            elif routine == "rope":
                # current code first, then the code before fix 695c3e72c (F9)
                cur, _, old = m.partition(" | old ")
                old, _, chordv = old.partition(" | chord ")
                mchord = chordv.split(" oob ")[0]
                if res["prefix"] != cur.split(" oob ")[0] and chordv and res["prefix"] == mchord and not chordv.endswith(" fo 1"):
                    issues += pending_fails.get(line, [])
                    issues.append(dict(kind="regress", fid="F173", routine="rope", clause="lockstep", cls="shortcut priced by its end points (code before fix cfb403c2a)",
                                       detail="ropeShortcutPath behaves like the code before fix F173: the shortcut is priced by motionCost of its end points, "
                                              "not by the pieces it is densified into", script=hdr + [line], observed=[o], model=[m]))
                    continue
                if cur == "idx-error" or " oob 1" in cur:
                    issues.append(idx_err())
                    continue
                if cur.endswith(" fo 1"):
                    ck.count("rope:model-fuel-out")
                    continue
                mc, mo = cur.split(" oob ")[0], old.split(" oob ")[0]
                issues += pending_fails.get(line, [])
                if res["prefix"] == mc:
                    if mo != mc:
                        ck.count("rope:input-on-which-the-pre-F9-code-differs")
                    elif " oob 1" in old:
                        # the old code would read states[j] past end() here with the same result: only the bounds-checked
                        # build can tell whether that read is back (probed by handle() on the first inputs of a run)
                        issues.append(dict(kind="f9probe", routine="rope", script=hdr + [line], observed=[o], model=[m]))
                elif res["prefix"] == mo:
                    issues.append(dict(kind="regress", fid="F9", routine="rope", clause="indices_in_range", cls="stale index after erase: wrong state",
                                       detail="ropeShortcutPath behaves like the code before fix F9: after states.erase(i+1..j) the stale j is used "
                                              "(wrong distance / wrong early-return test)", script=hdr + [line], observed=[o], model=[m]))
                else:
                    issues.append(corr())
            else:
                m = canon(m)
                if m == "idx-error":
                    issues.append(idx_err())
                    continue
                issues += pending_fails.get(line, [])
                if impl_c != m:
                    issues.append(corr())
    return issues


def gen_hybrid(rng, sc):
    """a few valid paths between the same two states + the harness line"""
    paths = []
    a, b = sc.path[0], sc.path[-1]
    for _ in range(rng.range(1, 4)):
        p = [a]
        for _ in range(rng.range(0, 5)):
            for _ in range(30):
                q = tuple(rng.uniform(0.2, 9.8) for _ in range(sc.pdim))
                if free_segment(sc, p[-1], q, -1e-6):
                    p.append(q)
                    break
        if free_segment(sc, p[-1], b, -1e-6):
            p.append(b)
            paths.append(p)
    paths.append(list(sc.path))
    return paths


def run_hybrid(ck, hbin, sc, rng):
    paths = gen_hybrid(rng, sc)
    obj = rng.choice(["len", "len", "integral"])
    t = ["hybrid", obj, str(rng.below(2)), str(len(paths))]
    for p in paths:
        t += [str(len(p))] + [B(x) for s in p for x in s]
    line = " ".join(t)
    script = ["pathops", sc.env_line(), line]
    impl, rc, err = run_h(ck, hbin, script, timeout=120)
    ck.count("op:hybrid")
    if rc != 0 or impl is None or len(impl) < 2:
        return [dict(kind="oracle", routine="hybrid", clause="crash", detail="rc=%s %s" % (rc, (err or "")[-400:]), script=script, observed=impl or [])]
    fails = oracle_hybrid(sc, line, impl[1], paths)
    ck.case(("hybrid", line[:80]), len(paths) > 1)
    return [dict(kind="oracle", routine="hybrid", clause=c, detail=d, objective=obj, script=script, observed=impl) for c, d in fails]


def point_valid(sc, s):
    return all(sc.lo <= s[d] <= sc.hi for d in range(sc.pdim)) and not any(
        all(lo[d] <= s[d] <= hi[d] for d in range(sc.pdim)) for lo, hi in sc.boxes)


def run_repair(ck, hbin, sc, rng):
    """PathGeometric::checkAndRepair in lock-step with the model (scripted raw samples through the space's sampler
    allocator) on a deliberately damaged copy of the scenario's path, + oracle on the real output"""
    issues = []
    if sc.kind == "se2" or len(sc.path) < 1:
        return issues

    def rand_state():
        return tuple(rng.uniform(0.1, 9.9) for _ in range(sc.pdim))
    path = list(sc.path)
    mode = rng.below(4)
    if len(path) >= 3 and mode != 0:
        for _ in range(rng.range(1, max(1, len(path) // 3))):
            i = rng.range(0 if mode == 3 else 1, len(path) - (1 if mode == 3 else 2))
            path[i] = rand_state()
    ops = []
    for _ in range(3):
        k = rng.choice([0, 1, 3, 10, 40])
        samples = [rand_state() if rng.chance(3, 4) or len(path) < 2 else
                   tuple(a + (b - a) * rng.unit() + rng.uniform(-0.3, 0.3) for a, b in zip(path[0], path[-1])) for _ in range(k)]
        att = rng.choice([0, 1, 2, 5, 100])
        ops.append((att, samples, " ".join(["repair", str(att), str(k)] + [B(x) for s_ in samples for x in s_])))
    hdr = ["pathops", sc.env_line(), sc.states_line("path", path)]
    impl, rc, err = run_h(ck, hbin, hdr + [l for _, _, l in ops], timeout=120)
    if impl is None or rc != 0 or len(impl) != 2 + len(ops):
        return [dict(kind="oracle", routine="repair", clause="crash", detail="rc=%s %s" % (rc, (err or "")[:600]), script=hdr + [l for _, _, l in ops], observed=impl or [])]
    dscript = list(hdr)
    parsed = []
    inp_bits = [tuple(B(x) for x in s_) for s_ in path]
    for (att, samples, line), o in zip(ops, impl[2:]):
        ck.count("op:repair")
        try:
            res = parse_result(o, sc.w)
        except Exception as e:
            issues.append(dict(kind="oracle", routine="repair", clause="protocol", detail="unparsable %r" % (e,), script=hdr + [line], observed=[o]))
            continue
        orig, second = res["ret"] >> 1, res["ret"] & 1
        out = res["out"]
        fails = []
        if len(out) != len(inp_bits):
            fails.append(("count", "number of states changed"))
        elif out:
            if out[0] != inp_bits[0] or out[-1] != inp_bits[-1]:
                fails.append(("endpoints", "first or last state changed"))
            sample_bits = {tuple(B(x) for x in s_): s_ for s_ in samples + [path[0]]}   # path[0]: the sampler's default once the script is exhausted
            for a, b in zip(out, inp_bits):
                if a != b:
                    if a not in sample_bits:
                        fails.append(("only_validated_states", "a state of the result is neither the input state nor a raw sample"))
                        break
                    if second and not point_valid(sc, sample_bits[a]):
                        fails.append(("only_validated_states", "checkAndRepair reports success but introduced an invalid state"))
                        break
        if second and not res["chk"]:
            fails.append(("repair_true_implies_check", "checkAndRepair returned (_, true) but check() fails on the result"))
        if orig and out != inp_bits:
            fails.append(("original_unchanged", "originalValid = true but the path was changed"))
        changed = out != inp_bits
        ck.case(("repair", line[:60], len(path)), changed)
        ck.count("repair:result=%d%d" % (orig, second))
        for c_, d_ in fails:
            issues.append(dict(kind="oracle", routine="repair", clause=c_, detail=d_, script=hdr + [line], observed=[o]))
        dscript.append(line + " " + " ".join(res.get("iv_tokens", ["iv", "0"])) + " " + " ".join(res["cm_tokens"]))
        parsed.append((line, res, o))
    model, rc2, err2 = ck.run_bin(ck.driver(DRIVER), dscript, timeout=120)
    if rc2 != 0 or model is None or len(model) != 2 + len(parsed):
        issues.append(dict(kind="corr", routine="driver", clause="driver", detail="driver rc=%s %s" % (rc2, (err2 or "")[-300:]), script=dscript, observed=model or []))
        return issues
    for (line, res, o), m in zip(parsed, model[2:]):
        ck.traces_validated += 1
        if canon(res["prefix"]) != canon(m):
            issues.append(dict(kind="corr", routine="repair", clause="lockstep", detail="model and implementation differ",
                               script=hdr + [line], dscript=dscript[:3] + [dscript[3 + [x[0] for x in parsed].index(line)]], observed=[res["prefix"]], model=[m]))
    return issues


def gen_corner_scenario(rng):
    """directed: a zigzag through one box corner whose every segment clips the corner BETWEEN the samples of the discrete motion
    check (length 0.566 < 2 * spacing 0.3: samples at the midpoint and the end only; the stretch t in [0.125, 0.375] is inside the
    box).  check() accepts the path; a quarter of its length is inside the obstacle, so cut points made by partialShortcutPath
    are often invalid states — the situation in which simplify() must not report success without checking."""
    sc = Scenario()
    sc.kind, sc.pdim, sc.w = "rv2", 2, 2
    sc.res = 0.3 / (math.sqrt(2) * 10.0)
    c = rng.uniform(3.0, 6.0)
    sc.boxes = [((c, c), (c + 2.5, c + 2.5))]
    n = rng.choice([6, 10, 16, 24])
    path = []
    for k in range(n):
        e = rng.uniform(-0.004, 0.004)
        if k % 2 == 0:
            path.append((c - 0.05 + e, c + 0.15 + e))
        else:
            path.append((c + 0.35 + e, c - 0.25 + e))
    sc.path = path
    sc.goals = [path[-1]]
    ops = []
    for _ in range(10):
        ops.append(("simplify", "rnd %d len simplify %d %d" % (rng.below(1000), rng.choice([0, 1, 2, 3, 4, 5, 6, 8, 10, 13, 17, 25, 40]), rng.below(2))))
    ops.append(("simplifymax", "rnd %d len simplifymax" % rng.below(1000)))
    ops.append(("pshort", "rnd %d len pshort 0 0 %s %s" % (rng.below(1000), B(0.33), B(0.005))))
    # SWEEP: the termination condition fires at EVERY possible poll k = 0, 1, 2, … (same seed), with and without atLeastOnce
    sd = rng.below(1000)
    for k in range(0, 48):
        ops.append(("simplify", "rnd %d len simplify %d %d" % (sd, k, k % 2)))
        ops.append(("simplify", "rnd %d len simplify %d %d" % (sd, k, 1 - k % 2)))
    return sc, ops


WHOLE_OBJ = ("len", "toll", "step", "checker", "work", "lin", "wreg")


def run_whole(ck, hbin, hchk, sc, rng, tag):
    """smoothBSpline, findBetterGoal and perturbPath as WHOLE routines in lock-step with their models: scripted uniform / half-normal
    draws through the rng_ proxy, a scripted state sampler, GoalStates as the (cycling) goal region, the routine's own isValid calls
    and the checkMotion transcript as oracles; + the usual oracle on the real outputs"""
    issues = []
    if sc.kind not in ("rv2", "rv3") or len(sc.path) < 2:
        return issues
    L = max(path_len(sc, sc.path), 1e-3)
    n = len(sc.path)
    ops = []
    for _ in range(2):
        ops.append(("bspline", "bsplines %d %s" % (rng.choice([0, 1, 2, 3, 3, 5]) if n <= 20 else rng.choice([0, 1, 2]),
                                                   B(rng.choice([2.220446049250313e-16, 1e-3, L / 100, L / 10])))))
    for _ in range(4):
        k = rng.choice([5, 60, 60])
        us = [rng.unit() if rng.chance(7, 8) else rng.choice([0.0, 0.5, 1.0 - 2.0 ** -53, 0.25]) for _ in range(k)]
        ops.append(("bettergoal", " ".join(["bgoal", rng.choice(WHOLE_OBJ), str(rng.choice([1, 10, 40])), B(rng.choice([1.0, 0.33, 0.6, 0.0])),
                                             B(rng.choice([0.005, 0.0, 0.05, 0.5])), str(k)] + [B(x) for x in us])))
    if n <= 8:
        for j in range(10):
            kh = rng.choice([0, 3, 3])
            hs = [rng.unit() if rng.chance(3, 4) else rng.choice([0.0, 1.0, 0.5]) for _ in range(kh)]
            ks = rng.choice([0, 3, 3])
            smp = []
            for _ in range(ks):
                r_ = rng.below(3)
                if r_ == 0 and n >= 3:
                    # inside a corner: the midpoint of the chord across a vertex (moving a point near that vertex towards it shortens)
                    a_ = rng.range(0, n - 3)
                    smp.append(tuple((sc.path[a_][d] + sc.path[a_ + 2][d]) / 2 for d in range(sc.pdim)))
                elif r_ == 1:
                    q = sc.path[rng.below(n)]
                    smp.append(tuple(min(max(q[d] + rng.uniform(-2.0, 2.0), 0.05), 9.95) for d in range(sc.pdim)))
                else:
                    smp.append(tuple(rng.uniform(0.1, 9.9) for _ in range(sc.pdim)))
            step = rng.choice([0.3, 1.0, 0.05, 0.15, 0.6, L, 3 * L]) if j >= 5 else rng.choice([0.1, 0.2, 0.4, 0.8])
            ops.append(("perturb", " ".join(["perturbs", rng.choice(WHOLE_OBJ), B(step), str(rng.choice([1, 2, 3])),
                                             str(rng.choice([0, 1, 2, 3])), B(rng.choice([0.005, 0.0, 0.05, 0.3])), str(kh)] + [B(x) for x in hs] +
                                            [str(ks)] + [B(x) for s_ in smp for x in s_])))
    if 3 <= n <= 8:
        # directed: under the length objective the most expensive segment is the longest one (index k0); a half-normal draw near 1 (costBias = back * (1 - h) small) puts the
        # perturbed point just behind its first vertex k0, and a sample inside that corner makes the perturbation an improvement
        seg = [dist(sc, sc.path[i], sc.path[i + 1]) for i in range(n - 1)]
        k0 = max(range(n - 1), key=lambda i: seg[i])
        if k0 >= 1:
            mid = tuple((sc.path[k0 - 1][d] + sc.path[k0 + 1][d]) / 2 for d in range(sc.pdim))
            for _ in range(5):
                hs = [1.0 - rng.choice([0.0, 0.0, 1e-4, 1e-3, 3e-3]) for _ in range(3)]   # costBias = back * (1 - h): below step / 2
                smp = [mid, tuple(m_ + rng.uniform(-0.2, 0.2) for m_ in mid), mid]
                ops.append(("perturb", " ".join(["perturbs", "len", B(rng.choice([0.05, 0.1, 0.3, 0.6])), str(rng.choice([1, 2, 3])), "0",
                                                 B(rng.choice([0.0, 0.005, 0.02, 0.05, 0.2])), "3"] + [B(x) for x in hs] + ["3"] +
                                                [B(x) for s_ in smp for x in s_])))
    hdr = ["pathops", sc.env_line(), sc.states_line("path", sc.path), sc.states_line("goals", sc.goals)]
    chk0, rc0, _ = run_h(ck, hbin, hdr, timeout=60)
    if chk0 is None or len(chk0) < 3 or chk0[1] != "ok chk=1":
        return issues
    outs, crashes = run_ops(ck, hbin, hdr, ops)
    for i, rc, err in crashes:
        routine, line = ops[i]
        ck.count("crash:whole-" + routine)
        issues.append(dict(kind="oracle", routine=routine, clause="crash", cls=classify_crash(line, err),
                           detail="the routine does not return (rc=%s): %s" % (rc, err[:700] if rc != "timeout" else "no result within 30 s"),
                           script=hdr + [line], observed=[err[:1500]]))
    dscript = list(hdr)
    dmap = []
    for idx, ((routine, line), o) in enumerate(zip(ops, outs)):
        if o is None:
            continue
        ck.count("op:whole-" + routine)
        try:
            res = parse_result(o, sc.w)
        except Exception as e:
            issues.append(dict(kind="oracle", routine=routine, clause="protocol", detail="unparsable: %r %s" % (e, o[:80]), script=hdr + [line], observed=[o]))
            continue
        t = line.split()
        objective = t[1] if routine in ("bettergoal", "perturb") else "len"
        fails = oracle(sc, routine, line, res, objective, routine == "bettergoal")
        changed = res["out"] != [tuple(B(x) for x in s_) for s_ in sc.path]
        ck.case((tag, "whole", idx, line[:40]), changed)
        if changed:
            ck.count("changed:whole-" + routine)
        issues += [dict(kind="oracle", routine=routine, clause=f_[0], detail=f_[1], cls=(f_[2] if len(f_) > 2 else None), objective=objective,
                        script=hdr + [line], observed=[o]) for f_ in fails]
        dl = line
        if routine == "bspline":
            dl += " " + " ".join(res.get("iv_tokens", ["iv", "0"]))
        dl += " " + " ".join(res["cm_tokens"])
        dscript.append(dl)
        dmap.append((routine, line, res, o, dl))
    if dmap:
        model, rc2, err2 = ck.run_bin(ck.driver(DRIVER), dscript, timeout=300)
        if rc2 != 0 or model is None or len(model) != len(dmap) + 3:
            issues.append(dict(kind="corr", routine="driver", clause="driver", detail="driver rc=%s lines=%s %s" % (rc2, None if model is None else len(model), (err2 or "")[-300:]),
                               script=dscript, observed=model or []))
            return issues
        for (routine, line, res, o, dl), m in zip(dmap, model[3:]):
            ck.traces_validated += 1
            if m == "idx-error":
                issues.append(dict(kind="idx", routine=routine, clause="indices_in_range", cls="model-index-error",
                                   detail="checked indexing fails in the whole-routine model: the routine indexes a vector out of range",
                                   script=hdr + [line], observed=[o], model=[m]))
            elif canon(res["prefix"]) != canon(m):
                issues.append(dict(kind="corr", routine=routine, clause="lockstep", detail="whole-routine model and implementation differ",
                                   script=hdr + [line], dscript=dscript[:4] + [dl], observed=[res["prefix"]], model=[m]))
    return issues


def gen_perturb_band(rng):
    """directed for perturbPath (whole routine, lock-step): under the length objective a perturbation is never accepted (the new point is
    stepSize away from the perturbed one while `before`/`after` are at most stepSize/2 away along the path), so accepted steps need a
    state-cost objective: a vertical path with ONE vertex inside the toll band 6 < y < 7 (cost 12, else 1); the half-normal draw is chosen so
    that the perturbed point is that vertex, the samples lie above / below the band, and step / snap vary so that `before` and `after`
    are snapped or not, on the same or on different segments"""
    sc = Scenario()
    sc.kind, sc.pdim, sc.w = "rv2", 2, 2
    sc.res = 0.01
    x = rng.choice([rng.uniform(0.5, 2.7), rng.uniform(4.8, 9.5)])
    ys = [6.5]
    lo_n, hi_n = rng.range(1, 3), rng.range(1, 3)
    y = 6.5
    for _ in range(lo_n):
        y -= rng.choice([0.75, 1.0, 1.5, 0.6])
        ys.insert(0, y)
    y = 6.5
    for _ in range(hi_n):
        y += rng.choice([0.75, 1.0, 1.5, 0.6])
        ys.append(y)
    path = [(x + rng.uniform(-0.02, 0.02) * (0 if abs(v - 6.5) < 1e-9 else 1), v) for v in ys]
    sc.path = path
    sc.goals = [path[-1]]
    n = len(path)
    kb = lo_n                      # index of the band vertex
    seg = [dist(sc, path[i], path[i + 1]) for i in range(n - 1)]

    def sc_cost(q):
        return 1.0 + (24.0 if 3.0 < q[0] < 4.5 else 0.0) + (11.0 if 6.0 < q[1] < 7.0 else 0.0)
    cost = [0.5 * seg[i] * (sc_cost(path[i]) + sc_cost(path[i + 1])) for i in range(n - 1)]
    # distCostIndices is sorted by cost, highest first (stable): its first entry is the first maximal segment k0
    k0 = max(range(n - 1), key=lambda i: (cost[i], -i))
    back = sum(seg)
    ds = [sum(seg[:i]) for i in range(n)]
    bias = ds[kb] - ds[k0]          # distTo = dists[k0] + costBias must be dists[kb]
    ops = []
    if 0.0 <= bias <= seg[k0] + 1e-12:
        h = 1.0 - bias / back
        for _ in range(14):
            step = rng.choice([1.2, 1.5, 2.0, 3.0, 2.0 * 0.75, 2.0 * 1.0, 2.0 * 0.6, 0.9])
            smp = []
            for _ in range(3):
                smp.append((min(max(x + rng.uniform(-1.0, 1.0), 0.1), 9.9), rng.choice([rng.uniform(7.3, 9.5), rng.uniform(3.5, 5.7), rng.uniform(6.1, 6.9)])))
            hs = [h, h, h] if rng.chance(3, 4) else [h, rng.unit(), h]
            ops.append(("perturb", " ".join(["perturbs", "toll", B(step), str(rng.choice([1, 2, 3])), "0", B(rng.choice([0.0, 0.005, 0.02, 0.1, 0.3])), "3"] +
                                            [B(v) for v in hs] + ["3"] + [B(v) for q in smp for v in q])))
    return sc, ops


def gen_perturb_dense(rng):
    """directed for perturbPath's FAR splice branch (three or more vertices strictly between `before` and `after`, neither snapped):
    a DENSE vertical path (13 vertices 0.3 apart, 12 segments: within the range where std::sort is insertion sort) through the toll
    band, the perturbed point is the vertex in the middle of the band, the step window (1.7 .. 2.6) covers 5-8 vertices and ends strictly
    inside segments; samples above / below the band make the detour cheaper, so the perturbation is accepted"""
    sc = Scenario()
    sc.kind, sc.pdim, sc.w = "rv2", 2, 2
    sc.res = 0.01
    x = rng.choice([rng.uniform(0.6, 2.6), rng.uniform(4.9, 9.4)])
    off = rng.uniform(-0.04, 0.04)
    ys = [4.7 + off + 0.3 * k for k in range(13)]
    path = [(x + rng.uniform(-0.01, 0.01), v) for v in ys]
    sc.path = path
    sc.goals = [path[-1]]
    n = len(path)
    seg = [dist(sc, path[i], path[i + 1]) for i in range(n - 1)]

    def sc_cost(q):
        return 1.0 + (24.0 if 3.0 < q[0] < 4.5 else 0.0) + (11.0 if 6.0 < q[1] < 7.0 else 0.0)
    cost = [0.5 * seg[i] * (sc_cost(path[i]) + sc_cost(path[i + 1])) for i in range(n - 1)]
    k0 = max(range(n - 1), key=lambda i: (cost[i], -i))
    kb = k0 + 1
    back = sum(seg)
    ops = []
    for _ in range(12):
        bias = seg[k0] * rng.choice([1.0, 1.0, 0.5, 0.8])
        h = 1.0 - bias / back
        step = rng.choice([1.7, 2.0, 2.2, 2.6, 2.0, 2.3])
        smp = [(min(max(x + rng.uniform(-0.6, 0.6), 0.1), 9.9), rng.choice([rng.uniform(8.8, 9.6), rng.uniform(3.4, 4.2)])) for _ in range(3)]
        ops.append(("perturb", " ".join(["perturbs", "toll", B(step), str(rng.choice([1, 1, 2])), "0", B(rng.choice([0.0, 0.0, 0.002])), "3"] +
                                        [B(h)] * 3 + ["3"] + [B(v) for q in smp for v in q])))
    return sc, ops


def run_whole_ops(ck, hbin, sc, ops, tag):
    """lock-step + oracle for prepared whole-routine ops (perturbs / bgoal / bsplines lines)"""
    issues = []
    hdr = ["pathops", sc.env_line(), sc.states_line("path", sc.path), sc.states_line("goals", sc.goals)]
    chk0, rc0, _ = run_h(ck, hbin, hdr, timeout=60)
    if chk0 is None or len(chk0) < 3 or chk0[1] != "ok chk=1" or not ops:
        return issues
    outs, crashes = run_ops(ck, hbin, hdr, ops)
    for i, rc, err in crashes:
        issues.append(dict(kind="oracle", routine=ops[i][0], clause="crash", cls=classify_crash(ops[i][1], err),
                           detail="the routine does not return (rc=%s): %s" % (rc, err[:700]), script=hdr + [ops[i][1]], observed=[err[:1500]]))
    dscript, dmap = list(hdr), []
    for idx, ((routine, line), o) in enumerate(zip(ops, outs)):
        if o is None:
            continue
        ck.count("op:whole-" + routine)
        res = parse_result(o, sc.w)
        objective = line.split()[1]
        fails = oracle(sc, routine, line, res, objective, routine == "bettergoal")
        changed = res["out"] != [tuple(B(v) for v in s_) for s_ in sc.path]
        ck.case((tag, "whole-directed", idx, line[:40]), changed)
        if changed:
            ck.count("changed:whole-" + routine)
            ck.count("changed:whole-%s:%+d-states" % (routine, len(res["out"]) - len(sc.path)))
        issues += [dict(kind="oracle", routine=routine, clause=f_[0], detail=f_[1], cls=(f_[2] if len(f_) > 2 else None), objective=objective,
                        script=hdr + [line], observed=[o]) for f_ in fails]
        dl = line + " " + " ".join(res["cm_tokens"])
        dscript.append(dl)
        dmap.append((routine, line, res, o, dl))
    model, rc2, err2 = ck.run_bin(ck.driver(DRIVER), dscript, timeout=300)
    if rc2 != 0 or model is None or len(model) != len(dmap) + 3:
        return issues + [dict(kind="corr", routine="driver", clause="driver", detail="driver rc=%s" % rc2, script=dscript, observed=model or [])]
    for (routine, line, res, o, dl), m in zip(dmap, model[3:]):
        ck.traces_validated += 1
        if m == "idx-error":
            issues.append(dict(kind="idx", routine=routine, clause="indices_in_range", cls="model-index-error",
                               detail="checked indexing fails in the whole-routine model", script=hdr + [line], observed=[o], model=[m]))
        elif canon(res["prefix"]) != canon(m):
            issues.append(dict(kind="corr", routine=routine, clause="lockstep", detail="whole-routine model and implementation differ",
                               script=hdr + [line], dscript=dscript[:4] + [dl], observed=[res["prefix"]], model=[m]))
    return issues


def gen_oneway(rng):
    """directed, DIRECTION-SENSITIVE validity: a one-way zone (the band ylo <= y <= yhi may not be crossed in +x direction; the harness's
    motion validator enforces it on top of the discrete check).  The path runs right below the band, crosses it vertically and runs left
    above it, so it is valid; a chord from an early point to a later point further RIGHT is invalid, its reverse is valid."""
    sc = Scenario()
    sc.kind, sc.pdim, sc.w = "rv2", 2, 2
    sc.res = 0.01
    ylo, yhi = 4.0 + rng.uniform(0, 0.5), 6.0 - rng.uniform(0, 0.5)
    sc.oneway = (ylo, yhi)
    xl, xr = rng.uniform(0.5, 2.0), rng.uniform(8.0, 9.5)
    yb, yt = rng.uniform(1.0, 3.0), rng.uniform(7.0, 9.0)
    nb, nt = rng.range(1, 4), rng.range(1, 4)
    path = [(xl + (xr - xl) * k / nb, yb + rng.uniform(-0.3, 0.3) * (0 < k < nb)) for k in range(nb + 1)]
    path += [(xr, yt)]
    path += [(xr - (xr - xl) * k / nt, yt + rng.uniform(-0.3, 0.3) * (k < nt)) for k in range(1, nt + 1)]
    sc.path = path
    sc.goals = [path[-1], (xl + 0.5, yt - 0.5)]
    L = path_len(sc, path)
    ops = []
    for _ in range(12):
        ops.append(("pshort", "rnd %d len pshort %d %d %s %s" % (rng.below(100000), rng.choice([0, 10, 30]), 0, B(1.0), B(rng.choice([0.005, 0.0, 0.05])))))
    for _ in range(4):
        us = [rng.unit() for _ in range(40)]
        ops.append(("pshort", " ".join(["pshort", "20", "0", B(1.0), B(rng.choice([0.005, 0.0, 0.05])), "40"] + [B(x) for x in us])))
    for _ in range(3):
        sd = rng.below(100000)
        ops.append(("reduce", "rnd %d len reduce 0 0 %s" % (sd, B(1.0))))
        ops.append(("collapse", "rnd %d len collapse 0 0" % sd))
        ops.append(("rope", "rnd %d len rope %s %s" % (sd, B(rng.choice([L / 6, 1.0])), B(0.1))))
        ops.append(("bspline", "rnd %d len bspline 3 %s" % (sd, B(1e-3))))
        ops.append(("perturb", "rnd %d toll perturb %s 0 0 %s" % (sd, B(rng.choice([1.0, 2.0])), B(0.005))))
        ops.append(("bettergoal", "rnd %d len bettergoal 1000000 20 %s %s" % (sd, B(1.0), B(0.005))))
        ops.append(("simplifymax", "rnd %d len simplifymax" % sd))
    raws = [rng.below(1 << 30) for _ in range(60)]
    ops.append(("reduce", " ".join(["reduce", "30", "0", B(1.0), "60"] + [str(x) for x in raws])))
    ops.append(("collapse", "collapse 0 0"))
    ops.append(("rope", "rope %s %s" % (B(L / 5), B(0.1))))
    return sc, ops


# ------------------------------------------------------------------ PathGeometric's remaining methods (oracle-only, ASan)
def py_clearance(sc, q):
    best = float("inf")
    for lo, hi in sc.boxes:
        e2 = sum(max(max(lo[d] - q[d], 0.0), q[d] - hi[d]) ** 2 for d in range(sc.pdim))
        best = min(best, math.sqrt(e2))
    return best


def py_smoothness(sc, pts):
    s_ = 0.0
    if len(pts) > 2:
        a = dist(sc, pts[0], pts[1])
        for i in range(2, len(pts)):
            b = dist(sc, pts[i - 1], pts[i])
            c_ = dist(sc, pts[i - 2], pts[i])
            try:
                ac = (a * a + b * b - c_ * c_) / (2.0 * a * b)
            except ZeroDivisionError:
                ac = float("nan")
            if -1.0 < ac < 1.0:
                k = 2.0 * (math.pi - math.acos(ac)) / (a + b)
                s_ += k * k
            a = b
    return s_


def py_closest(sc, pts, q):
    if not pts:
        return -1
    best, bi = dist(sc, pts[0], q), 0
    for i in range(1, len(pts)):
        d = dist(sc, pts[i], q)
        if d < best:
            best, bi = d, i
    return bi


def run_pg(ck, hbin, sc, rng, tag):
    """append / prepend / reverse / keepAfter / keepBefore / getClosestIndex / overlay / copies / length, cost, smoothness, clearance / print /
    random / randomValid / clear on the scenario's path (and on its boundary variants), judged against an independent Python reading"""
    if sc.kind not in ("rv2", "rv3"):
        return []
    issues = []
    pts = list(sc.path)

    def rq():
        return tuple(rng.uniform(0.1, 9.9) for _ in range(sc.pdim))
    variants = [pts, pts[:1], pts[:2], [], [pts[0]] * 3 if pts else [], pts[:1] + pts[-1:] * 2 + pts[1:2] if len(pts) >= 2 else pts]
    for vi, v in enumerate(variants):
        qs = [rq(), v[rng.below(len(v))] if v else rq(), tuple((a + b) / 2 for a, b in zip(v[0], v[-1])) if v else rq()]
        other = [rq() for _ in range(rng.below(4))]
        ops = [("reverse", "pg reverse"), ("metrics", "pg metrics"), ("print", "pg print"), ("copies", "pg copies"), ("clear", "pg clear"),
               ("random", "pg random"), ("randomvalid", "pg randomvalid %d" % rng.choice([1, 5, 50])),
               ("appendpath", sc.states_line("pg appendpath", other)),
               ("overlay", "pg overlay %d %s" % (rng.below(len(v) + 2), sc.states_line("", other).strip()))]
        for q in qs:
            qt = " ".join(B(x) for x in q)
            ops += [("prepend", "pg prepend " + qt), ("append", "pg append " + qt), ("keepafter", "pg keepafter " + qt), ("keepbefore", "pg keepbefore " + qt),
                    ("closest", "pg closest " + qt)]
        hdr = ["pathops", sc.env_line(), sc.states_line("path", v)]
        impl, rc, err = run_h(ck, hbin, hdr + [l for _, l in ops], timeout=60)
        if impl is None or rc != 0 or len(impl) != 2 + len(ops):
            k = max(0, len(impl or []) - 2)
            issues.append(dict(kind="oracle", routine="pathgeometric", clause="crash", cls=ops[min(k, len(ops) - 1)][0],
                               detail="PathGeometric::%s does not return (rc=%s): %s" % (ops[min(k, len(ops) - 1)][0], rc, (err or "")[:500]),
                               script=hdr + [ops[min(k, len(ops) - 1)][1]], observed=(impl or [])[-1:]))
            continue
        vb = [tuple(B(x) for x in q) for q in v]
        for (m, line), o in zip(ops, impl[2:]):
            ck.count("op:pg-" + m)
            t = o.split()
            ret = int(t[1])
            k = int(t[3])
            out = chunk(t[4:4 + k * sc.w], sc.w)
            rest = t[4 + k * sc.w:]
            chk = rest[-1] == "1"
            vals = [F(x) for x in rest[1:5]] if rest and rest[0] == "vals" else None
            a = line.split()
            arg = fl(a[2:2 + sc.w]) if m in ("prepend", "append", "keepafter", "keepbefore", "closest") else None
            argb = tuple(a[2:2 + sc.w]) if arg is not None else None
            want = None
            bad = None
            if m == "reverse":
                want = vb[::-1]
            elif m == "prepend":
                want = [argb] + vb
            elif m == "append":
                want = vb + [argb]
            elif m == "appendpath":
                want = vb + [tuple(B(x) for x in q) for q in other]
            elif m in ("copies",):
                want = vb
                if ret != 0:
                    bad = "clear() left %d states" % ret
            elif m == "clear":
                want = []
            elif m == "closest":
                want = vb
                if ret != py_closest(sc, v, arg):
                    bad = "getClosestIndex = %d, the first closest state is %d" % (ret, py_closest(sc, v, arg))
            elif m in ("keepafter", "keepbefore"):
                i = py_closest(sc, v, arg)
                n = len(v)
                if m == "keepafter":
                    if i > 0:
                        if i + 1 < n and dist(sc, arg, v[i - 1]) > dist(sc, arg, v[i + 1]):
                            i += 1
                        want = vb[i:]
                    else:
                        want = vb
                else:
                    if i >= 0:
                        if i > 0 and i + 1 < n and dist(sc, arg, v[i - 1]) < dist(sc, arg, v[i + 1]):
                            i -= 1
                        want = vb[:i + 1]
                    else:
                        want = vb
            elif m == "overlay":
                start = int(a[2])
                ob_ = [tuple(B(x) for x in q) for q in other]
                if start > len(vb):
                    want = vb
                    if ret != 1:
                        bad = "overlay beyond the end did not throw"
                else:
                    want = list(vb)
                    for i_, q in enumerate(ob_):
                        if start + i_ < len(want):
                            want[start + i_] = q
                        else:
                            want.append(q)
            elif m == "metrics":
                want = vb
                L_ = path_len(sc, v)
                cl = (sum(py_clearance(sc, q) for q in v) / len(v)) if v else float("inf")
                exp = [L_, L_, py_smoothness(sc, v), cl]
                for name_, g_, e_ in zip(("length", "cost", "smoothness", "clearance"), vals, exp):
                    if not (g_ == e_ or abs(g_ - e_) <= 1e-9 * max(1.0, abs(e_)) or (math.isnan(g_) and math.isnan(e_))):
                        bad = "%s() = %r, recomputed %r" % (name_, g_, e_)
            elif m == "print":
                want = vb
                if ret != (len(v) + 2) * 100000 + (len(v) + 1):
                    bad = "print / printAsMatrix wrote %d / %d lines for %d states" % (ret // 100000, ret % 100000, len(v))
            elif m == "random":
                if len(out) != 2 or not all(sc.lo <= x <= sc.hi for q in out for x in fl(q)):
                    bad = "random() did not leave two states inside the bounds"
            elif m == "randomvalid":
                if (ret == 1 and (len(out) != 2 or not chk)) or (ret == 0 and len(out) != 0):
                    bad = "randomValid returned %d with %d states, check() = %s" % (ret, len(out), chk)
            if want is not None and out != want:
                bad = "result has %d states, expected %d (%s)" % (len(out), len(want), "same states" if sorted(out) == sorted(want) else "different states")
            ck.case((tag, "pg", vi, line[:50]), m not in ("metrics", "print", "closest"))
            if bad:
                issues.append(dict(kind="oracle", routine="pathgeometric", clause=m, detail="PathGeometric::%s: %s" % (m, bad), script=hdr + [line], observed=[o]))
        # lock-step of the index logic (reverse / prepend / append / keepAfter / keepBefore / getClosestIndex) against the Lean model
        ls = [(m, line, o) for (m, line), o in zip(ops, impl[2:]) if m in ("reverse", "prepend", "append", "keepafter", "keepbefore", "closest")]
        model, rc2, err2 = ck.run_bin(ck.driver(DRIVER), hdr + [l for _, l, _ in ls], timeout=60)
        if rc2 != 0 or model is None or len(model) != 2 + len(ls):
            issues.append(dict(kind="corr", routine="driver", clause="driver", detail="driver rc=%s" % rc2, script=hdr + [l for _, l, _ in ls], observed=model or []))
        else:
            for (m, line, o), mo_ in zip(ls, model[2:]):
                ck.traces_validated += 1
                k_ = int(o.split()[3])
                pre = " ".join(o.split()[:4 + k_ * sc.w])
                if pre != mo_:
                    issues.append(dict(kind="corr", routine="pathgeometric-" + m, clause="lockstep", detail="model and implementation differ",
                                       script=hdr + [line], dscript=hdr + [line], observed=[pre], model=[mo_]))
    return issues


def boundary_scenarios(rng):
    """paths of 0 / 1 / 2 states, two equal states, all states equal, an exactly repeated state after a long segment"""
    out = []
    for name, mk in (("empty", lambda a, b, c_: []), ("one", lambda a, b, c_: [a]), ("two", lambda a, b, c_: [a, b]), ("two-equal", lambda a, b, c_: [a, a]),
                     ("all-equal", lambda a, b, c_: [a] * 4), ("repeat-after-long", lambda a, b, c_: [a, b, b, c_]),
                     ("repeat-first-last", lambda a, b, c_: [a, a, b, c_, c_])):
        sc = Scenario()
        sc.kind, sc.pdim, sc.w = "rv2", 2, 2
        sc.res = rng.choice([0.01, 0.02])
        a = (rng.uniform(0.5, 2.0), rng.uniform(0.5, 9.5))
        b = (rng.uniform(8.0, 9.5), rng.uniform(0.5, 9.5))
        c_ = (rng.uniform(4.0, 6.0), rng.uniform(0.5, 9.5))
        sc.path = mk(a, b, c_)
        sc.goals = [sc.path[-1]] if sc.path else [a]
        out.append((name, sc))
    return out


def gen_boundary_ops(rng, sc):
    n = len(sc.path)
    ops = [("collapse", "collapse 0 0"), ("rope", "rope %s %s" % (B(1.0), B(0.1))), ("subdivide", "subdivide"), ("interp", "interp")]
    for c_ in (0, 1, 2, n, n + 1, 2 * n + 3, 40):
        ops.append(("interpn", "interpn %d" % c_))
    ops.append(("reduce", "reduce 0 0 %s 4 0 1 2 3" % B(0.33)))
    ops.append(("pshort", "pshort 0 0 %s %s 4 %s" % (B(0.33), B(0.005), " ".join(B(x) for x in (0.1, 0.9, 0.5, 0.5)))))
    for sd in (1, 2):
        for r_ in ("reduce 0 0 %s" % B(0.33), "pshort 0 0 %s %s" % (B(0.33), B(0.005)), "collapse 0 0", "rope %s %s" % (B(1.0), B(0.1)), "bspline 3 %s" % B(1e-3),
                   "perturb %s 0 0 %s" % (B(1.0), B(0.005)), "bettergoal 100 5 %s %s" % (B(0.33), B(0.005)), "simplifymax", "simplify 3 0", "simplify 0 1"):
            ops.append((r_.split()[0], "rnd %d len %s" % (sd, r_)))
    return ops


def gen_dubins(rng):
    """ASYMMETRIC space: Dubins car (turning radius 0.3-0.6, not symmetric), no obstacles, path length = Dubins distance; the cost-aware
    routines are held to their own (direction-dependent) objective, the vertex removers to exact direction-aware pairs"""
    sc = Scenario()
    sc.kind, sc.pdim, sc.w = "dubins", 2, 3
    sc.res = 0.01
    sc.rho = rng.choice([0.3, 0.4, 0.6])
    n = rng.choice([3, 4, 6, 8])
    sc.path = [(rng.uniform(2.5, 7.5), rng.uniform(2.5, 7.5), rng.uniform(-3.1, 3.1)) for _ in range(n)]
    sc.goals = [sc.path[-1], (rng.uniform(3, 7), rng.uniform(3, 7), rng.uniform(-3.1, 3.1))]
    ops = []
    for _ in range(3):
        sd = rng.below(100000)
        ops += [("pshort", "rnd %d len pshort 0 0 %s %s" % (sd, B(rng.choice([0.33, 1.0])), B(rng.choice([0.005, 0.0])))),
                ("rope", "rnd %d len rope %s %s" % (sd, B(rng.choice([1.0, 2.0, 50.0])), B(0.1))),
                ("reduce", "rnd %d len reduce 0 0 %s" % (sd, B(1.0))), ("collapse", "rnd %d len collapse 0 0" % sd),
                ("bettergoal", "rnd %d len bettergoal 1000000 20 %s %s" % (sd, B(1.0), B(0.005))),
                ("perturb", "rnd %d len perturb %s 0 0 %s" % (sd, B(rng.choice([0.5, 1.5])), B(0.005))),
                ("simplifymax", "rnd %d len simplifymax" % sd)]
    ops += [("subdivide", "subdivide"), ("interpn", "interpn %d" % (2 * n + 3))]
    return sc, ops


def run_light(ck, hbin, sc, ops, tag):
    """oracle only (no lock-step): used for the Dubins scenarios (the driver's space models do not include Dubins)"""
    issues = []
    hdr = ["pathops", sc.env_line(), sc.states_line("path", sc.path), sc.states_line("goals", sc.goals)]
    h0, rc0, _ = run_h(ck, hbin, hdr, timeout=60)
    if h0 is None or len(h0) < 3 or h0[1] != "ok chk=1":
        ck.count("scenario:%s-input-not-valid-skipped" % tag)
        return issues
    outs, crashes = run_ops(ck, hbin, hdr, ops)
    for i, rc, err in crashes:
        issues.append(dict(kind="oracle", routine=ops[i][0], clause="crash", cls=classify_crash(ops[i][1], err),
                           detail="the routine does not return (rc=%s): %s" % (rc, err[:600]), script=hdr + [ops[i][1]], observed=[err[:1200]]))
    for idx, ((routine, line), o) in enumerate(zip(ops, outs)):
        if o is None:
            continue
        ck.count("op:%s-%s" % (tag, routine))
        res = parse_result(o, sc.w)
        t = line.split()
        objective = t[2] if t[0] == "rnd" else "len"
        fails = oracle(sc, routine, line, res, objective, routine in ("bettergoal", "simplify", "simplifymax"))
        # in a curved space the length of a densified path is compared at 1e-6
        fails = [f_ for f_ in fails if not (sc.kind == "dubins" and f_[0] == "length_unchanged" and abs(res["len1"] - res["len0"]) <= 1e-6 * max(1.0, res["len0"]))]
        ck.case((tag, idx, line[:40]), res["out"] != [tuple(B(x) for x in s_) for s_ in sc.path])
        issues += [dict(kind="oracle", routine=routine, clause=f_[0], detail=f_[1] + " [%s]" % tag, cls=(f_[2] if len(f_) > 2 else None), objective=objective,
                        script=hdr + [line], observed=[o]) for f_ in fails]
    return issues


def run_chain(ck, hbin, sc, rng, tag):
    """HISTORIES: one PathSimplifier object, one path, several routines one after the other (freeStates on; off in a process without leak
    detection, since freeStates(false) hands the removed states back to a caller who must free them); every step is judged with the previous
    step's result as its input"""
    if sc.kind not in ("rv2", "rv3") or len(sc.path) < 2:
        return []
    issues = []
    L = max(path_len(sc, sc.path), 1e-3)
    menu = ["pshort 0 0 %s %s" % (B(0.33), B(0.005)), "reduce 0 0 %s" % B(0.33), "collapse 0 0", "rope %s %s" % (B(max(L / 6, 0.3)), B(0.1)),
            "bspline 2 %s" % B(1e-3), "perturb %s 0 0 %s" % (B(1.0), B(0.005)), "bettergoal 1000000 10 %s %s" % (B(0.33), B(0.005)),
            "simplify %d %d" % (rng.choice([2, 5, 9, 1000000]), rng.below(2)), "simplifymax", "subdivide"]
    for free in (1, 0):
        steps = [rng.choice(menu) for _ in range(rng.range(3, 6))]
        obj = rng.choice(["len", "len", "work", "toll"])
        line = "chain %d %s %d %d %s" % (rng.below(100000), obj, free, len(steps), " ; ".join(steps))
        hdr = ["pathops", sc.env_line(), sc.states_line("path", sc.path), sc.states_line("goals", sc.goals)]
        h0, _, _ = run_h(ck, hbin, hdr, timeout=60)
        if h0 is None or len(h0) < 3 or h0[1] != "ok chk=1":
            return issues
        impl, rc, err = ck.run_bin(hbin, hdr + [line], timeout=120, env=None if free else {"ASAN_OPTIONS": "detect_leaks=0:abort_on_error=0:exitcode=99"})
        ck.count("op:chain-free%d" % free)
        if impl is not None and rc == 0 and len(impl) == 4 and impl[3] == "budget-exceeded":
            ropetoll = obj in NON_ADDITIVE and any(st_.startswith("rope") for st_ in steps)
            issues.append(dict(kind="oracle", routine="rope" if ropetoll else "chain", clause="terminates",
                               cls="rope-does-not-return-under-a-non-additive-objective (as before fix F173)" if ropetoll else "checkMotion-budget",
                               detail="a step of the history asked more than 150000 motions without returning (objective %s)" % obj, objective=obj,
                               script=hdr + [line], observed=impl[-1:]))
            continue
        if impl is None or rc != 0 or len(impl) != 4 or not impl[3].startswith("chain"):
            issues.append(dict(kind="oracle", routine="chain", clause="crash", cls=classify_crash("rnd 0 len " + steps[0], err or ""),
                               detail="a history of routines on one PathSimplifier object does not return (rc=%s, freeStates=%d): %s" % (rc, free, (err or "")[:500]),
                               script=hdr + [line], observed=(impl or [])[-1:]))
            continue
        cur = Scenario()
        cur.__dict__.update(sc.__dict__)
        prev_chk = True
        for k, (step, part) in enumerate(zip(steps, impl[3].split(" || ")[1:])):
            routine = step.split()[0]
            res = parse_result(part, sc.w)
            res["len0"], res["len1"] = path_len(cur, cur.path), path_len(cur, [fl(q) for q in res["out"]])
            fails = oracle(cur, routine, "rnd 0 %s %s" % (obj, step), res, obj, routine in ("bettergoal", "simplify", "simplifymax"))
            if not prev_chk:
                fails = [f_ for f_ in fails if f_[0] != "check"]     # the step's INPUT already failed check() (a cut point in a sliver): not this step's doing
            prev_chk = res["chk"]
            ck.case((tag, "chain", free, k, step[:30]), res["out"] != [tuple(B(x) for x in s_) for s_ in cur.path])
            issues += [dict(kind="oracle", routine=routine, clause=f_[0], detail=f_[1] + " [step %d of a history on one PathSimplifier object, freeStates=%d]" % (k, free),
                            cls=(f_[2] if len(f_) > 2 else None), objective=obj, script=hdr + [line], observed=[part[:300]]) for f_ in fails]
            nxt = Scenario()
            nxt.__dict__.update(cur.__dict__)
            nxt.path = [fl(q) for q in res["out"]]
            cur = nxt
            if not cur.path:
                break
    return issues


def gen_toll_scenario(rng):
    """directed for findBetterGoal under a cost field that is NOT proportional to length along a segment: a left-to-right path whose
    vertices avoid the toll corridor 3 < x < 4.5 (so the path itself crosses it for free under the end-point trapezoid rule) and
    2-5 goal states around the corridor's exits and the path's end"""
    sc = Scenario()
    sc.kind, sc.pdim, sc.w = "rv2", 2, 2
    sc.res = 0.01
    if rng.chance(1, 3):
        lo = (rng.uniform(5.5, 7.5), rng.uniform(0.5, 3.0))
        sc.boxes = [(lo, (lo[0] + 1.0, lo[1] + 1.5))]
    y = rng.uniform(2.0, 8.0)
    xs = [rng.uniform(0.3, 1.0)]
    while xs[-1] < 8.5:
        nx = xs[-1] + rng.uniform(0.6, 2.4)
        if 2.9 < nx < 4.6:
            nx = rng.uniform(4.6, 5.4) if rng.chance(2, 3) else nx
        xs.append(min(nx, 9.7))
    path = []
    for x in xs:
        y = min(max(y + rng.uniform(-0.8, 0.8), 0.3), 9.7)
        path.append((x, y))
    path = [q for k, q in enumerate(path) if k == 0 or free_segment(sc, path[k - 1], q, -1e-6) and free_segment(sc, q, q, -1e-6)]
    if len(path) < 3:
        return None
    sc.path = path
    sc.goals = [path[-1]]
    for _ in range(rng.range(1, 4)):
        q = rng.choice(path)
        g = (min(max(rng.choice([rng.uniform(4.5, 5.2), rng.uniform(2.3, 3.0), q[0] + rng.uniform(-1, 1)]), 0.1), 9.9),
             min(max(q[1] + rng.uniform(-1.2, 1.2), 0.1), 9.9))
        if free_segment(sc, g, g, -1e-6):
            sc.goals.append(g)
    rng.shuffle(sc.goals)
    ops = []
    ops.append(("rope", "rnd %d toll rope %s %s" % (rng.below(100000), B(rng.choice([0.7, 1.0, 1.4])), B(0.1))))
    for bo in ("toll", "toll", "toll", "tolli", "step", "stepi", "checker"):
        for _ in range(3):
            ops.append(("bettergoal", "rnd %d %s bettergoal 1000000 %d %s %s" % (rng.below(100000), bo, rng.choice([10, 50]),
                                                                                 B(rng.choice([1.0, 1.0, 0.5])), B(rng.choice([0.005, 0.0, 0.05])))))
    return sc, ops


def gen_region_detour(rng):
    """directed for the COST TEST of the cost-aware routines under an additive objective that is not a metric: `wreg` (length weighted 5x inside
    the box [3.5, 6.5]^2) with a path that walks AROUND the box, or `lin` (cost density 0.25 + x) with a path that bows towards small x — many
    geometrically shorter chords are costlier than the piece of path they would replace, so the routine's own comparison (alongPath against
    the chord) is what keeps path.cost(obj) from rising.  partialShortcutPath runs under scripted draws in lock-step (`pshorto`), every
    cost-aware routine with the real RNG."""
    sc = Scenario()
    sc.kind, sc.pdim, sc.w = "rv2", 2, 2
    sc.res = 0.01
    shape = rng.choice(["around", "around", "graze", "bow"])
    pts = []
    if shape == "around":
        m0, m1, m2 = (rng.uniform(0.15, 1.3) for _ in range(3))
        pts = [(3.5 - m0 + rng.uniform(-0.8, 0.6), rng.uniform(3.6, 6.4)), (3.5 - m0, 6.5 + m1), (6.5 + m2, 6.5 + m1), (6.5 + m2 + rng.uniform(-0.6, 0.8), rng.uniform(3.6, 6.4))]
    elif shape == "graze":
        pts = [(rng.uniform(1.0, 3.0), rng.uniform(1.0, 3.0)), (rng.uniform(3.0, 4.0), rng.uniform(6.0, 7.5)), (rng.uniform(6.0, 7.5), rng.uniform(6.0, 7.5)),
               (rng.uniform(7.0, 9.0), rng.uniform(1.0, 4.0))]
    else:
        xs, h = rng.uniform(3.0, 5.5), rng.uniform(1.0, 2.6)
        pts = [(xs, 1.5), (xs - h, rng.uniform(3.0, 4.5)), (xs - h + rng.uniform(-0.3, 0.3), rng.uniform(5.5, 7.0)), (xs + rng.uniform(-0.5, 0.5), 8.5)]
    # extra vertices ON the segments (collinear vertices: snapped samples, vertex-to-vertex shortcuts) and a little jitter
    path = [pts[0]]
    for a, b in zip(pts[:-1], pts[1:]):
        for _ in range(rng.choice([0, 0, 1, 2])):
            t_ = rng.uniform(0.15, 0.85)
            path.append((a[0] + t_ * (b[0] - a[0]) + rng.uniform(-0.02, 0.02), a[1] + t_ * (b[1] - a[1]) + rng.uniform(-0.02, 0.02)))
        path.append(b)
    # keep the order along each segment
    if rng.chance(1, 2):
        path = [(q[1], q[0]) for q in path] if shape != "bow" else path      # the region is symmetric in x / y; the linear field is not
    if rng.chance(1, 2):
        path = path[::-1]
    path = [(min(max(q[0], 0.1), 9.9), min(max(q[1], 0.1), 9.9)) for q in path]
    sc.path = path
    sc.goals = [path[-1], (min(max(path[-1][0] + rng.uniform(-1, 1), 0.1), 9.9), min(max(path[-1][1] + rng.uniform(-1, 1), 0.1), 9.9))]
    main = "lin" if shape == "bow" else "wreg"
    ops = []
    for j in range(8):
        k = 120
        us = [rng.unit() for _ in range(k)]
        ob_ = main if j < 6 else ("wreg" if main == "lin" else "lin")
        ops.append(("pshort", " ".join(["pshorto", ob_, str(rng.choice([0, 10, 50])), str(rng.choice([0, 0, 20])), B(rng.choice([1.0, 1.0, 0.5, 0.33])),
                                        B(rng.choice([0.0, 0.005, 0.005, 0.05, 0.2])), str(k)] + [B(x) for x in us])))
    L = path_len(sc, path)
    for ob_ in (main, main, "wreg" if main == "lin" else "lin"):
        ops.append(("rope", "ropeo %s %s %s" % (ob_, B(rng.choice([L / 8, L / 5, 1.0, L / 3])), B(rng.choice([0.1, 0.01])))))
    for _ in range(3):
        sd = rng.below(100000)
        for ob_ in (main, "wreg" if main == "lin" else "lin"):
            ops.append(("pshort", "rnd %d %s pshort %d %d %s %s" % (sd, ob_, rng.choice([0, 30, 100]), 0, B(rng.choice([1.0, 0.5, 0.33])), B(rng.choice([0.005, 0.0, 0.05])))))
            ops.append(("perturb", "rnd %d %s perturb %s %d %d %s" % (sd, ob_, B(rng.choice([0.5, 1.0, 2.0])), rng.choice([0, 30]), 0, B(rng.choice([0.005, 0.0, 0.05])))))
            ops.append(("rope", "rnd %d %s rope %s %s" % (sd, ob_, B(rng.choice([L / 8, 1.0, L / 3])), B(0.1))))
            ops.append(("bettergoal", "rnd %d %s bettergoal 1000000 20 %s %s" % (sd, ob_, B(rng.choice([1.0, 0.5])), B(0.005))))
        ops.append(("simplify", "rnd %d %s simplify %d %d" % (sd, main, rng.choice([3, 9, 1000000]), rng.below(2))))
    return sc, ops, shape


def gen_pm(rng, tier):
    """PSEUDO-METRIC spaces: cmp(w0 * R^2, w1 * SO(2)) with a ZERO subspace weight (usually the heading's: "ignore the heading in the distance"):
    distinct states at distance 0, zero-length motions that are real motions.  Obstacles are boxes over (x, y, theta), so a turn on the spot can be
    invalid while the path that backs off, turns and comes back is valid.  Headings stay within +-1.45, so SO(2) interpolation is linear and the
    oracle's geometry is that of R^3.  Every routine runs with the recording validator's `only validated motions` oracle; the lock-step ops run
    against the model over the same weighted space."""
    sc = Scenario()
    sc.kind, sc.pdim, sc.w = "pm", 3, 3
    sc.res = rng.choice([0.005, 0.01, 0.02])
    sc.wts = rng.choice([(1.0, 0.0), (1.0, 0.0), (1.0, 0.0), (0.5, 0.0), (1.0, 0.5), (0.0, 1.0)])
    directed = rng.chance(1, 2)

    def rnd_state():
        return (rng.uniform(0.5, 9.5), rng.uniform(0.5, 9.5), rng.uniform(-1.45, 1.45))

    def ok(a, b):
        return free_segment(sc, a, b, -1e-6)
    for _ in range(rng.choice([0, 1, 2, 3])):
        lo = (rng.uniform(0.5, 8.0), rng.uniform(0.5, 8.0), rng.uniform(-1.3, 0.6))
        sc.boxes.append((lo, (lo[0] + rng.uniform(0.5, 2.0), lo[1] + rng.uniform(0.5, 2.0), lo[2] + rng.uniform(0.3, 1.2))))
    core = []
    if directed:
        # back off, turn, come back: the on-the-spot rotation between the two visits of p is INVALID
        for _ in range(50):
            px, py = rng.uniform(1.5, 8.5), rng.uniform(1.5, 8.5)
            tlo = rng.uniform(-0.9, 0.2)
            thi = tlo + rng.uniform(0.3, 0.8)
            box = ((px - 0.3, py - 0.3, tlo), (px + 0.3, py + 0.3, thi))
            t0, t2 = tlo - rng.uniform(0.1, 0.5), thi + rng.uniform(0.1, 0.5)
            ang, r_ = rng.uniform(0, 2 * math.pi), rng.uniform(1.2, 2.6)
            q = (min(max(px + r_ * math.cos(ang), 0.3), 9.7), min(max(py + r_ * math.sin(ang), 0.3), 9.7), rng.uniform(tlo, thi))
            a_, c_ = (px, py, t0), (px, py, t2)
            if rng.chance(1, 2):
                a_, c_ = c_, a_
            old = sc.boxes
            sc.boxes = old + [box]
            if ok(a_, q) and ok(q, c_) and all(ok(s_, s_) for s_ in (a_, q, c_)):
                core = [a_, q, c_]
                break
            sc.boxes = old
        if not core:
            directed = False

    def free_state():
        for _ in range(200):
            s_ = rnd_state()
            if ok(s_, s_):
                return s_
        return None
    n = rng.choice([3, 4, 5, 6, 8, 10, 14] + ([20, 30] if tier != "quick" else []))
    path = []
    first = free_state()
    if first is None:
        return None
    path = [first]
    tries = 0
    pre = rng.below(3) if directed else n
    phase = 0
    while tries < 60 * n:
        tries += 1
        if directed and phase == 0 and len(path) - 1 >= pre:
            # splice the core in
            if ok(path[-1], core[0]):
                path += core
                phase = 1
                pre = len(path) + rng.below(3)
                continue
            path = path[:1] if len(path) > 1 else [free_state() or path[0]]
            continue
        if (directed and phase == 1 and len(path) >= pre) or (not directed and len(path) >= n):
            break
        r = rng.below(100)
        if r < 8:
            nxt = path[-1]
        elif r < 30 and len(path) >= 2:
            # come back to an EARLIER position with another heading (distance 0 under a zero heading weight)
            e = path[rng.below(len(path) - 1)]
            nxt = (e[0], e[1], rng.uniform(-1.45, 1.45))
        elif r < 40:
            nxt = (path[-1][0], path[-1][1], rng.uniform(-1.45, 1.45))      # turn on the spot
        elif r < 50:
            nxt = (rng.uniform(0.5, 9.5), rng.uniform(0.5, 9.5), path[-1][2])   # translate, same heading
        elif r < 75:
            nxt = (min(max(path[-1][0] + rng.uniform(-2, 2), 0.3), 9.7), min(max(path[-1][1] + rng.uniform(-2, 2), 0.3), 9.7), rng.uniform(-1.45, 1.45))
        else:
            nxt = rnd_state()
        if ok(nxt, nxt) and ok(path[-1], nxt):
            path.append(nxt)
    if len(path) < 3 or (directed and phase == 0):
        return None
    sc.path = path
    sc.goals = [path[-1]]
    g = free_state()
    if g is not None:
        sc.goals.append(g)
    return sc, directed


def gen_hybridseq(rng):
    """interleaved recordPath / computeHybridPath.  Half of the scenarios have a wall (x in [4.8, 5.2], full height) with paths on
    both sides that cannot be cross-connected; a poor path is recorded and computed first, better ones later."""
    sc = Scenario()
    sc.kind, sc.pdim, sc.w = "rv2", 2, 2
    sc.res = 0.01
    wall = rng.chance(1, 2)
    if wall:
        sc.boxes = [((4.8, -1.0), (5.2, 11.0))]
    for _ in range(rng.below(3)):
        lo = (rng.choice([rng.uniform(0.5, 3.0), rng.uniform(6.0, 8.0)]), rng.uniform(0.5, 7.5))
        sc.boxes.append((lo, (lo[0] + rng.uniform(0.5, 1.2), lo[1] + rng.uniform(0.8, 2.0))))

    def rnd_pt(side):
        for _ in range(100):
            x = rng.uniform(0.3, 4.5) if side == 0 else rng.uniform(5.5, 9.7) if side == 1 else rng.uniform(0.3, 9.7)
            q = (x, rng.uniform(0.3, 9.7))
            if free_segment(sc, q, q, -1e-6):
                return q
        return None

    def make_path(side, a, b, detour):
        p = [a]
        for _ in range(detour):
            for _ in range(40):
                q = rnd_pt(side)
                if q is not None and free_segment(sc, p[-1], q, -1e-6):
                    p.append(q)
                    break
        if not free_segment(sc, p[-1], b, -1e-6):
            return None
        return p + [b]
    steps, paths = [], []
    nrec = rng.range(2, 5)
    shared = rng.chance(1, 2)
    a0, b0 = rnd_pt(0 if wall else 2), rnd_pt(0 if wall else 2)
    for k in range(nrec):
        side = (k % 2 if wall else 2)
        if shared and not wall:
            a, b = a0, b0
        else:
            a, b = rnd_pt(side), rnd_pt(side)
        if a is None or b is None:
            continue
        # poor paths first (long detours), better ones later
        p = make_path(side, a, b, max(0, 4 - 2 * k) + rng.below(2))
        if p is None:
            continue
        paths.append(p)
        steps.append("rec %d %d %s" % (rng.below(2), len(p), " ".join(B(x) for q in p for x in q)))
        if rng.chance(4, 5):
            steps.append("comp")
        if rng.chance(1, 5):
            steps.append("clear")
            if rng.chance(1, 2):
                steps.append("comp")       # compute on the cleared object: there must be no path
    steps.append("comp")
    obj = rng.choice(["len", "len", "integral", "toll"])
    n = sum(1 for _ in steps)
    line = "hybridseq %s %d %s" % (obj, n, " ".join(steps))
    return sc, line, obj


def run_hybridseq(ck, hbin, rng):
    sc, line, obj = gen_hybridseq(rng)
    script = ["pathops", sc.env_line(), line]
    impl, rc, err = run_h(ck, hbin, script, timeout=120)
    ck.count("op:hybridseq")
    if rc != 0 or impl is None or len(impl) < 2 or not impl[1].startswith("seq"):
        return [dict(kind="oracle", routine="hybridseq", clause="crash", detail="rc=%s %s %s" % (rc, (impl or [""])[-1][:100], (err or "")[:500]), script=script, observed=impl or [])]
    parts = impl[1].split(" | ")
    recorded = []
    fails = []
    ncomp = 0
    cleared = False
    for k, part in enumerate(parts[1:-1]):
        t = part.split()
        if t[0] == "rec":
            recorded.append(F(t[3]))
        elif t[0] == "clear":
            recorded = []
            cleared = True
        elif t[0] == "comp":
            ncomp += 1
            if not recorded and cleared and t[1] != "none":
                fails.append(("hybrid_clear", "step %d: after clear() and before any recordPath, computeHybridPath/getHybridPath still returns a path" % k))
            if t[1] == "none":
                if recorded:
                    fails.append(("hybrid_le_best", "step %d: no hybrid path although %d paths are recorded" % (k, len(recorded))))
                continue
            kk = int(t[2])
            i = 3 + kk * sc.w
            hcost, chk = F(t[i + 1]), t[i + 3] == "1"
            if not recorded:
                continue      # a stale path after clear() is not covered by the property text
            best = min(recorded)
            if hcost > best * (1 + 1e-9) + 1e-12:
                fails.append(("hybrid_le_best", "step %d: after recording %d paths (best cost %r) computeHybridPath/getHybridPath gives a path "
                              "of cost %r" % (k, len(recorded), best, hcost)))
            if not chk:
                fails.append(("hybrid_check", "step %d: hybrid path fails check()" % k))
    ck.case(("hybridseq", line[:100]), ncomp >= 2)
    return [dict(kind="oracle", routine="hybridseq", clause=c, detail=d, objective=obj, script=script, observed=impl) for c, d in fails]


def corpus():
    d = os.path.join(core.VERIF, "corpus", "C17")
    out = []
    if os.path.isdir(d):
        for f in sorted(os.listdir(d)):
            if f.endswith(".txt"):
                out.append((f, [l.rstrip("\n") for l in open(os.path.join(d, f)) if l.strip()]))
    return out


def run_corpus_script(ck, hbin, name, script, hchk=None):
    """corpus scripts are harness scripts (header, env, path, [goals], ops); each op line is judged like a generated one"""
    sc = Scenario()
    env = script[1].split()
    if env[1] == "se2":
        sc.kind, sc.pdim, sc.w = "se2", 2, 3
    elif env[1] == "cmp":
        # cmp 2 <w0> rv 2 <lo>*2 <hi>*2 <w1> so2   (pseudo-metric scenarios)
        sc.kind, sc.pdim, sc.w = "pm", 3, 3
        sc.wts = (F(env[3]), F(env[10]))
    else:
        sc.pdim = sc.w = int(env[2])
        sc.kind = "rv%d" % sc.pdim
    ib = env.index("boxes")
    pd, k = int(env[ib + 1]), int(env[ib + 2])
    vals = [F(x) for x in env[ib + 3:ib + 3 + 2 * pd * k]]
    for j in range(k):
        sc.boxes.append((tuple(vals[2 * pd * j:2 * pd * j + pd]), tuple(vals[2 * pd * j + pd:2 * pd * (j + 1)])))
    ir = env.index("res")
    sc.res = F(env[ir + 1])
    if "oneway" in env:
        io = env.index("oneway")
        sc.oneway = (F(env[io + 1]), F(env[io + 2]))
    pt = script[2].split()
    sc.path = [fl(s) for s in chunk(pt[2:], sc.w)]
    rest = script[3:]
    sc.goals = [sc.path[-1]]
    if rest and rest[0].startswith("goals"):
        gt = rest[0].split()
        sc.goals = [fl(s) for s in chunk(gt[2:], sc.w)]
        rest = rest[1:]
    ops = []
    for l in rest:
        t = l.split()
        rt_ = t[3] if t[0] == "rnd" else t[0]
        ops.append(("pshort" if rt_ == "pshorto" else "rope" if rt_ == "ropeo" else rt_, l))
    return run_scenario(ck, hbin, hchk, sc, ops, "corpus", name)


def confirm_f9(ck, hchk, issue):
    """the same script on the bounds-checked build (-D_GLIBCXX_ASSERTIONS) of the same sources must abort"""
    impl, rc, err = run_h(ck, hchk, issue["script"], timeout=120)
    return rc != 0 and "Assertion" in (err or "") and "size()" in (err or "")


def build(ck):
    hbin = ck.build_harness("pathops", ["pathops.cpp"], link_ompl=True)
    hchk = ck.build_harness("pathops_chk", ["pathops.cpp"], link_ompl=True, extra=["-D_GLIBCXX_ASSERTIONS"])
    return hbin, hchk


def setup(ck):
    build(ck)


def handle(ck, issues, hchk, state):
    """turn issues into reports.  At most 2 replays per (routine, clause, class), so that one defect that shows on a hundred
    inputs does not hide the others."""
    def capped(key):
        state["seen"][key] = state["seen"].get(key, 0) + 1
        ck.count("issue:%s/%s/%s" % key)
        return state["seen"][key] > 2

    for it in issues:
        kind = it["kind"]
        if kind == "infra":
            if capped((it["routine"], "infrastructure", None)):
                continue
            state["bad"] += 1
            ck.log("infrastructure: %s" % it["detail"])
            ck.report({"engine": "pathops", "kind": "infrastructure", "what": it["detail"]}, script=it["script"], observed=it["observed"], found_input=False,
                      engine="pathops", obligation="check machinery: " + it["detail"])
            continue
        if kind == "f9probe":
            ck.count("rope:inputs-where-pre-F9-code-read-past-end")
            if state["f9_probes"] < 3:
                state["f9_probes"] += 1
                if confirm_f9(ck, hchk, it):
                    kind = "regress"
                    it = dict(it, kind="regress", fid="F9", clause="indices_in_range", cls="stale index after erase: read past end()",
                              detail="the bounds-checked build (-D_GLIBCXX_ASSERTIONS) of ropeShortcutPath aborts: states[j] is read with j >= size() "
                                     "after states.erase(i+1..j) (behaviour of the code before fix F9)")
                else:
                    ck.count("rope:bounds-checked-build-clean")
                    continue
            else:
                continue
        if kind == "regress":
            key = (it["routine"], it["clause"], it["cls"])
            if capped(key):
                continue
            state["bad"] += 1
            if it.get("named"):
                ck.log("property failure (the implementation equals the model variant `%s`): %s/%s: %s" % (it["named"], it["routine"], it["clause"], it["detail"][:200]))
                ck.report({"engine": "pathops", "routine": it["routine"], "clause": it["clause"], "class": it["cls"], "variant": it["named"],
                           "what": it["detail"]}, script=it["script"], expected=it.get("model"), observed=it["observed"], engine="pathops")
                continue
            ck.log("property failure (as before fix %s): %s/%s: %s" % (it["fid"], it["routine"], it["clause"], it["detail"][:200]))
            ck.report({"engine": "pathops", "routine": it["routine"], "clause": it["clause"], "class": it["cls"], "as_before_fix": it["fid"],
                       "what": it["detail"]}, script=it["script"], expected=it.get("model"), observed=it["observed"], engine="pathops")
        elif kind == "idx":
            key = (it["routine"], it["clause"], it["cls"])
            if capped(key):
                continue
            state["bad"] += 1
            confirmed = confirm_f9(ck, hchk, it)
            ck.log("index error in %s (model's checked indexing fails; bounds-checked build aborts: %s)" % (it["routine"], confirmed))
            if confirmed:
                ck.report({"engine": "pathops", "routine": it["routine"], "clause": "indices_in_range", "class": it["cls"], "what": it["detail"]},
                          script=it["script"], expected=it.get("model"), observed=it["observed"], engine="pathops")
            else:
                ck.disagreements += 1
                ck.report({"engine": "pathops", "routine": it["routine"], "what": "model reports an index error that the bounds-checked build does not see"},
                          script=it["script"], expected=it.get("model"), observed=it["observed"], found_input=False, engine="pathops",
                          obligation="correspondence pathops: %s checked indexing (model vs -D_GLIBCXX_ASSERTIONS build)" % it["routine"])
        elif kind == "oracle":
            key = (it["routine"], it["clause"], it.get("cls"))
            if capped(key):
                continue
            if ck.known_finding({"engine": "pathops", "routine": it["routine"], "clause": it["clause"], "class": it.get("cls")}) is None:
                state["bad"] += 1
                ck.log("property failure: %s/%s: %s" % (it["routine"], it["clause"], it["detail"][:300]))
            ck.report({"engine": "pathops", "routine": it["routine"], "clause": it["clause"], "objective": it.get("objective", "len"),
                       "class": it.get("cls"), "what": it["detail"]}, script=it["script"], expected=None, observed=it["observed"], engine="pathops")
        else:
            key = (it["routine"], "lockstep", it.get("opname"))
            if capped(key):
                continue
            state["bad"] += 1
            ck.disagreements += 1
            ck.log("correspondence disagreement: %s: %s" % (it["routine"], it["detail"]))
            ck.report({"engine": "pathops", "routine": it["routine"], "what": "model/implementation disagreement"},
                      script=it.get("dscript") or it["script"], expected=it.get("model"), observed=it["observed"], found_input=False, engine="pathops",
                      obligation="correspondence pathops: %s in PathSimplifier.cpp/PathGeometric.cpp vs OmplModel.Model.PathOps" % it["routine"])


def run(ck):
    ck.rule = ("one case = one routine call on one generated scenario (space rv2/rv3/se2, 0-12 boxes, valid input path of 2-60 "
               "states with repeated and near-repeated states); non-trivial = the routine changed the path; distinct by "
               "(scenario, op index)")
    ck.trusted += ["harness/pathops.cpp compiles PathSimplifier.cpp and PathGeometric.cpp of the tree under test into its own translation unit "
                   "(ASan/UBSan-instrumented), opens `private`, substitutes a proxy for the token `rng_` (scripted draws for reduce/pshort) and installs a "
                   "scripted raw state sampler for checkAndRepair",
                   "checkMotion, distance/interpolate of the space, validSegmentCount and every double rounding step are oracles/parameters of the model; "
                   "the driver instantiates distance/interpolate with the shared space models (C06/C07) and takes checkMotion answers and validSegmentCount from the recorded transcript",
                   "the Python oracle's geometry (collinearity within 1e-8, obstacle re-validation with boxes shrunk by the checking resolution)"]
    ck.assumptions += ["input paths are valid (check() true) and lie in R^2, R^3, SE(2), Dubins or a weighted compound R^2 x SO(2) (zero weights included) with box obstacles; delta, rangeRatio, snapToVertex are non-negative finite",
                       "\"never longer\" is demanded for reduceVertices, collapseCloseVertices, ropeShortcutPath, partialShortcutPath under the path-length objective; "
                       "own-objective non-worsening of path.cost(obj) is demanded for rope / pshort / perturb under the objectives whose motion cost is additive along "
                       "interpolated states (path length, mechanical work over a linear field, `lin` = cost integral over a linear field, `wreg` = length weighted by an "
                       "expensive region in closed form) and for findBetterGoal under every objective; for clearance / non-linear cost-integral objectives a cut point "
                       "changes the objective's own discretisation: those runs are held to endpoints + validated motions",
                       "pseudo-metric scenarios: INPUT headings lie within +-1.45 rad; states the routines sample themselves have any heading, so the oracle's "
                       "geometry follows SO(2)'s shorter-arc interpolation (motions unwrapped, points and obstacle heading ranges taken modulo 2 pi)",
                       "randomised routines: trace conformance on the explored seeds only"]
    ck.lean_build(LEAN_TARGETS)
    ck.audit(roots=["Drv.PathOps"])
    if ck.tier == "thorough" and ck.lean_ok:
        ck.leanchecker(["OmplModel.Props.C17"])
    hbin, hchk = build(ck)
    state = {"bad": 0, "f9_probes": 0, "seen": {}}
    for name, script in corpus():
        handle(ck, run_corpus_script(ck, hbin, name, script, hchk), hchk, state)
        ck.count("scripts:corpus")
    nsc = 200 if ck.tier == "quick" else 1200
    jobs = []
    for i in range(nsc):
        r = ck.rng.fork("sc%d" % i)
        sc = gen_scenario(r, ck.tier)
        if sc is None:
            ck.count("scenario:generation-failed")
            continue
        ck.count("scenario:" + sc.kind)
        ck.count("scenario:boxes=%d" % len(sc.boxes))
        ck.count("scenario:states<=%d" % (5 if len(sc.path) <= 5 else 20 if len(sc.path) <= 20 else 60))
        if len(set(sc.path)) < len(sc.path):
            ck.count("scenario:has-repeated-state")
        ops = gen_ops(r, sc, ck.tier)
        jobs.append((i, sc, ops, r))
        if i < 3:
            ck.sample({"scenario": sc.kind, "boxes": len(sc.boxes), "states": len(sc.path), "res": sc.res, "ops": [l[:60] for _, l in ops[:8]]})
    with concurrent.futures.ThreadPoolExecutor(max_workers=12) as ex:
        futs = [ex.submit(run_scenario, ck, hbin, hchk, sc, ops, "gen", i) for i, sc, ops, _ in jobs]
        futs += [ex.submit(run_hybrid, ck, hbin, sc, r.fork("hyb")) for i, sc, ops, r in jobs if sc.kind != "se2"]
        futs += [ex.submit(run_repair, ck, hbin, sc, r.fork("repair")) for i, sc, ops, r in jobs if sc.kind != "se2"]
        futs += [ex.submit(run_whole, ck, hbin, hchk, sc, r.fork("whole"), i) for i, sc, ops, r in jobs if sc.kind != "se2"]
        for j in range(40 if ck.tier == "quick" else 300):
            futs.append(ex.submit(run_hybridseq, ck, hbin, ck.rng.fork("hseq%d" % j)))
        for j in range(25 if ck.tier == "quick" else 200):
            got = gen_toll_scenario(ck.rng.fork("toll%d" % j))
            if got is None:
                continue
            ck.count("scenario:toll-corridor")
            futs.append(ex.submit(run_scenario, ck, hbin, hchk, got[0], got[1], "toll", j))
        for j in range(30 if ck.tier == "quick" else 250):
            bsc, bops = gen_perturb_band(ck.rng.fork("band%d" % j))
            ck.count("scenario:perturb-band")
            futs.append(ex.submit(run_whole_ops, ck, hbin, bsc, bops, "band%d" % j))
        for i, sc, ops, r in jobs[:(40 if ck.tier == "quick" else 300)]:
            futs.append(ex.submit(run_pg, ck, hbin, sc, r.fork("pg"), i))
            futs.append(ex.submit(run_chain, ck, hbin, sc, r.fork("chain"), i))
        for j in range(2 if ck.tier == "quick" else 10):
            for name, bsc in boundary_scenarios(ck.rng.fork("boundary%d" % j)):
                ck.count("scenario:boundary-" + name)
                futs.append(ex.submit(run_scenario, ck, hbin, hchk, bsc, gen_boundary_ops(ck.rng, bsc), "boundary-" + name, j))
                futs.append(ex.submit(run_pg, ck, hbin, bsc, ck.rng.fork("bpg%d%s" % (j, name)), "boundary-" + name))
        for j in range(15 if ck.tier == "quick" else 120):
            usc, uops = gen_dubins(ck.rng.fork("dubins%d" % j))
            ck.count("scenario:dubins")
            futs.append(ex.submit(run_light, ck, hbin, usc, uops, "dubins"))
        for j in range(20 if ck.tier == "quick" else 150):
            dsc, dops = gen_perturb_dense(ck.rng.fork("dense%d" % j))
            ck.count("scenario:perturb-dense")
            futs.append(ex.submit(run_whole_ops, ck, hbin, dsc, dops, "dense%d" % j))
        for j in range(12 if ck.tier == "quick" else 80):
            osc, oops = gen_oneway(ck.rng.fork("oneway%d" % j))
            ck.count("scenario:one-way-zone")
            futs.append(ex.submit(run_scenario, ck, hbin, hchk, osc, oops, "oneway", j))
        for j in range(16 if ck.tier == "quick" else 120):
            rsc, rops, shape = gen_region_detour(ck.rng.fork("region%d" % j))
            ck.count("scenario:region-detour-" + shape)
            futs.append(ex.submit(run_scenario, ck, hbin, hchk, rsc, rops, "region", j))
        for j in range(28 if ck.tier == "quick" else 220):
            pr = ck.rng.fork("pm%d" % j)
            got = gen_pm(pr, ck.tier)
            if got is None:
                ck.count("scenario:pseudo-metric-generation-failed")
                continue
            psc, pdir = got
            ck.count("scenario:pseudo-metric" + ("-directed-turn-on-the-spot" if pdir else ""))
            ck.count("scenario:pseudo-metric:weights=%g,%g" % psc.wts)
            if any(dist(psc, psc.path[a_], psc.path[b_]) == 0.0 and psc.path[a_] != psc.path[b_] for a_ in range(len(psc.path)) for b_ in range(a_ + 2, len(psc.path))):
                ck.count("scenario:pseudo-metric:distinct-nonadjacent-states-at-distance-0")
            futs.append(ex.submit(run_scenario, ck, hbin, hchk, psc, gen_ops(pr, psc, ck.tier), "pm", j))
        for j in range(8 if ck.tier == "quick" else 40):
            csc, cops = gen_corner_scenario(ck.rng.fork("corner%d" % j))
            ck.count("scenario:corner-zigzag")
            futs.append(ex.submit(run_scenario, ck, hbin, hchk, csc, cops, "corner", j))
        for f in futs:
            handle(ck, f.result(), hchk, state)
            if state["bad"] >= 14:
                break
    return 0


def replay(ck, data):
    hbin, hchk = build(ck)
    ck.lean_build([DRIVER])
    script = data["script"]
    if len(script) > 2 and script[2].startswith("hybridseq"):
        # re-judge with the oracle of run_hybridseq
        impl, rc, err = run_h(ck, hbin, script)
        print("\n".join((impl or [])[1:])[:3000])
        recorded, bad = [], 0
        for part in (impl[1].split(" | ")[1:-1] if impl and len(impl) > 1 else []):
            t = part.split()
            if t[0] == "rec":
                recorded.append(F(t[3]))
            elif t[0] == "clear":
                recorded = []
            elif t[0] == "comp" and t[1] != "none" and recorded:
                hc = F(t[3 + int(t[2]) * 2 + 1])
                if hc > min(recorded) * (1 + 1e-9) + 1e-12:
                    print("hybrid cost %r > best recorded %r" % (hc, min(recorded)))
                    bad = 1
            elif t[0] == "comp" and t[1] == "none" and recorded:
                print("no hybrid path although paths are recorded")
                bad = 1
        if not bad:
            print("no failure on the current tree")
        return bad
    if len(script) > 2 and script[2].startswith("hybrid"):
        impl, rc, err = ck.run_bin(hbin, script)
        print("\n".join(impl or []))
        print("rc", rc, (err or "")[:2000])
        return 1
    if any((" cm " in l or " vsc " in l) for l in script[3:]):
        # a driver script (correspondence replay): the model's answer next to the recorded implementation line
        model, rc2, err2 = ck.run_bin(ck.driver(DRIVER), script)
        print("model:")
        print("\n".join(model or []))
        print("implementation (recorded):")
        print("\n".join(data.get("observed") or []))
        return 1
    issues = run_corpus_script(ck, hbin, "replay", script, hchk)
    rc = 0
    for it in issues:
        if it["kind"] == "f9probe":
            if confirm_f9(ck, hchk, it):
                print("regress rope/indices_in_range: the bounds-checked build (-D_GLIBCXX_ASSERTIONS) aborts: states[j] read past end() (as before fix F9)")
                rc = 1
            continue
        print("%s %s/%s [%s]: %s" % (it["kind"], it["routine"], it.get("clause"), it.get("cls"), it["detail"][:1500]))
        rc = 1
    if rc == 0:
        print("no failure on the current tree")
    return rc


LEVEL = "proof"
MANIFEST = {
    "engine": "pathops",
    "category": "proof",
    "design_ref": "DESIGN.md 2.17",
    "text": "Lean 4 theorems over executable models of the path post-processing code as it is after the fixes F9/F55/F56: "
            "reduceVertices (as a function of its random index draws), collapseCloseVertices, ropeShortcutPath, the splice blocks of "
            "partialShortcutPath / findBetterGoal / perturbPath, checkAndRepair with a scripted sampler, simplify's return value, "
            "PathGeometric::subdivide / interpolate() / interpolate(count), and the hybridization graph with a shortest-walk "
            "specification: first/last state kept (or last = sampled goal), only input or validated motions, only validated states from a "
            "successful repair, subsequence / supersequence, never longer (triangle inequality; additive cuts), exactly the requested "
            "number of states, checked indexing never fails, simplify true => check(), hybrid <= every recorded input. The pre-fix code "
            "is kept as `...Old` definitions with witness theorems. Models of reduce / collapse / rope / pshort / checkAndRepair / "
            "densification are tied to PathSimplifier.cpp / PathGeometric.cpp by bit-exact lock-step runs (scripted random draws and raw "
            "samples, recorded checkMotion / isValid transcript as oracle). smoothBSpline, perturbPath, findBetterGoal, simplify, "
            "simplifyMax and PathHybridization as whole routines are covered by trace conformance only (seeded runs, recorded checkMotion "
            "transcript, the property evaluated on the real outputs); their splice / graph models are proved but not run against the code. "
            "Since rounds 4-5: smoothBSpline, findBetterGoal and perturbPath are modelled as whole routines and run in lock-step (scripted "
            "draws / sampler / goal region), simplify's schedule is modelled and proved by composition over the concrete routine models, "
            "the oracle's validated-motions classification is direction-aware (checkMotion(a,b), not (b,a)), a direction-sensitive "
            "validator (one-way zone) is part of the scenarios, and the model follows the tree after fix F170 (partialShortcutPath asks "
            "checkMotion in path order; the sampling-order code is kept as the former variant with a witness theorem, and behaving like "
            "it is a violation). Round 7: every PathGeometric method is driven (keepAfter / keepBefore / getClosestIndex modelled and in lock-step, the "
            "rest judged against an independent Python reading), asymmetric objective (mechanical work) and Dubins space for the cost-aware "
            "routines, histories on one PathSimplifier object (freeStates on / off), a ptc sweep over every poll of simplify, boundary "
            "paths (0 / 1 / 2 states, all equal, repeated states); F171 (interpolate() on an empty path), F172 (perturbPath on fewer than two states) and F173 (ropeShortcutPath "
            "did not return under a non-additive objective) are fixed and modelled as fixed (RopeEnv.chord = pricing by the densified pieces; "
            "the end-point pricing is the former variant with a witness theorem); the non-return detector (a checkMotion budget in the "
            "recording validator, no wall clock) stays armed and is a violation. Round 10: partialShortcutPath is modelled as a whole routine under an "
            "ARBITRARY objective (Model/PathOpsShortcutObj.lean; the cost test alongPath vs motionCost(s0, s1) as coded) and runs in lock-step under seven "
            "objectives (op `pshorto`); proved for it: preserves (every objective), every executed splice passed the routine's own cost test, alongPath is the "
            "cost of the replaced piece, and — additive objective, non-negative costs, additive cuts — cost(out) <= cost(in) for the whole routine incl. the "
            "splice ending at the last vertex; the variant that starts alongPath at the segment containing the earlier sample is kept with a witness and is "
            "named by the check. Scenarios: exactly additive non-metric objectives (`lin`, `wreg`) with own-objective non-worsening demanded of rope / pshort / "
            "perturb / findBetterGoal, directed detours around an expensive region, pseudo-metric compound spaces (zero subspace weight, obstacles over "
            "(x, y, heading)) through every routine.",
    "note": "Trusted: Lean kernel, the three standard axioms, the hand-written models outside the explored scripts, the harness "
            "(which compiles the two source files under test into its own translation unit, proxies the private rng_ and installs a "
            "scripted sampler), the Python oracle's geometry, boost's Dijkstra (assumed to return a shortest walk). IEEE rounding is "
            "executed, not verified: never_longer is proved over an ordered monoid with the triangle inequality and additive cuts as "
            "hypotheses. The randomised routines' choice logic is covered on explored transcripts only.",
    "technique": "Lean 4 proof (shortcut-sequence refinement, induction over the loops, integer counting invariant, splice canonical "
                 "forms, loop invariant of checkAndRepair, walk monotonicity) + lock-step differential correspondence + trace conformance",
}
