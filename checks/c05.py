"""C05 — a motion is valid exactly when every resolution step along it is valid.

Obligations: theorems of lean/OmplModel/Props/C05.lean (kernel-checked, audited).
Correspondence: the real motion validators of libompl (harness/motion.cpp: DiscreteMotionValidator, Dubins, Reeds-Shepp,
Dubins3D<Owen>, SpaceInformation::checkMotion(states,count[,first])) vs the Lean model (drv_motion) on the same
scripts, line by line: verdict, segment count, lastValid.second (bits), lastValid.first vs interpolant, untouched-on-
success, the full order of subdivision indices handed to isValid, both counters before/after.
Spec oracle (on the implementation's output only, written independently of the model, in Python): see `oracle`.
Round 10: reconfiguration histories (`history_scripts`: swapvc / setfrac / setbounds / setfac / setup / setmv / resetcnt between checks) and
re-entrancy (`nest_scripts`: the checker runs a nested checkMotion inside its k-th question) for every validator.
"""
import math
import os
import re
from concurrent.futures import ThreadPoolExecutor

from lib import core
from lib.core import f2bits, bits2f

DRIVER = "drv_motion"
LEAN_TARGETS = ["OmplModel.Props.C05", DRIVER]
CSPACES = ("proj", "atlas", "tb")        # constrained spaces (ConstrainedMotionValidator)
D3 = ("owen", "vana", "vanaowen")     # spaces served by Dubins3DMotionValidator
NEG_INF_BITS = "18442240474082181120"

# space name -> (tree, number of reals, number of factor slots, hinted?)
#   tree: ("rv", dim, facslot) | ("so2", facslot) | ("cmpd", [trees])   (facslot indexes the f= list, pre-order)
SPACES = {
    "r1": (("rv", 1, 0), 1, 1, False),
    "rn": None,  # depends on dim
    "so2": (("so2", 0), 1, 1, False),
    "se2": (("cmpd", [("rv", 2, 1), ("so2", 2)]), 3, 3, False),
    "cmpd": (("cmpd", [("rv", 2, 1), ("so2", 2), ("rv", 1, 3)]), 4, 4, False),
    "cmpd2": (("cmpd", [("cmpd", [("rv", 2, 2), ("so2", 3)]), ("rv", 1, 4)]), 4, 5, False),
    "dubins": (None, 3, 1, True),
    "dubinssym": (None, 3, 1, True),
    "rs": (None, 3, 1, True),
    "owen": (None, 4, 1, True),
    "vana": (None, 5, 1, True),
    "vanaowen": (None, 5, 1, True),
    "proj": (None, 3, 1, True),
    "atlas": (None, 3, 1, True),
    "tb": (None, 3, 1, True),
}


def space_info(cfg):
    if cfg["space"] == "rn":
        return (("rv", cfg["dim"], 0), cfg["dim"], 1, False)
    return SPACES[cfg["space"]]


# ------------------------------------------------------------------ independent spec of the segment count
def spec_dim(tree):
    if tree[0] == "rv":
        return tree[1]
    if tree[0] == "so2":
        return 1
    return sum(spec_dim(t) for t in tree[1])


def spec_seg(tree, cfg, a, b):
    """factor * ceil(distance / (maxExtent * fraction)); compound: max over the components."""
    if tree[0] == "rv":
        d = tree[1]
        e = 0.0
        for _ in range(d):
            w = cfg["hi"] - cfg["lo"]
            e += w * w
        L = math.sqrt(e) * cfg["frac"]
        s = 0.0
        for x, y in zip(a[:d], b[:d]):
            s += (x - y) * (x - y)
        return cfg["f"][tree[2]] * int(math.ceil(math.sqrt(s) / L))
    if tree[0] == "so2":
        L = math.pi * cfg["frac"]
        d = abs(a[0] - b[0])
        if d > math.pi:
            d = 2.0 * math.pi - d
        return cfg["f"][tree[1]] * int(math.ceil(d / L))
    best = 0
    off = 0
    for t in tree[1]:
        k = spec_dim(t)
        best = max(best, spec_seg(t, cfg, a[off:off + k], b[off:off + k]))
        off += k
    return best


# ------------------------------------------------------------------ scripts
def header(cfg):
    return "motion space=%s validator=%s frac=%s lo=%s hi=%s dim=%d f=%s rho=%s" % (
        cfg["space"], cfg["validator"], f2bits(cfg["frac"]), f2bits(cfg["lo"]), f2bits(cfg["hi"]), cfg.get("dim", 1),
        ",".join(map(str, cfg["f"])), f2bits(cfg.get("rho", 1.0)))


def parse_header(line):
    kv = dict(t.split("=", 1) for t in line.split()[1:])
    return {"space": kv["space"], "validator": kv["validator"], "frac": bits2f(kv["frac"]), "lo": bits2f(kv["lo"]),
            "hi": bits2f(kv["hi"]), "dim": int(kv["dim"]), "f": [int(x) for x in kv["f"].split(",")],
            "rho": bits2f(kv["rho"])}


def st(vals):
    return "%d %s" % (len(vals), " ".join(f2bits(v) for v in vals))


def parse_states(tokens, nreals):
    k = int(tokens[0])
    a = [bits2f(x) for x in tokens[1:1 + k]]
    rest = tokens[1 + k:]
    k2 = int(rest[0])
    b = [bits2f(x) for x in rest[1:1 + k2]]
    return a, b


def group(a, b, inv, hint=None, forms=("cm2", "cm3")):
    """one case: predicate, optional hint, then both forms of the check on the same pair."""
    lines = ["invalid idx" + "".join(" %d" % j for j in sorted(inv))]
    if hint is not None:
        lines.append("hint %d" % hint if isinstance(hint, int) else "hint %d %d" % hint)
    for f in forms:
        lines.append("%s %s %s" % (f, st(a), st(b)))
    return lines


def list_line(count, flags):
    return "list %d %d%s" % (count, len(flags), "".join(" %d" % f for f in flags))


# ------------------------------------------------------------------ spec oracle (implementation output only)
def kvline(o):
    return dict(t.split("=", 1) for t in o.split() if "=" in t)


def parse_q(s):
    """query list; None for anything that is not a subdivision index of the motion being checked
    (? unknown state, x / p constrained extras, s = a replaced checker was asked, o<j> = a point of the other motion)."""
    if s in ("-", ""):
        return []
    return [int(x) if x.isdigit() else None for x in s.split(",")]


RECONF_OPS = ("swapvc", "setfrac", "setbounds", "setfac", "setup", "setmv", "resetcnt")


def foreign_query(qraw):
    """the two round-10 defect classes, named precisely"""
    toks = [] if qraw in ("-", "") else qraw.split(",")
    if "s" in toks:
        return ("a StateValidityChecker that is no longer installed was asked (%d of %d questions): the validator kept the "
                "checker it saw earlier instead of the SpaceInformation's current one" % (toks.count("s"), len(toks)))
    o = [x for x in toks if x.startswith("o")]
    if o:
        return ("isValid was handed point %s of the OTHER motion (the call interleaved at a query point): the state being "
                "checked is shared between checkMotion calls" % o[0][1:])
    return None


def parse_nest(t):
    """nest <k> <same|thread> <form> <st> <st> <counted hint> <counted inv> -> dict"""
    k, mode, form = int(t[1]), t[2], t[3]
    rest = t[4:]
    na = int(rest[0])
    a = rest[:1 + na]
    rest = rest[1 + na:]
    nb = int(rest[0])
    b = rest[:1 + nb]
    rest = rest[1 + nb:]
    nh = int(rest[0])
    hint = [int(x) for x in rest[1:1 + nh]]
    rest = rest[1 + nh:]
    ni = int(rest[0])
    inv = set(int(x) for x in rest[1:1 + ni])
    return {"k": k, "mode": mode, "form": form, "states": a + b, "hint": hint, "inv": inv}


def cnt_of(kv):
    c0, c1 = kv["cnt"].split("->")
    a0, b0 = map(int, c0.split("/"))
    a1, b1 = map(int, c1.split("/"))
    return (a0, b0), (a1, b1)


def cm_oracle(C, op, states, kv, inv, box, nopath, i, mid=(0, 0), segs_i=None):
    """ONE checkMotion call (cm2 | cm3 | cm3n on the pair `states` = token list of the two states) judged against the
    property, on the implementation's output `kv` only.  C: cfg (CURRENT configuration), tree, nreals, hinted, stats,
    pair_verdicts.  inv: the predicate in force for this call; mid: counter increments of a call nested inside this
    one.  Returns a failure text or None."""
    cfg, tree, nreals, hinted, stats, pair_verdicts = C["cfg"], C["tree"], C["nreals"], C["hinted"], C["stats"], C["pair_verdicts"]
    fq = foreign_query(kv.get("q", "-"))
    if fq:
        return fq
    if cfg["space"] in CSPACES:
        stats["_cspace"] = cfg["space"]
        return constrained_oracle(op, [op] + states, kv, inv, stats, i, pair_verdicts, mid)
    n = int(kv["n"])
    q = parse_q(kv["q"])
    v = int(kv["v"])
    stats["calls"] += 1
    if n >= 3:
        stats["nontrivial"] += 1
    if box:
        inv = set(x for x in parse_q(kv.get("inv", "-")) if x is not None)
        stats["box"] += 1
    (a0, b0), (a1, b1) = cnt_of(kv)
    d = (a1 - a0 - mid[0], b1 - b0 - mid[1])
    if nopath:
        # no curve exists: the call must answer false and (F75) count one invalid motion; the lastValid clause
        # does not apply (nothing to interpolate), neither form may claim validity
        stats["nopath"] += 1
        if v != 0:
            return "%s returned 1 although getPath found no path between the states" % op
        if d == (0, 0):
            stats["f75"].append(i)      # reported by judge() as its own narrow record (F75)
            stats["narrow"].append((i, "dubins3d-nopath-uncounted"))
        elif d != (0, 1):
            return "%s returned 0 (no path) and advanced valid/invalid counters by +%d/+%d" % (op, d[0], d[1])
        return None
    if int(kv["amb"]) > 0:
        stats["ambiguous"] += 1   # two subdivision points are the same state: the index predicate is not
        return None               # a predicate on states; excluded (counted)
    a, b = parse_states(states, nreals)
    if not hinted:
        want_n = spec_seg(tree, cfg, a, b)
        if n != want_n:
            return ("validSegmentCount=%d, factor*ceil(distance/longestValidSegment) (max over components) under the CURRENT "
                    "fraction/factors is %d" % (n, want_n))
    elif segs_i is not None:
        dist, L = segs_i
        want_n = cfg["f"][0] * int(math.ceil(dist / L))
        if n != want_n:
            return "validSegmentCount=%d, factor*ceil(distance/longestValidSegment) is %d" % (n, want_n)
    idx = list(range(1, n + 1)) if n >= 1 else [0]
    if any(x is None for x in q):
        return "isValid was asked about a state that is neither s2 nor interpolate(s1,s2,j/n) for any j"
    if any(x not in idx for x in q):
        return "isValid was asked about subdivision index %s outside [1,%d]" % ([x for x in q if x not in idx][0], n)
    invalid_here = [j for j in idx if j in inv]
    ev = 0 if invalid_here else 1
    if v != ev:
        return "%s returned %d but subdivision points %s are %s" % (
            op, v, invalid_here[:4] if invalid_here else "1..%d" % n, "invalid" if invalid_here else "all valid")
    if ev == 1 and set(q) != set(idx):
        return "valid verdict although subdivision point(s) %s were never checked" % sorted(set(idx) - set(q))[:4]
    key = (" ".join(states), frozenset(inv), n)
    pair_verdicts.setdefault(key, {})[op] = v
    if len(set(pair_verdicts[key].values())) > 1:
        return "the two forms of checkMotion disagree on the same pair and predicate: %s" % pair_verdicts[key]
    if op in ("cm3", "cm3n"):
        if ev == 1:
            if kv["lv"] != "untouched" or kv["lvs"] not in ("untouched", "null"):
                return "lastValid was written although the motion is valid (lv=%s lvs=%s)" % (kv["lv"], kv["lvs"])
        elif n == 0:
            # zero-length motion, end state invalid: one point, so the last valid fraction is 0 and the state is
            # interpolate(s1,s2,0) = s1.  The former as-coded value (double)(0-1)/(double)0 = -inf is reported under its own
            # narrow record (F124, fixed in /repo e0f5863f3: nothing suppresses it any more); any other wrong value fails too.
            stats["n0_invalid"] += 1
            if kv["lv"] == "untouched":
                return "motion invalid (s1 == s2, end state invalid) but lastValid.second was not written"
            if kv["lv"] == NEG_INF_BITS:
                stats["narrow"].append((i, "n0-fraction-minus-infinity"))
            elif kv["lv"] != f2bits(0.0):
                return "zero-length motion with an invalid end state: last-valid fraction %r, must be 0" % bits2f(kv["lv"])
            if op == "cm3" and kv["lvs"] != "eq":
                return ("s1 == s2 with an invalid end state: lastValid.first is not interpolate(s1,s2,lastValid.second) "
                        "(lvs=%s): the returned last-valid state is not a state of the motion" % kv["lvs"])
        else:
            js = invalid_here[0]
            if kv["lv"] == "untouched":
                return "motion invalid but lastValid.second was not written"
            f = bits2f(kv["lv"])
            if not (0.0 <= f < 1.0):
                return "last-valid fraction %r outside [0,1)" % f
            if kv["lv"] != f2bits((js - 1) / n):
                return ("last-valid fraction %r; points 1..%d are valid and %d is not, so it must be %d/%d"
                        % (f, js - 1, js, js - 1, n))
            if op == "cm3" and kv["lvs"] != "eq":
                return "lastValid.first is not interpolate(s1,s2,lastValid.second) (lvs=%s)" % kv["lvs"]
    if d != ((1, 0) if v else (0, 1)):
        return ("%s returned %d and advanced valid/invalid counters by +%d/+%d (must be exactly one, by one)"
                % (op, v, d[0], d[1]))
    return None


def oracle(script, out, segs=None):
    """the property, evaluated on what the real code printed.  Returns (None | (op index, what), stats).
    `segs`: for hinted spaces, dict line-index -> (dist, L) measured by the harness' `seg` op, to check the
    segment count formula.  The oracle follows the CURRENT configuration of the SpaceInformation: the predicate of the
    checker installed last, the fraction as of the last setup(), the factors as set last, the counters of the validator
    installed last."""
    cfg = dict(parse_header(script[0]))
    cfg["f"] = list(cfg["f"])
    pend = {"frac": cfg["frac"], "lo": cfg["lo"], "hi": cfg["hi"]}     # as last set; setup() makes them effective
    tree, nreals, _nf, hinted = space_info(cfg)
    stats = {"n0_invalid": 0, "ambiguous": 0, "calls": 0, "nontrivial": 0, "nopath": 0, "f75": [], "box": 0, "gms": 0,
             "narrow": [], "constrained": 0, "nested_run": 0, "nested_not_reached": 0, "reconf": 0}
    C = {"cfg": cfg, "tree": tree, "nreals": nreals, "hinted": hinted, "stats": stats, "pair_verdicts": {}}
    if len(out) < len(script) - 1:
        return (len(out), "implementation stopped early (crash or sanitizer report)"), stats
    inv = set()
    box = False          # geometric predicate: the invalid set of each call is the harness' truth table (inv= token)
    nopath = False       # Dubins3D: getPath found no path for the pairs that follow
    prev_cnt = None
    nest = None          # armed nested call
    for i, line in enumerate(script[1:]):
        o = out[i]
        t = line.split()
        op = t[0]
        if o == "bad-op":
            return (i, "bad-op on a well-formed line"), stats
        if op == "invalid":
            box = t[1] == "box"
            inv = set() if box else set(int(x) for x in t[2:])
            continue
        if op in RECONF_OPS:
            stats["reconf"] += 1
            if o != "ok":
                return (i, "%s answered %r" % (op, o)), stats
            if op == "swapvc":
                inv, box = set(), False                 # a new checker object: the empty predicate
            elif op == "setfrac":
                pend["frac"] = bits2f(t[1])             # read by setup() only
            elif op == "setbounds":
                pend["lo"], pend["hi"] = bits2f(t[1]), bits2f(t[2])     # the extent is recomputed by setup() only
            elif op == "setfac":
                if int(t[1]) < len(cfg["f"]):
                    cfg["f"][int(t[1])] = int(t[2])     # takes effect at once
            elif op == "setup":
                cfg.update(pend)
            elif op == "setmv":
                prev_cnt = (0, 0)                       # a new validator object: fresh counters
                if t[1] == "default":
                    cfg.update(pend)                    # (installed by setup())
                cfg["validator"] = t[1]
            elif op == "resetcnt":
                prev_cnt = (0, 0)
            continue
        if op == "nest":
            nest = parse_nest(t)
            continue
        if op == "gms":
            f = gms_oracle(t, o)
            stats["gms"] += 1
            stats["calls"] += 1
            if int(t[1]) >= 2:
                stats["nontrivial"] += 1
            if f == "amb":
                stats["ambiguous"] += 1
            elif f:
                return (i, f), stats
            continue
        if op == "hint":
            nopath = len(t) == 3 and t[2] == "0"
            continue
        if op == "seg":
            continue
        if op == "list":
            count, total = int(t[1]), int(t[2])
            flags = [x == "1" for x in t[3:3 + total]]
            kv = kvline(o)
            bad = [k for k in range(count) if not flags[k]]
            ev = 0 if bad else 1
            q2, q3 = parse_q(kv["q2"]), parse_q(kv["q3"])
            if "s" in kv["q2"].split(",") + kv["q3"].split(","):
                return (i, foreign_query("s")), stats
            if int(kv["v2"]) != ev:
                return (i, "checkMotion(states,%d) returned %s, states valid: %s" % (count, kv["v2"], not bad)), stats
            if int(kv["v3"]) != ev:
                return (i, "checkMotion(states,%d,first) returned %s, states valid: %s" % (count, kv["v3"], not bad)), stats
            if any(x is None or x >= count for x in q2 + q3):
                return (i, "state list check asked about a state outside the first count states"), stats
            if ev == 1:
                if kv["first"] != "untouched":
                    return (i, "firstInvalidStateIndex written although the list is valid"), stats
                if set(q2) != set(range(count)) or set(q3) != set(range(count)):
                    return (i, "a valid verdict without having asked about every one of the count states"), stats
            else:
                if kv["first"] != str(bad[0]):
                    return (i, "firstInvalidStateIndex=%s, the least invalid index is %d" % (kv["first"], bad[0])), stats
                if any(not flags[x] for x in q3[:-1]) or flags[q3[-1]]:
                    return (i, "linear list scan did not stop at the first invalid state"), stats
            stats["calls"] += 1
            if count >= 3:
                stats["nontrivial"] += 1
            continue
        # cm2 / cm3 / cm3n, possibly with a nested call interleaved at one of its validity questions
        parts = o.split(" || nested")
        kv = kvline(parts[0])
        mid = (0, 0)
        if len(parts) > 1 and nest is None:
            return (i, "a nested-call report on a call that had none armed"), stats
        if nest is not None:
            if len(parts) != 2:
                return (i, "a nested call was armed but the call line does not report on it"), stats
            asked = len([x for x in kv.get("q", "-").split(",") if x not in ("-", "")])
            if parts[1].strip() == "=none":
                stats["nested_not_reached"] += 1
                if asked >= nest["k"]:
                    return (i, "the outer call asked %d validity questions but the nested call armed at question %d never ran"
                            % (asked, nest["k"])), stats
            else:
                kvn = kvline(parts[1])
                stats["nested_run"] += 1
                (na0, nb0), (na1, nb1) = cnt_of(kvn)
                mid = (na1 - na0, nb1 - nb0)
                if (na0, nb0) != cnt_of(kv)[0]:
                    return (i, "motion counters changed between the start of the outer call and the nested call"), stats
                # the nested call is judged exactly like a call made on its own: its own pair, its own predicate
                nnopath = (len(nest["hint"]) == 2 and nest["hint"][1] == 0) and cfg["space"] in D3
                fn = cm_oracle(C, nest["form"], nest["states"], kvn, nest["inv"], False, nnopath, i)
                if fn:
                    return (i, "NESTED call (run by the validity checker at question %d of the outer call): %s" % (nest["k"], fn)), stats
            nest = None
        (a0, b0), (a1, b1) = cnt_of(kv)
        if prev_cnt is not None and (a0, b0) != prev_cnt:
            return (i, "motion counters changed between calls"), stats
        prev_cnt = (a1, b1)
        f = cm_oracle(C, op, t[1:], kv, inv, box, nopath, i, mid, segs.get(i) if segs else None)
        if f:
            if len(parts) > 1 and parts[1].strip() != "=none":
                f = "OUTER call (another checkMotion ran inside one of its validity questions): " + f
            return (i, f), stats
    return None, stats


def constrained_oracle(op, t, kv, inv, stats, i, pair_verdicts, mid=(0, 0)):
    """ConstrainedMotionValidator: the subdivision is the manifold traversal (indices 1..n-1) plus the end state (n).
    Deviations that are exactly one of the recorded findings F120-F122 go to stats["narrow"]; anything else fails."""
    n, v = int(kv["n"]), int(kv["v"])
    reached, sat = kv["reached"] == "1", kv["sat"] == "1"
    qraw = kv["q"].split(",")
    if qraw and qraw[-1] == "p" and v == 0:
        qraw = qraw[:-1]       # (tb) the wrapper's look at the re-projected last-valid state
    if qraw and qraw[-1] == "x" and not reached:
        qraw = qraw[:-1]       # the candidate a traversal that gave up looked at last (not a state of the motion)
    q = parse_q(",".join(qraw) if qraw else "-")
    stats["calls"] += 1
    stats["constrained"] += 1
    if n >= 3:
        stats["nontrivial"] += 1
    idx = list(range(1, n + 1))
    if int(kv["amb"]) > 0:
        # the traversal revisits a state bit-for-bit (an Atlas oscillating in front of an unreachable end state): the
        # index of a queried state is ambiguous; excluded (counted), also from the model comparison
        stats["ambiguous"] += 1
        return None
    if 0 in inv and t is not None and stats.get("_cspace") != "proj":
        stats["start_invalid"] = stats.get("start_invalid", 0) + 1     # s1 invalid: outside the precondition, only compared
        return None
    q = [x for x in q if x != 0]      # Atlas / TangentBundle look at s1 itself (valid by precondition)
    if any(x is None for x in q) and stats.get("_cspace") in ("atlas", "tb"):
        # the validator's own traversal took other steps than the harness' reference run (the atlas grew a chart in
        # between): the indices cannot be decoded for this call; excluded and counted, also from the model comparison
        stats["unstable_traversal"] = stats.get("unstable_traversal", 0) + 1
        return None
    if any(x is None for x in q):
        return "isValid was asked about a state that is neither s1, s2 nor a state of the manifold traversal"
    if any(x not in idx for x in q):
        return "isValid was asked about traversal index %s outside [1,%d]" % ([x for x in q if x not in idx][0], n)
    bad = [j for j in idx if j in inv]
    interior_bad = [j for j in bad if j < n]
    ev = 1 if (sat and reached and not bad) else 0
    if v == 1 and (interior_bad or not sat or not reached):
        return "%s returned 1 but traversal states %s are invalid / sat=%d reached=%d" % (op, interior_bad[:3], sat, reached)
    if v == 0 and ev == 1:
        return "%s returned 0 for a motion whose traversal arrives with every state and the end state valid" % op
    if v == 1 and n not in q:
        # the end state was never validated (and, when it is invalid, the motion was accepted)
        stats["narrow"].append((i, "constrained-end-state-unvalidated"))
    if v == 1 and set(range(1, n)) - set(q):
        return "valid verdict although traversal state(s) %s were never checked" % sorted(set(range(1, n)) - set(q))[:3]
    key = (" ".join(t[1:]), frozenset(inv))
    pair_verdicts.setdefault(key, {})[op] = v
    if len(set(pair_verdicts[key].values())) > 1:
        return "the two forms of checkMotion disagree on the same pair and predicate: %s" % pair_verdicts[key]
    (a0, b0), (a1, b1) = cnt_of(kv)
    a1, b1 = a1 - mid[0], b1 - mid[1]
    if (a1 - a0, b1 - b0) == (0, 0):
        stats["narrow"].append((i, "constrained-uncounted"))
    elif (a1 - a0, b1 - b0) != ((1, 0) if v else (0, 1)):
        return "%s returned %d and advanced valid/invalid counters by +%d/+%d" % (op, v, a1 - a0, b1 - b0)
    if op in ("cm3", "cm3n"):
        if v == 1:
            if kv["lv"] != "untouched" or kv["lvs"] not in ("untouched", "null"):
                return "lastValid was written although the motion is valid (lv=%s lvs=%s)" % (kv["lv"], kv["lvs"])
        else:
            if kv["lv"] == "untouched":
                stats["narrow"].append((i, "constrained-lastvalid-second-unwritten"))
            else:
                f = bits2f(kv["lv"])
                if not (0.0 <= f < 1.0):
                    return "last-valid fraction %r outside [0,1)" % f
            want = "g%d" % ((interior_bad[0] - 1) if interior_bad else (n - 1))
            if op == "cm3" and kv["lvs"] == "untouched":
                if kv["lv"] != "untouched":
                    return "lastValid.second written but lastValid.first left untouched"
            elif op == "cm3" and kv["lvs"] != want:
                return "lastValid.first is traversal state %s, the last state with a valid prefix is %s" % (kv["lvs"], want)
    return None


def ms_spec(count, endpoints, alloc, size):
    """independent spec of getMotionStates: (returned, new size, labels of the slots)."""
    c = (count + 1) % 4294967296            # count++ on a 32-bit unsigned
    full = (["S"] if endpoints else []) + (["%d/%d" % (j, c) for j in range(1, c)] if c >= 2 else []) + (["G"] if endpoints else [])
    avail = len(full) if alloc else size
    written = full[:avail]
    newsize = len(full) if alloc else size
    return len(written), newsize, written + ["u"] * (newsize - len(written))


def gms_oracle(t, o):
    count, e, a, size = int(t[1]), t[2] == "1", t[3] == "1", int(t[4])
    kv = kvline(o)
    ret, newsize, slots = ms_spec(count, e, a, size)
    if int(kv["ret"]) != ret:
        return "getMotionStates(count=%d, endpoints=%d, alloc=%d, size %d) returned %s, must be %d" % (count, e, a, size, kv["ret"], ret)
    if int(kv["size"]) != newsize:
        return "getMotionStates(count=%d, endpoints=%d, alloc=%d) left a vector of size %s, must be %d" % (count, e, a, kv["size"], newsize)
    if int(kv["amb"]) > 0:
        return "amb"
    got = [] if kv["slots"] == "-" else kv["slots"].split(",")
    if got != slots:
        k = [i for i in range(max(len(got), len(slots))) if i >= len(got) or i >= len(slots) or got[i] != slots[i]][0]
        return "getMotionStates(count=%d, endpoints=%d, alloc=%d, size %d): slot %d holds %s, must hold %s" % (
            count, e, a, size, k, got[k] if k < len(got) else "<nothing>", slots[k] if k < len(slots) else "<nothing>")
    return None


# ------------------------------------------------------------------ generators
def rnd_inv(r, n, kind):
    idx = list(range(1, n + 1)) if n >= 1 else [0]
    if kind == "none":
        return set()
    if kind == "end":
        return {idx[-1]}
    if kind == "first":
        return {idx[0]}
    if kind == "single":
        return {r.choice(idx)}
    if kind == "beyond":            # indices the check must never look at
        return {0, n + 1, n + 7} if n >= 1 else {1, 5}
    dens = r.choice([1, 2, 5, 20, 50])
    s = set(j for j in idx if r.below(100) < dens)
    if not s:
        s = {r.choice(idx)}
    return s


KINDS = ["none", "end", "first", "single", "single", "multi", "multi", "beyond"]


def gen_r1(r, tier):
    """R^1, s1 = 0, s2 = k*L with L a power of two: the queried value reveals j exactly, n = factor*k."""
    out = []
    ks = list(range(0, 301)) if tier == "thorough" else sorted(set([0, 1, 2, 3, 4, 5, 7, 8, 15, 16, 17, 31, 33, 64, 100, 255, 300] +
                                                                    [r.range(0, 300) for _ in range(12)]))
    for fac in ([1, 2, 3, 4, 5] if tier == "thorough" else [1, r.range(2, 5)]):
        cfg = {"space": "r1", "validator": "default", "frac": 1.0 / 1024, "lo": 0.0, "hi": 4096.0, "dim": 1, "f": [fac]}
        lines = [header(cfg)]
        for k in ks:
            n = fac * k
            for kind in (KINDS if tier == "thorough" or k < 40 else ["none", "single", "multi"]):
                forms = ("cm2", "cm3", "cm3n") if r.chance(1, 4) else ("cm2", "cm3")
                lines += group([0.0], [4.0 * k], rnd_inv(r, n, kind), forms=forms)
        out.append(("r1-exact", lines))
    return out


def gen_single_exhaustive(r, nmax):
    """every single-invalid-index predicate for every n <= nmax (plus the all-valid one)."""
    cfg = {"space": "r1", "validator": "default", "frac": 1.0 / 1024, "lo": 0.0, "hi": 4096.0, "dim": 1, "f": [1]}
    out = []
    for lo in range(0, nmax + 1, 8):
        lines = [header(cfg)]
        for n in range(lo, min(lo + 8, nmax + 1)):
            for j in ([0] if n == 0 else range(1, n + 1)):
                lines += group([0.0], [4.0 * n], {j})
            lines += group([0.0], [4.0 * n], set())
        out.append(("single-exhaustive", lines))
    return out


def rnd_state(r, cfg, tree):
    if tree[0] == "rv":
        return [r.uniform(cfg["lo"], cfg["hi"]) for _ in range(tree[1])]
    if tree[0] == "so2":
        c = r.below(6)
        if c == 0:
            return [-math.pi]
        if c == 1:
            return [math.pi - r.uniform(1e-9, 0.2)]
        if c == 2:
            return [-math.pi + r.uniform(0.0, 0.2)]
        return [r.uniform(-math.pi, math.pi - 1e-9)]
    out = []
    for t in tree[1]:
        out += rnd_state(r, cfg, t)
    return out


def near_state(r, cfg, tree, a, scale):
    """a state at most ~scale away (per leaf), staying inside the bounds; SO(2) wraps."""
    if tree[0] == "rv":
        return [min(cfg["hi"], max(cfg["lo"], x + r.uniform(-scale, scale))) for x in a[:tree[1]]]
    if tree[0] == "so2":
        y = a[0] + r.uniform(-scale, scale)
        if y >= math.pi:
            y -= 2.0 * math.pi
        if y < -math.pi:
            y += 2.0 * math.pi
        if not (-math.pi <= y < math.pi):
            y = a[0]
        return [y]
    out, off = [], 0
    for t in tree[1]:
        k = spec_dim(t)
        out += near_state(r, cfg, t, a[off:off + k], scale)
        off += k
    return out


def gen_spaces(r, tier):
    """R^n, SO(2) across the seam, SE(2), flat and nested compounds: identical, adjacent, far pairs."""
    out = []
    reps = 10 if tier == "thorough" else 6
    for space in ["rn", "so2", "se2", "cmpd", "cmpd2"] * reps:
        frac = r.choice([0.01, 0.05, 0.002, 1.0 / 64])
        cfg = {"space": space, "validator": "default", "frac": frac, "lo": r.choice([-1.0, 0.0, -10.0]),
               "hi": r.choice([1.0, 10.0, 3.5]), "dim": r.range(2, 6)}
        tree, nreals, nf, _ = space_info(cfg)
        cfg["f"] = [r.range(1, 5) for _ in range(nf)]
        lines = [header(cfg)]
        npairs = 60 if tier == "thorough" else 20
        for p in range(npairs):
            a = rnd_state(r, cfg, tree)
            c = r.below(10)
            if c == 0:
                b = list(a)                                             # identical: n = 0
            elif c <= 2:
                b = near_state(r, cfg, tree, a, frac * 0.5)             # adjacent: n small
            elif c <= 4:
                b = near_state(r, cfg, tree, a, frac * r.uniform(2, 12))
            else:
                b = rnd_state(r, cfg, tree)
            n = spec_seg(tree, cfg, a, b)
            if n > 1500:
                continue
            for kind in [r.choice(KINDS) for _ in range(3)] + ["none"]:
                lines += group(a, b, rnd_inv(r, n, kind))
        if space == "rn":
            # boundary: distance an exact multiple of L along one axis (and one ulp above it)
            d = cfg["dim"]
            e = 0.0
            for _ in range(d):
                e += (cfg["hi"] - cfg["lo"]) * (cfg["hi"] - cfg["lo"])
            L = math.sqrt(e) * frac
            for k in [1, 2, 3, 7]:
                for bump in (0.0, 1.0):
                    a = [cfg["lo"]] * d
                    x = cfg["lo"] + k * L
                    if bump:
                        x = math.nextafter(x, math.inf)
                    b = [x] + [cfg["lo"]] * (d - 1)
                    n = spec_seg(tree, cfg, a, b)
                    lines += group(a, b, rnd_inv(r, n, "single")) + group(a, b, set())
        out.append(("space-" + space, lines))
    return out


def short_scripts(ck, hbin, r, tier):
    """motions no longer than one resolution step (validSegmentCount <= 1, incl. s1 == s2) for EVERY validator, with the
    end state invalid / valid, all call forms: the class where the sweep over interior points never runs and the
    last-valid report has to come from somewhere else (a scratch state must not leak out).  Segment-count factor 1 so
    that a positive distance below L really gives n = 1; the displacement is along the heading for the car-like
    spaces (a sideways nudge costs a long manoeuvre)."""
    out = []
    confs = [("rn", "default"), ("so2", "default"), ("se2", "default"), ("cmpd", "default"), ("cmpd2", "default"),
             ("dubins", "default"), ("dubinssym", "default"), ("rs", "default"), ("dubins", "discrete"), ("rs", "discrete"),
             ("owen", "default"), ("vana", "default"), ("vanaowen", "default")]
    for space, validator in confs:
        frac = r.choice([0.01, 0.02, 0.05])
        cfg = {"space": space, "validator": validator, "frac": frac, "lo": -5.0, "hi": 5.0, "dim": 3, "rho": r.choice([1.0, 0.5, 2.0])}
        tree, nreals, nf, hinted = space_info(cfg)
        cfg["f"] = [1] * nf
        L = 10.0 * frac          # well below every space's longest valid segment here (extent >= pi, box side 10)
        pairs = []
        for p in range(10 if tier == "thorough" else 5):
            if not hinted:
                a = rnd_state(r, cfg, tree)
                b = list(a) if p == 0 else near_state(r, cfg, tree, a, L * r.choice([0.01, 0.05, 0.1]))
            else:
                yaw = r.uniform(-math.pi + 0.1, math.pi - 0.1)
                xy = [r.uniform(-4.0, 4.0), r.uniform(-4.0, 4.0)]
                step = 0.0 if p == 0 else L * r.choice([0.02, 0.1, 0.3]) * (r.choice([1.0, -1.0]) if space == "rs" else 1.0)
                mid = [] if nreals == 3 else [0.2] if nreals == 4 else [0.2, 0.0]       # z / z, pitch
                a = xy + mid + [yaw]
                b = [xy[0] + step * math.cos(yaw), xy[1] + step * math.sin(yaw)] + mid + [yaw]
            pairs.append((a, b))
        if hinted:
            pre = [header(cfg)] + ["seg %s %s" % (st(a), st(b)) for a, b in pairs]
            o, rc, err = run_harness(ck, hbin, pre)
            if rc != 0 or o is None or len(o) != len(pairs):
                out.append(("short-%s-%s" % (space, validator), pre, None))
                continue
            ns = [kvline(x) for x in o]
        lines = [header(cfg)]
        segs = {}
        for k, (a, b) in enumerate(pairs):
            if hinted:
                n = int(ns[k]["n"])
                segs["%s %s" % (st(a), st(b))] = (bits2f(ns[k]["dist"]), bits2f(ns[k]["L"]))
                hint = None if space in ("dubins", "dubinssym", "rs", "vana") else n if space not in D3 else (n, int(ns[k].get("path", "1")))
            else:
                n = spec_seg(tree, cfg, a, b)
                hint = None
            ck.count("short-motion pairs with n=%s" % (n if n <= 1 else ">1"))
            end = {n} if n >= 1 else {0}
            for inv in (end, set(), end | {n + 3}):
                lines += group(a, b, inv, hint=hint, forms=("cm2", "cm3", "cm3n"))
        out.append(("short-%s-%s" % (space, validator), lines, segs if hinted else None))
    return out


def box_line(bounds):
    return "invalid box " + " ".join("%s %s" % (f2bits(lo), f2bits(hi)) for lo, hi in bounds)


def gen_box(r, tier):
    """geometric predicates: the invalid region is an axis-aligned box in some of the coordinates (the others
    unconstrained), placed on the motion, at its end, across the SO(2) seam, or off the motion."""
    out = []
    inf = float("inf")
    reps = 6 if tier == "thorough" else 2
    for space in ["rn", "se2", "so2", "cmpd", "cmpd2"] * reps:
        frac = r.choice([0.01, 0.03, 0.004])
        cfg = {"space": space, "validator": "default", "frac": frac, "lo": -1.0, "hi": 1.0, "dim": r.range(2, 3)}
        tree, nreals, nf, _ = space_info(cfg)
        cfg["f"] = [r.range(1, 3) for _ in range(nf)]
        lines = [header(cfg)]
        for p in range(30 if tier == "thorough" else 12):
            a = rnd_state(r, cfg, tree)
            c = r.below(8)
            if c == 0:
                b = list(a)
            elif c == 1:
                b = near_state(r, cfg, tree, a, frac * 0.5)
            else:
                b = rnd_state(r, cfg, tree)
            if spec_seg(tree, cfg, a, b) > 1200:
                continue
            for _ in range(3):
                # centre of the box: a point of the motion's straight chord (component-wise), the end state, or anywhere
                k = r.below(6)
                if k == 0:
                    ctr = list(b)
                elif k == 1:
                    ctr = rnd_state(r, cfg, tree)
                else:
                    u = r.unit()
                    ctr = [x + (y - x) * u for x, y in zip(a, b)]
                half = r.choice([0.02, 0.1, 0.3])
                bounds = []
                free = 0
                for x in ctr:
                    if r.chance(1, 3) and free < nreals - 1:
                        bounds.append((-inf, inf))
                        free += 1
                    else:
                        bounds.append((x - half, x + half))
                lines.append(box_line(bounds))
                lines += ["cm2 %s %s" % (st(a), st(b)), "cm3 %s %s" % (st(a), st(b))]
        # wrap-around pair with the box sitting on the seam (SO(2) coordinate last in se2)
        if space in ("se2", "so2"):
            for yaw_a, yaw_b in [(3.0, -3.0), (-3.1, 3.05), (math.pi - 0.01, -math.pi)]:
                a = ([0.1, -0.2] if space == "se2" else []) + [yaw_a]
                b = ([0.15, -0.1] if space == "se2" else []) + [yaw_b]
                for lo, hi in [(3.1, 4.0), (-4.0, -3.1), (-math.pi, -math.pi), (3.05, 3.06)]:
                    bounds = [(-inf, inf)] * (nreals - 1) + [(lo, hi)]
                    lines.append(box_line(bounds))
                    lines += ["cm2 %s %s" % (st(a), st(b)), "cm3 %s %s" % (st(a), st(b))]
        out.append(("box-" + space, lines))
    return out


def gen_gms(r, tier):
    """getMotionStates: every (count, endpoints, alloc, size) with small numbers, then random larger ones, the
    callers' recipes (count = n - 1 incl. the UINT_MAX wrap at n = 0; count = n), under-sized vectors."""
    out = []
    for space in ["r1", "se2", "dubins"] + (["so2", "cmpd", "rs"] if tier == "thorough" else []):
        cfg = {"space": space, "validator": "default", "frac": 0.01, "lo": -4.0, "hi": 4.0, "dim": 1, "rho": 1.0}
        tree, nreals, nf, hinted = space_info(cfg)
        cfg["f"] = [1] * nf
        if space == "r1":
            a, b = [0.5], [3.25]
        elif space == "so2":
            a, b = [3.0], [-2.9]
        elif hinted:
            a, b = [0.3, -0.4, 0.2], [2.5, 1.5, -1.0]
        else:
            a = rnd_state(r, cfg, tree)
            b = rnd_state(r, cfg, tree)
        lines = [header(cfg)]
        cmax = 7 if tier == "thorough" else 5
        for count in list(range(0, cmax + 1)) + [4294967295]:
            for e in (0, 1):
                for al in (0, 1):
                    for size in range(0, cmax + 4):
                        lines.append("gms %d %d %d %d %s %s" % (count, e, al, size, st(a), st(b)))
        for _ in range(120 if tier == "thorough" else 40):
            count = r.choice([r.range(0, 40), r.range(0, 300), 4294967295])
            e, al = r.below(2), r.below(2)
            want = (count + 1) % 4294967296
            want = (want - 1 if want >= 2 else 0) + 2 * e
            size = r.choice([0, 1, 2, max(want - 1, 0), want, want + 1, r.range(0, 320)])
            lines.append("gms %d %d %d %d %s %s" % (count, e, al, size, st(a), st(b)))
        if not hinted:
            # the callers' recipes on real pairs: PathGeometric::interpolate() passes n - 1 (32-bit unsigned: UINT_MAX for
            # identical states), RRT/RRTConnect pass n; n = validSegmentCount of the pair
            for _ in range(30 if tier == "thorough" else 10):
                a2 = rnd_state(r, cfg, tree)
                k = r.below(5)
                b2 = list(a2) if k == 0 else near_state(r, cfg, tree, a2, 0.02) if k == 1 else rnd_state(r, cfg, tree)
                n = spec_seg(tree, cfg, a2, b2)
                if n > 400:
                    continue
                lines.append("gms %d 0 1 0 %s %s" % ((n - 1) % 4294967296, st(a2), st(b2)))
                lines.append("gms %d 1 1 0 %s %s" % (n, st(a2), st(b2)))
                lines.append("gms %d 1 0 %d %s %s" % (n, r.range(0, n + 3), st(a2), st(b2)))
        out.append(("gms-" + space, lines))
    return out


def gen_hinted_pairs(r, tier):
    """Dubins, symmetric Dubins, Reeds-Shepp (own validators and the discrete one), Owen (Dubins3D validator)."""
    out = []
    reps = 8 if tier == "thorough" else 4
    for space, validator in [("dubins", "default"), ("rs", "default"), ("dubinssym", "default"), ("dubins", "discrete"),
                             ("rs", "discrete"), ("owen", "default"), ("vana", "default"), ("vanaowen", "default")] * reps:
        cfg = {"space": space, "validator": validator, "frac": r.choice([0.01, 0.03, 0.005]), "lo": -5.0, "hi": 5.0, "dim": 1,
               "f": [r.range(1, 3)], "rho": r.choice([1.0, 0.5, 2.0])}
        pairs = []
        for p in range(40 if tier == "thorough" else 14):
            def one():
                xy = [r.uniform(-5.0, 5.0), r.uniform(-5.0, 5.0)]
                yaw = r.uniform(-math.pi, math.pi - 1e-9)
                if space == "owen":
                    return xy + [r.uniform(-3.0, 3.0), yaw]      # |dz| up to 6: a few percent of the pairs have no path
                if space in ("vana", "vanaowen"):
                    return xy + [r.uniform(-1.0, 1.0), r.uniform(-0.4, 0.4), yaw]     # x y z pitch yaw
                return xy + [yaw]
            a = one()
            c = r.below(8)
            if c == 0:
                b = list(a)
            elif c <= 2:
                b = [x + r.uniform(-0.05, 0.05) for x in a[:-1]] + [a[-1]]
            else:
                b = one()
            pairs.append((a, b))
        out.append((cfg, pairs))
    return out


def gen_lists(r, tier):
    cfg = {"space": "r1", "validator": "default", "frac": 0.01, "lo": 0.0, "hi": 1.0, "dim": 1, "f": [1]}
    lines = [header(cfg)]
    cmax = 64 if tier == "thorough" else 20
    for count in range(0, cmax + 1):
        extra = r.below(3)
        lines.append(list_line(count, [1] * (count + extra)))
        for j in range(count + extra):                      # every single-invalid list (also beyond count)
            lines.append(list_line(count, [0 if k == j else 1 for k in range(count + extra)]))
    for _ in range(600 if tier == "thorough" else 100):
        count = r.range(0, 300)
        total = count + r.below(4)
        dens = r.choice([0, 1, 3, 10, 50])
        lines.append(list_line(count, [0 if r.below(100) < dens else 1 for _ in range(total)]))
    return [("lists", lines)]


# ------------------------------------------------------------------ round 10: histories and re-entrancy
#   conf = (space, validator); every validator the engine drives
ALL_CONFS = [("r1", "default"), ("rn", "default"), ("so2", "default"), ("se2", "default"), ("cmpd", "default"), ("cmpd2", "default"),
             ("dubins", "default"), ("dubinssym", "default"), ("rs", "default"), ("dubins", "discrete"), ("rs", "discrete"),
             ("owen", "default"), ("vana", "default"), ("vanaowen", "default"), ("proj", "default"), ("atlas", "default"), ("tb", "default")]


def conf_cfg(r, space, validator):
    if space in CSPACES:
        return {"space": space, "validator": "default", "frac": 0.01, "lo": -2.0, "hi": 2.0, "dim": 1, "f": [1],
                "rho": r.choice([0.05, 0.1])}
    cfg = {"space": space, "validator": validator, "frac": r.choice([0.02, 0.05, 1.0 / 64]), "lo": -4.0, "hi": 4.0,
           "dim": r.range(2, 4), "rho": r.choice([1.0, 0.5, 2.0])}
    if space == "r1":
        cfg.update({"frac": 1.0 / 1024, "lo": 0.0, "hi": 4096.0, "dim": 1})
    _tree, _nreals, nf, _h = space_info(cfg)
    cfg["f"] = [r.range(1, 2) for _ in range(nf)]
    return cfg


def conf_pair(r, cfg, short=False):
    """a pair of states of the configuration's space (mostly a few to a few dozen segments long)"""
    space = cfg["space"]
    tree, nreals, _nf, hinted = space_info(cfg)
    if space in CSPACES:
        th, ph = r.uniform(0.3, math.pi - 0.3), r.uniform(-math.pi, math.pi)
        a = [math.sin(th) * math.cos(ph), math.sin(th) * math.sin(ph), math.cos(th)]
        t1 = [math.cos(th) * math.cos(ph), math.cos(th) * math.sin(ph), -math.sin(th)]
        ang = r.uniform(cfg["rho"] * 1.5, 0.8)
        return a, [x * math.cos(ang) + y * math.sin(ang) for x, y in zip(a, t1)]
    if space == "r1":
        return [0.0 if r.chance(2, 3) else 4.0 * r.range(0, 20)], [4.0 * r.range(1, 40)]
    if not hinted:
        a = rnd_state(r, cfg, tree)
        b = near_state(r, cfg, tree, a, cfg["frac"] * r.uniform(4, 40)) if r.chance(2, 3) else rnd_state(r, cfg, tree)
        return a, b

    def one():
        xy = [r.uniform(-3.5, 3.5), r.uniform(-3.5, 3.5)]
        yaw = r.uniform(-math.pi, math.pi - 1e-9)
        if space == "owen":
            return xy + [r.uniform(-1.0, 1.0), yaw]
        if space in ("vana", "vanaowen"):
            return xy + [r.uniform(-0.5, 0.5), r.uniform(-0.3, 0.3), yaw]
        return xy + [yaw]
    return one(), one()


def fill_constrained_hints(ck, hbin, lines):
    """constrained spaces: traversal length / arrival / isSatisfied / extra candidate of each call (outer and nested) are
    read off a first run of the SAME sequence (an atlas grows while it is used)."""
    o, rc, _e = run_harness(ck, hbin, lines)
    if rc != 0 or o is None or len(o) != len(lines) - 1:
        return lines
    lines = list(lines)

    def h4(part):
        kv = kvline(part)
        qq = kv["q"].split(",")
        if qq and qq[-1] == "p":
            qq = qq[:-1]
        return [kv["n"], kv["reached"], kv["sat"], "1" if qq and qq[-1] == "x" else "0"]
    for k in range(1, len(lines)):
        op = lines[k].split()[0]
        if op not in ("cm2", "cm3", "cm3n"):
            continue
        parts = o[k - 1].split(" || nested")
        j = k - 1
        while j >= 1 and lines[j].split()[0] in ("nest", "hint"):
            if lines[j].startswith("hint"):
                lines[j] = "hint " + " ".join(h4(parts[0]))
            elif len(parts) > 1 and parts[1].strip() != "=none":
                t = lines[j].split()
                # ... <counted hint = 4 placeholders> <counted inv>: replace the four hint tokens
                pos = 4
                pos += 1 + int(t[pos])
                pos += 1 + int(t[pos])
                t[pos + 1:pos + 5] = h4(parts[1])
                lines[j] = " ".join(t)
            j -= 1
    return lines


def history_scripts(ck, hbin, r, tier):
    """histories that RECONFIGURE the SpaceInformation between motion checks, for every validator: a new validity checker
    object (pointer / function overload; the old one kept alive or destroyed), a new resolution (which only setup() makes
    effective), new segment-count factors (effective at once), setup() again, a replaced motion validator (the library's
    default via setMotionValidator(nullptr)+setup(), or a fresh DiscreteMotionValidator), resetMotionCounter.  Each
    check is judged under the configuration in force when it is made."""
    out = []
    reps = 3 if tier == "thorough" else 1
    for space, validator in ALL_CONFS * reps:
        cfg = conf_cfg(r, space, validator)
        tree, nreals, nf, hinted = space_info(cfg)
        cons = space in CSPACES
        steps = []          # ("op", line) | ("pair", a, b)
        npairs = 0
        want = 14 if tier == "thorough" else 7
        if cons:
            want = 8 if tier == "thorough" else 4
        first = True
        while npairs < want:
            c = r.below(10)
            if first or c >= 5:
                steps.append(("pair",) + conf_pair(r, cfg))
                npairs += 1
                first = False
                continue
            k = r.below(10 if not cons else 5)
            if k in (0, 1, 2):
                steps.append(("op", "swapvc " + ("keep", "drop", "fn", "keep")[r.below(4)]))
            elif k == 3:
                steps.append(("op", "setup"))
            elif k == 4:
                kind = "default" if cons or space in D3 or r.chance(1, 2) else "discrete"
                steps.append(("op", "setmv " + kind))
                if r.chance(1, 3):
                    steps.append(("op", "resetcnt"))
            elif k in (5, 6):
                steps.append(("op", "setfrac " + f2bits(r.choice([0.01, 0.02, 0.04, 0.05, 1.0 / 64, 1.0 / 128] if space != "r1"
                                                               else [1.0 / 512, 1.0 / 1024, 1.0 / 2048]))))
                if r.chance(1, 2):
                    steps.append(("op", "setup"))
            elif k == 7:
                steps.append(("op", "setfac %d %d" % (r.below(nf), r.range(1, 3))))
            elif k == 9:
                if space != "r1":
                    lo_, hi_ = r.choice([(-4.0, 4.0), (-6.0, 6.0), (-4.0, 8.0), (-5.0, 4.5)])
                    steps.append(("op", "setbounds %s %s" % (f2bits(lo_), f2bits(hi_))))
                    if r.chance(1, 2):
                        steps.append(("op", "setup"))
            else:
                steps.append(("op", "resetcnt"))
        for s in steps:
            if s[0] == "op":
                ck.count("history op:" + s[1].split()[0] + (" " + s[1].split()[1] if s[1].split()[0] in ("swapvc", "setmv") else ""))
        # first pass on the real code: the segment count of every pair under the configuration in force at that point
        pre = [header(cfg), "invalid idx"]
        for s in steps:
            pre.append(s[1] if s[0] == "op" else ("cm3 %s %s" if cons else "seg %s %s") % (st(s[1]), st(s[2])))
        o, rc, _e = run_harness(ck, hbin, pre)
        tag = "history-%s-%s" % (space, validator)
        if rc != 0 or o is None or len(o) != len(pre) - 1:
            out.append((tag, pre, None))      # judged as is: the oracle reports the crash
            continue
        lines = [header(cfg)]
        for s, ol in zip(steps, o[1:]):
            if s[0] == "op":
                lines.append(s[1])
                if s[1].startswith("swapvc") and r.chance(1, 2):
                    # the state-list forms ask the SpaceInformation's current checker too
                    cnt_ = r.range(1, 9)
                    lines.append(list_line(cnt_, [0 if r.below(6) == 0 else 1 for _ in range(cnt_ + r.below(2))]))
                continue
            kv = kvline(ol)
            n = int(kv["n"])
            if n > 400:
                continue
            hint = None
            if cons:
                hint = "hint 0 1 1 0"
            elif space in ("owen", "vanaowen"):
                hint = "hint %d %d" % (n, int(kv.get("path", "1")))
            for kind in [r.choice(["none", "none", "end", "single", "multi", "first"]) for _ in range(2)]:
                lines.append("invalid idx" + "".join(" %d" % j for j in sorted(rnd_inv(r, n, kind))))
                for f in (("cm2", "cm3", "cm3n") if r.chance(1, 4) else ("cm2", "cm3")):
                    if hint:
                        lines.append(hint)
                    lines.append("%s %s %s" % (f, st(s[1]), st(s[2])))
        if cons:
            lines = fill_constrained_hints(ck, hbin, lines)
        out.append((tag, lines, None))
    return out


NEST_COMBOS = [(nf, md) for nf in ("cm2", "cm3", "cm2", "cm3n") for md in ("same", "thread")]


def nest_scripts(ck, hbin, r, tier):
    """re-entrancy: the validity checker, at its k-th question of an (outer) checkMotion call, runs a complete nested
    checkMotion (either form) of ANOTHER motion on the same SpaceInformation -- in the same thread or in a second, joined
    thread -- before it answers.  checkMotion is const and documented thread safe: the outer call's verdict, lastValid
    and counter increment must be what they are for the outer motion alone, the nested call's likewise.  Every validator
    except the two atlas-based constrained spaces (their traversals change the atlas, i.e. the next traversal)."""
    out = []
    reps = 3 if tier == "thorough" else 1
    for space, validator in ALL_CONFS * reps:
        cfg = conf_cfg(r, space, validator)
        tree, nreals, nf, hinted = space_info(cfg)
        cons = space in CSPACES
        pairs = [(conf_pair(r, cfg), conf_pair(r, cfg)) for _ in range((6 if tier == "thorough" else 3) if not cons else 2)]
        pre = [header(cfg), "invalid idx"]
        for (a, b), (c, d) in pairs:
            pre += [("cm3 %s %s" if cons else "seg %s %s") % (st(a), st(b)), ("cm3 %s %s" if cons else "seg %s %s") % (st(c), st(d))]
        o, rc, _e = run_harness(ck, hbin, pre)
        tag = "nest-%s-%s" % (space, validator)
        if rc != 0 or o is None or len(o) != len(pre) - 1:
            out.append((tag, pre, None))
            continue
        lines = [header(cfg)]
        combo = {"cm2": r.below(8), "cm3": r.below(8)}
        for p, ((a, b), (c, d)) in enumerate(pairs):
            kvo, kvn = kvline(o[1 + 2 * p]), kvline(o[2 + 2 * p])
            n, nn = int(kvo["n"]), int(kvn["n"])
            if n > 300 or nn > 300 or n < 2:
                continue
            hint = nh = None
            nhint = []
            if cons:
                hint, nhint = "hint 0 1 1 0", [0, 1, 1, 0]
            elif space in ("owen", "vanaowen"):
                hint, nhint = "hint %d %d" % (n, int(kvo.get("path", "1"))), [nn, int(kvn.get("path", "1"))]
            for okind, nkind in [("none", "single"), ("none", "none"), ("single", "multi"), ("end", "first")]:
                oinv = rnd_inv(r, n, okind)
                ninv = rnd_inv(r, nn, nkind)
                for oform in ("cm2", "cm3"):
                    # the question at which the nested call is made: the first, an early one, the last one the outer call
                    # asks when all are valid, one beyond it (the nested call then never runs)
                    for k in sorted(set([1, 2, r.range(1, max(n, 1)), n, n + 2]))[:(5 if tier == "thorough" else 3)] \
                            if okind == "none" else [r.range(1, 3)]:
                        # every (outer form, nested form, same thread / second thread) combination, round-robin
                        combo[oform] += 1
                        nform, mode = NEST_COMBOS[(combo[oform] + (0 if oform == "cm2" else 3)) % len(NEST_COMBOS)]
                        ck.count("nest: outer %s, nested %s, %s" % (oform, nform, mode))
                        lines.append("invalid idx" + "".join(" %d" % j for j in sorted(oinv)))
                        if hint:
                            lines.append(hint)
                        lines.append("nest %d %s %s %s %s %d%s %d%s" % (
                            k, mode, nform, st(c), st(d), len(nhint), "".join(" %d" % x for x in nhint),
                            len(ninv), "".join(" %d" % j for j in sorted(ninv))))
                        lines.append("%s %s %s" % (oform, st(a), st(b)))
        if cons:
            lines = fill_constrained_hints(ck, hbin, lines)
        out.append((tag, lines, None))
    return out


# ------------------------------------------------------------------ the check
def harness_env(script):
    # OwenStateSpace::getPath leaks its scratch Dubins state on some return paths (seen by LeakSanitizer on the
    # unchanged tree; not a C05 matter, see notes/C05.md): leak detection is off for the Owen scripts only.
    # (OwenStateSpace::getPath used to leak its scratch state when it found no path; fixed in /repo d075cf1a8, so leak
    # detection is on for every script again)
    # Freshly allocated memory (also inside libompl: ASan's allocator serves the whole process) is filled with 0xBE, so a
    # validator that hands back an uninitialised scratch state returns the same recognisable garbage on every run; the
    # caller's lastValid.first is pre-filled with the harness' own sentinel.
    return {"ASAN_OPTIONS": "detect_leaks=1:abort_on_error=0:exitcode=99:malloc_fill_byte=190:max_malloc_fill_size=1048576"}


def run_harness(ck, hbin, script):
    return ck.run_bin(hbin, script, env=harness_env(script))


def run_script(ck, hbin, script):
    impl, rc, err = run_harness(ck, hbin, script)
    model, rc2, err2 = ck.run_bin(ck.driver(DRIVER), script)
    if rc2 != 0:
        raise RuntimeError("model driver %s failed (rc=%s): %s" % (DRIVER, rc2, (err2 or "")[-2000:]))
    return impl or [], rc, err, model


def split_groups(script):
    """header, list of groups; a group is a maximal run of lines ending with its cm/list lines and starting at
    the `invalid`/`hint` lines that precede them."""
    groups, cur = [], []
    for ln in script[1:]:
        op = ln.split()[0]
        if op in RECONF_OPS:
            if cur:
                groups.append(cur)
            groups.append([ln])
            cur = []
            continue
        if op == "invalid" and cur and cur[-1].split()[0] not in ("invalid", "hint"):
            groups.append(cur)
            cur = []
        elif op in ("list", "gms") and cur:
            groups.append(cur)
            cur = []
        cur.append(ln)
    if cur:
        groups.append(cur)
    return groups


def shrink(ck, hbin, script, segs_by_text, fail_idx=None):
    """smallest script on which the oracle still fails: one group, then as few invalid indices as possible."""
    hdr = script[0]

    def fails(lines):
        s = [hdr] + lines
        o, rc, _e = run_harness(ck, hbin, s)
        f, _ = oracle(s, o or [], segs_for(s, segs_by_text))
        return f is not None or rc != 0
    groups = split_groups(script)
    best = None
    order = list(range(len(groups)))
    if fail_idx is not None:          # the group containing the failing op first
        pos = 0
        for gi, g in enumerate(groups):
            if pos <= fail_idx < pos + len(g):
                order = [gi] + [x for x in order if x != gi]
                break
            pos += len(g)
    for gi in order[:80]:
        if fails(groups[gi]):
            best = groups[gi]
            break
    if best is None:
        kept = core.ddmin(groups, lambda gs: fails([l for g in gs for l in g]), max_tests=200)
        return [hdr] + [l for g in kept for l in g]
    # drop call lines of the group that are not needed (the predicate and hint lines stay)
    calls = [l for l in best if l.split()[0] in ("cm2", "cm3", "cm3n", "list", "gms")]
    if len(calls) > 1:
        fixed = [l for l in best if l not in calls]
        calls = core.ddmin(calls, lambda cs: fails(fixed + cs), max_tests=20)
        best = fixed + calls
    for k, ln in enumerate(best):
        if ln.startswith("invalid idx"):
            js = ln.split()[2:]
            if len(js) > 1:
                def f2(sub, k=k):
                    return fails(best[:k] + ["invalid idx " + " ".join(sub)] + best[k + 1:])
                js = core.ddmin(js, f2, max_tests=80)
                best = best[:k] + ["invalid idx " + " ".join(js)] + best[k + 1:]
    return [hdr] + best


def segs_for(script, segs_by_text):
    if not segs_by_text:
        return None
    out = {}
    for i, ln in enumerate(script[1:]):
        t = ln.split(" ", 1)
        if t[0] in ("cm2", "cm3", "cm3n") and t[1] in segs_by_text:
            out[i] = segs_by_text[t[1]]
    return out


def targeted_search(ck, hbin, script, impl, model, d, segs_by_text):
    """model and implementation differ at output line d but the oracle passed: aim at the difference.  If the
    query orders differ, make exactly the indices on which they differ invalid (one at a time) and re-run the
    real code under the oracle."""
    ln = script[1 + d]
    op = ln.split()[0]
    if op not in ("cm2", "cm3", "cm3n"):
        return None
    qi = parse_q(kvline(impl[d]).get("q", "-")) if d < len(impl) else []
    qm = parse_q(kvline(model[d]).get("q", "-")) if d < len(model) else []
    n = int(kvline(impl[d]).get("n", "0")) if d < len(impl) else 0
    cand = []
    for x, y in zip(qi + [None] * len(qm), qm + [None] * len(qi)):
        if x != y:
            cand += [z for z in (x, y) if z is not None]
    cand += sorted((set(qm) ^ set(qi)) - {None})
    cand += [1, 2, n - 1, n, max(n // 2, 1)]
    seen = []
    for j in cand:
        if j not in seen and j >= 0:
            seen.append(j)
    hint = [l for l in script[1:1 + d] if l.startswith("hint")][-1:]
    rest = ln.split(" ", 1)[1]
    for j in seen[:24]:
        s = [script[0], "invalid idx %d" % j] + hint + ["cm2 " + rest, "cm3 " + rest]
        o, rc, _e = run_harness(ck, hbin, s)
        ck.count("search:predicates-tried")
        f, _ = oracle(s, o or [], segs_for(s, segs_by_text))
        if f is not None:
            return s, o, f
    return None


def account(ck, tag, script, impl, stats):
    ck.traces_validated += 1
    ck.count("scripts:" + tag.split(":")[0])
    ck.count("calls", stats["calls"])
    ck.count("n=0 with an invalid end state (fraction must be 0)", stats["n0_invalid"])
    ck.count("excluded:ambiguous subdivision (identical interpolants)", stats["ambiguous"])
    ck.count("dubins3d: getPath found no path (must answer false and count one invalid motion)", stats["nopath"])
    ck.count("calls under a geometric (box) predicate", stats["box"])
    ck.count("calls of the ConstrainedMotionValidator", stats["constrained"])
    ck.count("excluded:atlas/tb traversal not decodable (atlas changed between reference and call)", stats.get("unstable_traversal", 0))
    ck.count("compared only:constrained call with an invalid start state", stats.get("start_invalid", 0))
    ck.count("reconfiguration ops between checks", stats.get("reconf", 0))
    ck.count("nested calls run inside a validity question", stats.get("nested_run", 0))
    ck.count("nested call armed beyond the outer call's last question (never runs)", stats.get("nested_not_reached", 0))
    cfg = parse_header(script[0])
    last_inv = ""
    last_nest = ""
    for i, ln in enumerate(script[1:]):
        op = ln.split()[0]
        ck.count("op:" + op)
        if op == "invalid":
            last_inv = ln
        if op == "nest":
            last_nest = ln
        if op in ("cm2", "cm3", "cm3n") and i < len(impl) and impl[i].startswith("v="):
            kv = kvline(impl[i].split(" || nested")[0])
            if " || nested v=" in impl[i]:
                kn = kvline(impl[i].split(" || nested")[1])
                ck.case((script[0], ln, last_inv, last_nest), int(kn["n"]) >= 3)
            n = int(kv["n"])
            ck.case((script[0], ln, last_inv), n >= 3)
            ck.count("space:%s/%s" % (cfg["space"], cfg["validator"]))
            ck.count("n:" + ("0" if n == 0 else "1" if n == 1 else "2" if n == 2 else "3-16" if n <= 16 else "17-64" if n <= 64
                             else "65-300" if n <= 300 else ">300"))
            ck.count("verdict:%s" % kv["v"])
        elif op == "list":
            ck.case((script[0], ln), int(ln.split()[1]) >= 3)
        elif op == "gms":
            ck.case((script[0], ln), int(ln.split()[1]) >= 2)
    ck.sample({"generator": tag, "header": script[0], "lines": script[1:6], "impl": impl[:5]})


_reported = set()
_CNT = re.compile(r"cnt=(\d+)/(\d+)->(\d+)/(\d+)")


def canon(lines, skip=()):
    """for the model/implementation diff the running counter totals become increments (so that one uncounted
    call does not make every later line differ); lines listed in `skip` are blanked."""
    out = []
    for i, l in enumerate(lines):
        if i in skip:
            out.append("<skipped: recorded finding>")
            continue
        l = _CNT.sub(lambda m: "cnt=+%d/+%d" % (int(m.group(3)) - int(m.group(1)), int(m.group(4)) - int(m.group(2))), l)
        if " reached=" in l:            # constrained validator: the fraction is a ratio of distances (C16 models it)
            l = re.sub(r" lv=\d+", " lv=written", l)
        out.append(l)
    return out


def diff(ck, impl, model, skip=()):
    a, b = canon(impl, skip), canon(model, skip)
    # getMotionStates on a pair whose end points / interpolants coincide bit-wise (identical states): the slot labels are
    # ambiguous (harness amb > 0); only the returned count and the vector size are compared there
    for i, l in enumerate(a):
        if " reached=" in l and (" amb=0 " not in l or "?" in l.split(" q=")[1].split()[0]):   # repeated / undecodable states
            a[i] = "<ambiguous traversal>"
            if i < len(b):
                b[i] = "<ambiguous traversal>"
        if l.startswith("ret=") and not l.endswith("amb=0"):
            a[i] = " ".join(l.split()[:2])
            if i < len(b):
                b[i] = " ".join(b[i].split()[:2])
    return ck.first_diff(a, b)


def report_narrow(ck, hbin, script, what, hits, cfg):
    """a deviation that is exactly one of the recorded findings (F75, F120-F123): its own narrow record, minimal replay."""
    i = hits[0]
    hint = [l for l in script[1:1 + i] if l.startswith("hint")][-1:]
    inv = [l for l in script[1:1 + i] if l.startswith("invalid")][-1:]
    small = [script[0]] + inv + hint + [script[1 + i]]
    o, _rc, _e, m = run_script(ck, hbin, small)
    ck.count("narrow:" + what, len(hits))
    validator = "constrained" if cfg["space"] in CSPACES else cfg["validator"]
    new = ck.report({"engine": "motion", "what": what, "validator": validator, "form": script[1 + i].split()[0]},
                    script=small, expected=m, observed=o, engine="motion")
    if new:
        ck.log("property failure [%s]: %s" % (cfg["space"], what))
    return new


def judge(ck, hbin, tag, script, segs_by_text=None, pre=None):
    impl, rc, err, model = pre if pre is not None else run_script(ck, hbin, script)
    fail, stats = oracle(script, impl, segs_for(script, segs_by_text))
    account(ck, tag, script, impl, stats)
    cfg = parse_header(script[0])
    if rc not in (0,) and fail is None:
        fail = (len(impl), "harness exited with code %s: %s" % (rc, (err or "")[-400:]))
    elif rc not in (0,) and "stopped early" in fail[1]:
        summ = [l for l in (err or "").splitlines() if "SUMMARY" in l or "runtime error" in l]
        fail = (fail[0], fail[1] + (": " + summ[0].strip()[:200] if summ else ""))
    skip = set(i for i, _w in stats["narrow"])
    for what in sorted(set(w for _i, w in stats["narrow"])):
        hits = [i for i, w in stats["narrow"] if w == what]
        key = ("narrow", what, cfg["validator"], script[1 + hits[0]].split()[0])
        if key not in _reported:
            _reported.add(key)
            report_narrow(ck, hbin, script, what, hits, cfg)
    d = diff(ck, impl, model, skip)
    if fail is None and d is not None:
        found = targeted_search(ck, hbin, script, impl, model, d, segs_by_text)
        if found:
            script, impl, fail = found
            model = ck.run_bin(ck.driver(DRIVER), script)[0]
    if fail is not None:
        # one report per (kind of failure, space, validator); repeats are only counted
        key = (re.sub(r"[0-9]+", "#", fail[1])[:60], cfg["space"], cfg["validator"])
        if key in _reported or len(_reported) >= 8:
            ck.count("repeat of an already reported failure")
            return False
        _reported.add(key)
        small = shrink(ck, hbin, script, segs_by_text, fail[0])
        o, r2, e2, m = run_script(ck, hbin, small)
        f, _ = oracle(small, o, segs_for(small, segs_by_text))
        what = f[1] if f else fail[1]
        ck.report({"engine": "motion", "what": what, "space": cfg["space"], "validator": cfg["validator"]},
                  script=small, expected=m, observed=o, engine="motion")
        ck.log("property failure [%s]: %s" % (tag, what))
        return False
    if d is not None:
        ck.disagreements += 1
        hdr = script[0]
        key = ("disagreement", cfg["space"], cfg["validator"])
        if key in _reported or len(_reported) >= 8:
            ck.count("repeat of an already reported disagreement")
            return False
        _reported.add(key)

        def still(gs):
            s = [hdr] + [l for g in gs for l in g]
            o, r2, e2, m = run_script(ck, hbin, s)
            _f, st2 = oracle(s, o, None)
            return diff(ck, o, m, set(i for i, _w in st2["narrow"])) is not None
        kept = core.ddmin(split_groups(script), still, max_tests=120)
        small = [hdr] + [l for g in kept for l in g]
        o, r2, e2, m = run_script(ck, hbin, small)
        dd = diff(ck, o, m, set(i for i, _w in oracle(small, o, None)[1]["narrow"]))
        ck.report({"engine": "motion", "what": "model/implementation disagreement"}, script=small, expected=m, observed=o,
                  found_input=False, engine="motion",
                  obligation="correspondence motion: motion validators vs OmplModel.Model.Motion (first differing line %s: impl %r, model %r)"
                             % (dd, o[dd] if dd is not None and dd < len(o) else None, m[dd] if dd is not None and dd < len(m) else None))
        ck.log("correspondence disagreement [%s] at line %d; the targeted search found no failing input" % (tag, d))
        return False
    return True


def hinted_scripts(ck, hbin, r, tier):
    """two passes for the spaces whose distance the model does not compute: `seg` on the real code gives n
    (and Owen's getPath outcome) for the hint lines, and dist/L for the oracle's formula check."""
    out = []
    for cfg, pairs in gen_hinted_pairs(r, tier):
        pre = [header(cfg)] + ["seg %s %s" % (st(a), st(b)) for a, b in pairs]
        o, rc, err = run_harness(ck, hbin, pre)
        if rc != 0 or o is None or len(o) != len(pairs):
            out.append(("hinted-" + cfg["space"], pre, {}))     # judged as is: the oracle reports the crash
            continue
        lines = [header(cfg)]
        segs = {}
        for (a, b), ol in zip(pairs, o):
            kv = kvline(ol)
            n = int(kv["n"])
            if n > 1500:
                continue
            # Dubins / symmetric Dubins / Reeds-Shepp: no hint, the model computes n from C14's bit-exact distance models
            hint = None if cfg["space"] in ("dubins", "dubinssym", "rs", "vana") else n if cfg["space"] not in D3 else (n, int(kv.get("path", "1")))
            segs["%s %s" % (st(a), st(b))] = (bits2f(kv["dist"]), bits2f(kv["L"]))
            for kind in ["none", "end", r.choice(KINDS), r.choice(KINDS)]:
                lines += group(a, b, rnd_inv(r, n, kind), hint=hint)
        out.append(("hinted-%s-%s" % (cfg["space"], cfg["validator"]), lines, segs))
    return out


def proj_scripts(ck, hbin, r, tier):
    """ConstrainedMotionValidator on the unit sphere (ProjectedStateSpace): pairs a known angle apart (identical,
    closer than delta, several steps), an end state off the manifold; the traversal length n-1, whether it arrives and
    isSatisfied(s2) are measured on the real code with validity checking off and handed to the model as a hint."""
    out = []
    for rep in range(9 if tier == "thorough" else 6):
        delta = r.choice([0.05, 0.1, 0.02])
        cspace = CSPACES[rep % 3]
        cfg = {"space": cspace, "validator": "default", "frac": 0.01, "lo": -2.0, "hi": 2.0, "dim": 1, "f": [1], "rho": delta}
        pairs = []
        for p in range(30 if tier == "thorough" else 12):
            th, ph = r.uniform(0.3, math.pi - 0.3), r.uniform(-math.pi, math.pi)
            a = [math.sin(th) * math.cos(ph), math.sin(th) * math.sin(ph), math.cos(th)]
            # rotate about an axis orthogonal to a by the angle ang
            t1 = [math.cos(th) * math.cos(ph), math.cos(th) * math.sin(ph), -math.sin(th)]
            c = r.below(8)
            ang = 0.0 if c == 0 else r.uniform(0.0, delta * 0.9) if c == 1 else r.uniform(delta, 1.2)
            b = [x * math.cos(ang) + y * math.sin(ang) for x, y in zip(a, t1)]
            if c == 7:
                b = [x * 1.3 for x in b]                     # end state off the manifold
            pairs.append((a, b))
        # (the three-argument form always runs the traversal, also for an end state off the manifold)
        pre = [header(cfg), "invalid idx"] + ["cm3 %s %s" % (st(a), st(b)) for a, b in pairs]
        o, rc, err = run_harness(ck, hbin, pre)
        if rc != 0 or o is None or len(o) != len(pre) - 1:
            out.append((cspace, pre, None))
            continue
        lines = [header(cfg)]
        for (a, b), ol in zip(pairs, o[1:]):
            kv = kvline(ol)
            n = int(kv["n"])
            for kind in ["none", "end", "first", r.choice(KINDS), r.choice(KINDS)] + (["start"] if cspace != "proj" else []):
                inv = {0} | (rnd_inv(r, n, "single") if r.chance(1, 2) else set()) if kind == "start" else rnd_inv(r, n, kind)
                forms = ("cm2", "cm3", "cm3n") if r.chance(1, 2) else ("cm2", "cm3")
                lines.append("invalid idx" + "".join(" %d" % j for j in sorted(inv)))
                for f in forms:
                    lines += ["hint 0 1 1 0", "%s %s %s" % (f, st(a), st(b))]
        # the traversal length, arrival, isSatisfied(s2) and the extra candidate are read off the SAME call sequence (an
        # Atlas / TangentBundle grows charts as it is used, so they depend on the history): run once, fill the hints in
        o2, rc2, err2 = run_harness(ck, hbin, lines)
        if rc2 == 0 and o2 is not None and len(o2) == len(lines) - 1:
            last_reached = {}
            for k in range(1, len(lines)):
                if lines[k].startswith("hint") and k + 1 < len(lines):
                    kv = kvline(o2[k])          # output of the call that follows (o2 index = line index - 1 + 1)
                    qq = kv["q"].split(",")
                    if qq and qq[-1] == "p":
                        qq = qq[:-1]
                    lines[k] = "hint %s %s %s %d" % (kv["n"], kv["reached"], kv["sat"], 1 if qq and qq[-1] == "x" else 0)
        out.append((cspace, lines, None))
    return out


def tb_wrapper_check(ck, hbin):
    """TangentBundleSpaceInformation::checkMotion(s1,s2,lastValid) wraps the validator and re-projects lastValid.first.
    Harness-only (no model run): on a VALID motion the caller's storage must come back untouched and the verdict must equal
    the two-argument form whatever that storage held.  Deviations are the narrow record F123."""
    cfg = {"space": "tb", "validator": "default", "frac": 0.01, "lo": -2.0, "hi": 2.0, "dim": 1, "f": [1], "rho": 0.05}
    a, b = [1.0, 0.0, 0.0], [math.cos(0.5), math.sin(0.5), 0.0]
    base = [header(cfg), "invalid idx", "cm2 %s %s" % (st(a), st(b)), "cm3 %s %s" % (st(a), st(b)),
            "cm3x %s %s %s" % (st(a), st(b), st([0.0, 1.0, 0.0])), "cm3x %s %s %s" % (st(a), st(b), st([0.3, 0.2, 0.1]))]
    crash = [header(cfg), "invalid idx", "cm3x %s %s %s" % (st(a), st(b), st([0.0, 0.0, 0.0]))]
    hits = []
    for script in (base, crash):
        o, rc, err = run_harness(ck, hbin, script)
        o = o or []
        ck.traces_validated += 1
        ck.count("scripts:tb-wrapper")
        for ln, ol in zip(script[1:], o):
            op = ln.split()[0]
            if op not in ("cm2", "cm3", "cm3x"):
                continue
            ck.case((script[0], ln), True)
            ck.count("op:" + op)
            kv = kvline(ol)
            if kv["v"] != "1":
                hits.append((script, "verdict %s on a valid motion (%s)" % (kv["v"], op)))
            if op == "cm3" and kv["lvs"] != "untouched":
                hits.append((script, "lastValid.first was modified by a successful check (lvs=%s)" % kv["lvs"]))
            if op == "cm3x" and kv["first"] != "same":
                hits.append((script, "lastValid.first was modified by a successful check"))
            if op != "cm2" and kv["lv"] != "untouched":
                hits.append((script, "lastValid.second written by a successful check"))
        if rc != 0 or len(o) < len(script) - 1:
            summ = [l for l in (err or "").splitlines() if "SUMMARY" in l]
            hits.append((script, "crash while re-projecting the caller's lastValid.first after a valid motion: %s" % (summ[0][:160] if summ else rc)))
    if hits:
        script, why = hits[0]
        ck.count("narrow:tb-wrapper-touches-lastvalid-on-success", len(hits))
        o, rc, err = run_harness(ck, hbin, script)
        new = ck.report({"engine": "motion", "what": "tb-wrapper-touches-lastvalid-on-success", "validator": "constrained", "form": "cm3"},
                        script=script, expected=["(valid motion: v=1, lastValid untouched)"], observed=(o or []) + [why], engine="motion")
        if new:
            ck.log("property failure [tb]: " + "; ".join(sorted(set(w for _s, w in hits)))[:400])


def corpus():
    d = os.path.join(core.VERIF, "corpus", "C05")
    out = []
    if os.path.isdir(d):
        for f in sorted(os.listdir(d)):
            if f.endswith(".txt"):
                out.append((f, [l.rstrip("\n") for l in open(os.path.join(d, f)) if l.strip() and not l.startswith("#")]))
    return out


def setup(ck):
    ck.build_harness("motion", ["motion.cpp"], link_ompl=True)


def run(ck):
    ck.rule = ("one case = one checkMotion call (2- or 3-argument) on a pair of states under a scripted predicate (index set or "
               "box region), one state-list call, or one getMotionStates call; non-trivial if the segment count n >= 3 "
               "(list: count >= 3; getMotionStates: count >= 2); distinct by header + call line + predicate")
    ck.trusted += ["harness/motion.cpp: scripted StateValidityChecker; a queried state is mapped to its subdivision index by pointer "
                   "identity (s2) or bit-wise comparison with the harness' own space->interpolate(s1,s2,j/n)",
                   "Dubins/Reeds-Shepp/Owen: the segment count (and Owen's getPath outcome) is taken from the real code and given to "
                   "the model as a hint; its formula factor*ceil(dist/L) is checked by the oracle from the measured dist and L"]
    ck.assumptions += ["s1 is valid (MotionValidator.h: not re-checked, not demanded)",
                       "segment counts below 2^31 (int/unsigned conversions not modelled)",
                       "n = 0 with an invalid end state: the fraction must be 0 (F124; DESIGN 2.5 had excluded this point, the property text does not)",
                       "Dubins3D: when getPath finds no path the call must answer false and count one invalid motion (F75); the lastValid clause "
                       "does not apply there (no curve to interpolate; lastValid is left unset, theorem dubins3D_nopath_lastValid_unset)",
                       "getMotionStates: count + 2 < 2^32 apart from the modelled UINT_MAX wrap; in alloc mode the incoming vector holds no owned states",
                       "re-entrancy: the interleaved call is made by the validity checker itself, in the same thread or in a second, JOINED thread "
                       "(a deterministic interleaving at a query point; true data races between unsynchronised threads are not explored)",
                       "setLongestValidSegmentFraction takes effect at the next setup() only, setValidSegmentCountFactor at once (StateSpace.h documents both)"]
    ck.lean_build(LEAN_TARGETS)
    ck.audit(roots=["Drv.Motion"])
    if ck.tier == "thorough" and ck.lean_ok:
        ck.leanchecker(["OmplModel.Props.C05"])
    hbin = ck.build_harness("motion", ["motion.cpp"], link_ompl=True)
    jobs = []   # (tag, script, segs)
    for name, script in corpus():
        jobs.append(("corpus:" + name, script, None))
    r = ck.rng
    for tag, s in gen_r1(r.fork("r1"), ck.tier):
        jobs.append((tag, s, None))
    for tag, s in gen_single_exhaustive(r.fork("single"), 64 if ck.tier == "thorough" else 32):
        jobs.append((tag, s, None))
    for tag, s in gen_spaces(r.fork("spaces"), ck.tier):
        jobs.append((tag, s, None))
    for tag, s in gen_lists(r.fork("lists"), ck.tier):
        jobs.append((tag, s, None))
    for tag, s in gen_box(r.fork("box"), ck.tier):
        jobs.append((tag, s, None))
    for tag, s in gen_gms(r.fork("gms"), ck.tier):
        jobs.append((tag, s, None))
    for tag, s, segs in hinted_scripts(ck, hbin, r.fork("hinted"), ck.tier):
        jobs.append((tag, s, segs))
    for tag, s, segs in proj_scripts(ck, hbin, r.fork("proj"), ck.tier):
        jobs.append((tag, s, segs))
    for tag, s, segs in short_scripts(ck, hbin, r.fork("short"), ck.tier):
        jobs.append((tag, s, segs))
    for tag, s, segs in history_scripts(ck, hbin, r.fork("history"), ck.tier):
        jobs.append((tag, s, segs))
    for tag, s, segs in nest_scripts(ck, hbin, r.fork("nest"), ck.tier):
        jobs.append((tag, s, segs))
    tb_wrapper_check(ck, hbin)
    bad = 0
    _reported.clear()
    # corpus first (sequential), then the rest in parallel
    ncorp = len([j for j in jobs if j[0].startswith("corpus:")])
    for tag, s, segs in jobs[:ncorp]:
        if not judge(ck, hbin, tag, s, segs):
            bad += 1
    rest = jobs[ncorp:]
    with ThreadPoolExecutor(max_workers=min(12, os.cpu_count() or 4)) as ex:
        pre = list(ex.map(lambda j: run_script(ck, hbin, j[1]), rest))
    for (tag, s, segs), p in zip(rest, pre):
        if not judge(ck, hbin, tag, s, segs, pre=p):
            bad += 1
    return 0


def replay(ck, data):
    hbin = ck.build_harness("motion", ["motion.cpp"], link_ompl=True)
    ck.lean_build([DRIVER])
    script = data["script"]
    if " space=tb " in script[0] and any(l.startswith("cm3x") for l in script):          # harness-only scenario (TangentBundleSpaceInformation wrapper, F123)
        o, rc, err = run_harness(ck, hbin, script)
        for ln, ol in zip(script[1:], (o or []) + ["<missing>"] * len(script)):
            print("%-60s impl:  %s" % (ln[:60], ol))
        bad = rc != 0 or any(("lvs=" in l and "lvs=untouched" not in l) or "first=changed" in l or l.startswith("v=0") for l in (o or []))
        print("PROPERTY FAILS: a successful three-argument check touched the caller's lastValid.first / crashed re-projecting it (rc=%s)" % rc
              if bad else "no failure on the current tree")
        return 1 if bad else 0
    impl, rc, err, model = run_script(ck, hbin, script)
    fail, st_ = oracle(script, impl)
    if fail is None and st_["narrow"]:
        fail = (st_["narrow"][0][0], "recorded-finding class: " + st_["narrow"][0][1])
    d = diff(ck, impl, model)
    for i, ln in enumerate(script[1:]):
        print("%-60s impl:  %s" % (ln[:60], impl[i] if i < len(impl) else "<missing>"))
        if i < len(model) and (i >= len(impl) or impl[i] != model[i]):
            print("%-60s model: %s" % ("", model[i]))
    if fail:
        print("PROPERTY FAILS at op %d: %s" % fail)
        return 1
    if rc != 0:
        print("harness exited with code %s: %s" % (rc, (err or "")[-600:]))
        return 1
    if d is not None:
        print("model and implementation disagree at line %d (no property failure in this script)" % d)
        return 1
    print("no failure on the current tree")
    return 0


MANIFEST = {
    "engine": "motion",
    "category": "proof",
    "design_ref": "DESIGN.md 2.5",
    "text": "Lean 4 theorems over an executable model of the discrete motion check (both checkMotion forms, the Dubins / "
            "Reeds-Shepp / Dubins3D instances, the state-list helper, the segment count): for EVERY segment count n and EVERY "
            "validity predicate on subdivision indices the verdict is true iff the end state and every k/n point are valid, both "
            "forms agree, the failure report is the least invalid index with fraction (j-1)/n in [0,1), lastValid is untouched on "
            "success, the bisection queue visits every index exactly once (well-founded queue measure), exactly one counter "
            "advances by one (with or without a Dubins3D path); getMotionStates returns min(size, wanted) states, slot p holds "
            "exactly the p-th element of [s1]+[interpolate j/(count+1)]+[s2], never writes past a provided vector, and with the "
            "callers' count = n-1 (incl. the UINT_MAX wrap) yields exactly checkMotion's interior points; ConstrainedMotionValidator "
            "(subdivision = the manifold traversal) as coded and as fixed: verdict, forms agree, one counter, lastValid = last "
            "traversal state with a valid prefix; the TangentBundleSpaceInformation wrapper.  Tied to libompl by line-by-line differential runs of the real validators against the compiled "
            "model with a scripted, recording StateValidityChecker (verdict, fraction bits, last-valid state vs interpolant, "
            "full query order, counters; index-set and geometric box predicates; getMotionStates slot by slot incl. under-sized "
            "vectors), plus an independent Python oracle of the property on the implementation's outputs.  Round 10: a motion check "
            "depends on the CURRENT configuration only -- histories that replace the validity checker (pointer / function overload, old "
            "one kept or destroyed), change the resolution (in force after setup() only) and the count factors (at once), call setup() "
            "again, replace the validator (library default via setup(), fresh discrete one) or reset its counters, for every validator, "
            "run through the model's Config.step (history_current_config, history_checks_irrelevant, history_verdict; "
            "latched_checker_fails) -- and not on calls interleaved at query points: the recorded checker runs a complete nested "
            "checkMotion (either form, same or second thread) inside the k-th validity question (reentrant_result_alone, "
            "reentrant_validators, reentrant_nested_alone, reentrant_constrained; shared_scratch_fails); setBounds + setup() as a "
            "reconfiguration; segCount_tight, zero_length_motion.",
    "note": "Trusted: Lean kernel, the three standard axioms, the hand-written model outside the explored inputs, the harness' "
            "state->index decoding.  interpolate/distance/isValid are oracles (C07/C06/C14).  n = 0 with an invalid end state "
            "(fraction -1/0) is excluded from the [0,1) clause and only exercised.  F7 (Dubins/RS/Dubins3D two-argument check did "
            "not count an invalid end state) is fixed in /repo; `counters_old_fails` keeps the witness for the old code.  F75 "
            "(Dubins3D returned false without counting when getPath finds no path) is fixed in /repo (449563fe0): the model follows "
            "the fixed code, `counters_nopath_old_fails` is the witness about the former code, lastValid stays unset there.",
    "technique": "Lean 4 proof (induction on the scan; well-founded induction on the bisection queue; permutation of the index range) "
                 "+ differential correspondence + spec oracle",
}
