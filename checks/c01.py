"""C01 — geometric planners only report solution paths that are real.

Obligations: theorems of lean/OmplModel/Props/C01.lean (L0 reporting layer, L1 oracle machines, L2 RRT;
kernel-checked, audited).

Correspondence / conformance, all against the REAL planners of the current tree (harness/planners.cpp):
 (a) RRT, RRTConnect and LazyPRM lock-step (LazyPRM additionally replays the real A* answers, see notes/C01.md): the harness records every state the sampler / the goal handed to the planner
     (recording sampler allocator + recording goal wrapper, NearestNeighborsLinear installed); the Lean models
     (`drv_rrt`) replay the draws and must reproduce the tree(s) (insertion order, parents, roots, state bits), the
     path, the status, the problem-definition flags and the input-state counters.
 (b) every shipped geometric planner (+ the multilevel QRRT/QRRTStar/QMP/QMPStar) x random and adversarial
     environments x seeds x evaluation budgets through the spec oracle `path_is_real` below, which recomputes
     bounds, validity and (where elementary) distances itself from the raw numbers the harness prints.

 (c) the unobserved-gap attack (DESIGN 1.4): the harness attributes the queried-valid states of the transcript to the
     edges of the reported path; an edge with an unqueried stretch longer than 2 x resolution gets a thin obstacle inside
     that stretch (touching no queried state), the same planner is re-run with the same seed and budget and the (same,
     now invalid) path is reported as the failing input.

Planners other than RRT, RRTConnect and LazyPRM are covered ONLY on the runs explored here.
"""
import concurrent.futures
import math
import os
import struct
import time

from lib import core

EPS = 2.220446049250313e-16
PI = math.pi
DRIVER = "drv_rrt"
DRIVER_LAZYPRM = "drv_lazyprm"
LEAN_TARGETS = ["OmplModel.Props.C01", DRIVER, DRIVER_LAZYPRM]
LEVEL = "proof"

GEOMETRIC = ["RRT", "RRTConnect", "RRTstar", "InformedRRTstar", "SORRTstar", "RRTsharp", "RRTXstatic", "LazyRRT",
             "TRRT", "BiTRRT", "LBTRRT", "LazyLBTRRT", "RLRT", "BiRLRT", "EST", "BiEST", "ProjEST", "KPIECE1",
             "BKPIECE1", "LBKPIECE1", "PDST", "SBL", "STRIDE", "PRM", "PRMstar", "LazyPRM", "LazyPRMstar", "SPARS",
             "SPARStwo", "FMT", "BFMT", "BITstar", "ABITstar", "AITstar", "EITstar", "EIRMstar", "SST",
             "AnytimePathShortening", "pRRT", "pSBL", "CForest"]
MULTILEVEL = ["QRRT", "QRRTStar", "QMP", "QMPStar"]
# planners outside planning.h's list that the harness can construct with a fixed extra input:
#   Lightning = LightningRetrieveRepair over an experience database holding the (unvalidated) straight line and two
#   random detours.  (VFRRT is constructible too - harness branch kept - but its std::function returns an Eigen vector by
#   value across the library boundary and the sanitized harness is not built with the library's Eigen alignment flags:
#   ASan reports a bad free inside the harness's own lambda; not driven.)
EXTRA = ["Lightning"]

# The `planners.json` of DESIGN 1.4: planners NOT held to the strict form (every consecutive pair of the reported path
# passes checkMotion again, i.e. every j/n subdivision point and every vertex is valid), with the reason.  Every planner
# not listed here is held to the strict form.  The gap form (no invalid stretch longer than 2 x resolution length)
# applies to all.
NOT_STRICT = {
    "EITstar": "multi-resolution edge checking (isValidAtResolution re-uses checks made at other subdivisions)",
    "EIRMstar": "multi-resolution edge checking (shares EITstar's isValidAtResolution)",
    "AnytimePathShortening": "reports a path re-interpolated and shortcut by PathSimplifier (vertices are new interpolated states)",
    "KPIECE1": "keeps the last valid state of a partially valid motion (3-argument checkMotion): the shortened edge's own j/n points are not the ones that were queried",
    "BKPIECE1": "partial motions via 3-argument checkMotion (as KPIECE1)",
    "LBKPIECE1": "partial motions via 3-argument checkMotion (as KPIECE1); lazy re-validation of the kept edges",
    "PDST": "splits validated motions at cell boundaries by interpolation; path vertices are split points",
    "RLRT": "extends to the last valid state of a motion (3-argument checkMotion)",
    "BiRLRT": "extends to the last valid state of a motion (3-argument checkMotion)",
    "STRIDE": "partial motions via 3-argument checkMotion (as KPIECE1)",
    "RRT+intermediate": "with intermediate_states=1 consecutive path states are the j/n check points of ONE validated motion (since fdd06210b; before, the never-checked j/(n+1) points: F110), not individually validated motions: a piece is ~ one resolution length long and its validSegmentCount is 2 by rounding when the motion length is a multiple of the resolution length - the piece's midpoint was never looked at and may lie in an obstacle thinner than the resolution (54 of 400 boundary-range runs on the fixed tree); the gap clause and the `vertex` clause (every path state valid) are enforced instead",
    "RRTConnect+intermediate": "as RRT+intermediate",
    "Lightning": "retrieves a stored path, repairs invalid pieces with a sub-planner and runs PathSimplifier over the result",
    "QRRT": "multilevel: path assembled over bundle-space graphs; edge discipline not analysed",
    "QRRTStar": "multilevel (as QRRT)",
    "QMP": "multilevel (as QRRT)",
    "QMPStar": "multilevel (as QRRT)",
}
# planners exempt from the strict form whose reported path *vertices* are nevertheless states they validated one by one
# (sampled valid states, or the `lastValid` state of a 3-argument checkMotion): an invalid vertex is a failure (clause
# `vertex`).  Not in this list: PDST (split points), AnytimePathShortening (simplifier's interpolated states), the
# multilevel planners.  RRT / RRTConnect with intermediate states ARE in it (round 7, F110 - fixed): the flag is documented as
# adding "the intermediate states generated along motions" - the states the motion validator generated and looked at -
# so every tree vertex, hence every path state, is a state that was answered valid; PathGeometric::check() (the
# library's own definition of a valid path, an anchor of this property) fails on a path with an invalid state.  Only the
# vertices are demanded, not a re-run of checkMotion on the sub-pairs: those are pieces of ONE validated motion, not
# individually validated motions, and validSegmentCount of a piece of length ~ longestValidSegment is 1 or 2 by rounding.
VERTEX_VALID = {"KPIECE1", "BKPIECE1", "LBKPIECE1", "STRIDE", "RLRT", "BiRLRT", "EITstar", "EIRMstar",
                "RRT+intermediate", "RRTConnect+intermediate"}
MULTITHREADED = {"pRRT", "pSBL", "CForest", "AnytimePathShortening"}
# The (asymmetric) Dubins space has hasSymmetricInterpolate() == false: the curve from b to a is not the reverse of the
# curve from a to b.  Which planners are run on it is derived from what their own source does about direction:
#   DIRECTION_AWARE  - two trees, and the code validates goal-tree motions in the direction they are travelled
#                      (RRTConnect.cpp: `tgi.start ? checkMotion(nmotion, dstate) : isValid(dstate) && checkMotion(dstate,
#                      nmotion)`; BiTRRT.cpp: `tree == tStart_ ? checkMotion(nearest, toMotion) : isValid(toMotion) &&
#                      checkMotion(toMotion, nearest)`, and the matching interpolate calls) - they claim support;
#   FORWARD_ONLY     - one tree rooted at the start, every motion validated parent -> child, no rewiring: the path runs in
#                      the direction every motion was validated;
#   everything in NOT_ASYMMETRIC does not handle non-symmetric interpolation, with the reason; those run on Reeds-Shepp
#   (symmetric) only.  The symmetric Dubins variant is not used: its interpolation is not prefix-consistent (C07).
# Held to the strict oracle *in the direction of travel* on asymmetric Dubins: DIRECTION_AWARE + FORWARD_ONLY (minus the
# NOT_STRICT ones, which get the gap / vertex forms).
DIRECTION_AWARE = {"RRTConnect", "BiTRRT"}
FORWARD_ONLY = {"RRT", "LazyRRT", "TRRT", "RLRT", "EST", "ProjEST", "KPIECE1", "PDST", "STRIDE", "FMT", "SST", "pRRT"}
NOT_ASYMMETRIC = {
    "RRTstar": "setup() warns: 'requires a state space with symmetric distance and symmetric interpolation'",
    "InformedRRTstar": "derives from RRTstar (requires symmetric interpolation)",
    "SORRTstar": "derives from RRTstar (requires symmetric interpolation)",
    "RRTXstatic": "setup() warns: requires symmetric distance and interpolation",
    "RRTsharp": "derives from RRTXstatic (requires symmetric interpolation)",
    "LBTRRT": "rewires through a shared lower-bound graph (considerEdge / checkMotion(potential_parent, motion)); no symmetry handling",
    "LazyLBTRRT": "undirected boost graphs; edges validated once, used in either direction",
    "BiEST": "both trees call checkMotion(existing, xstate): goal-tree motions are validated parent -> child, travelled child -> parent",
    "SBL": "both trees validate checkMotion(parent, child) in isPathValid; the goal tree is travelled child -> parent",
    "pSBL": "as SBL",
    "BKPIECE1": "both trees call checkMotion(existing, xstate, lastValid); no direction handling",
    "LBKPIECE1": "isPathValid validates checkMotion(parent, child) for both trees",
    "BiRLRT": "both trees call checkMotion(randomMotion, xmotion[, lastValid]); no direction handling",
    "BFMT": "both trees call checkMotion(xMin, x); the backward tree is travelled against that direction",
    "PRM": "undirected roadmap: an edge is validated once (checkMotion(n, m)) and used in either direction",
    "PRMstar": "as PRM", "LazyPRM": "undirected roadmap (lazy)", "LazyPRMstar": "as LazyPRM",
    "SPARS": "undirected roadmap", "SPARStwo": "undirected roadmap",
    "BITstar": "undirected edge queue over an implicit RGG", "ABITstar": "as BITstar",
    "AITstar": "forward and reverse searches share edge validity", "EITstar": "forward and reverse searches share edge validity",
    "EIRMstar": "as EITstar",
    "CForest": "runs RRTstar instances (requires symmetric interpolation)",
    "AnytimePathShortening": "runs default planners (LBKPIECE1 / RRTConnect) and shortcuts with PathSimplifier; not direction-safe as a whole",
    "Lightning": "stored experiences are undirected state sequences; repair sub-planner and PathSimplifier (see F170) are not direction-safe",
}
DIRECTED_SAFE = DIRECTION_AWARE | FORWARD_ONLY
assert set(GEOMETRIC + EXTRA) == DIRECTED_SAFE | set(NOT_ASYMMETRIC) and not (DIRECTED_SAFE & set(NOT_ASYMMETRIC))


def car_kind(name, k):
    """the car-like space kind number k (0, 1, ...) for a planner"""
    if name in DIRECTED_SAFE:
        return ["dubins", "rs"][k % 2]
    return "rs"
SOLUTION = ("EXACT_SOLUTION", "APPROXIMATE_SOLUTION")
WATCHDOG = [45]          # seconds before a run that neither returns nor polls its termination condition is killed


def f2b(x):
    return str(struct.unpack("<Q", struct.pack("<d", float(x)))[0])


def b2f(s):
    return struct.unpack("<d", struct.pack("<Q", int(s)))[0]


# ---------------------------------------------------------------------------------- problems
class Problem:
    """one planning problem + planner settings; everything needed to rebuild the harness input."""

    def __init__(self, kind, lo, hi, pdim, boxes, res, starts, goal, thr, planner, seed, budget, pollcap,
                 rng=None, interm=None, bias=None, mode="run", trace=0, tag="random", rho=1.0, costthr=None, oneway=None,
                 hist=None, goals2=None, blind=0, calls=None):
        self.kind, self.lo, self.hi, self.pdim, self.boxes = kind, list(lo), list(hi), pdim, [tuple(b) for b in boxes]
        self.res, self.starts, self.goal, self.thr = res, [list(s) for s in starts], list(goal), thr
        self.planner, self.seed, self.budget, self.pollcap = planner, seed, budget, pollcap
        self.rng, self.interm, self.bias, self.mode, self.trace, self.tag, self.rho = rng, interm, bias, mode, trace, tag, rho
        self.costthr = costthr
        self.oneway = oneway        # (lo0, lo1, hi0, hi1): motions in -x direction touching this box are invalid
        self.hist = list(hist) if hist else None    # mode history: the calls made on one RRT object (harness tokens)
        self.goals2 = [list(g) for g in goals2] if goals2 else []   # further goal states: the goal is a GoalStates
        self.blind = blind      # 1: the user's validity checker does collision checking only (no satisfiesBounds call)
        # mode run: calls made on the SAME planner object / problem definition before the judged solve (resume histories):
        # solve:<budget> | clear | clearsol | opendoor (the last box disappears)
        self.calls = list(calls) if calls else []

    def clone(self, **kw):
        d = dict(kind=self.kind, lo=self.lo, hi=self.hi, pdim=self.pdim, boxes=self.boxes, res=self.res, starts=self.starts,
                 goal=self.goal, thr=self.thr, planner=self.planner, seed=self.seed, budget=self.budget,
                 pollcap=self.pollcap, rng=self.rng, interm=self.interm, bias=self.bias, mode=self.mode, trace=self.trace,
                 tag=self.tag, rho=self.rho, costthr=self.costthr, oneway=self.oneway, hist=self.hist, goals2=self.goals2, blind=self.blind, calls=self.calls)
        d.update(kw)
        return Problem(**d)

    # ---- geometry of the space, recomputed here (independent of OMPL)
    def env_at(self, k=None):
        """the problem with the boxes in force at call k of `calls` (None: at the final, judged solve)"""
        ops = self.calls if k is None else self.calls[:k]
        n = sum(1 for t in ops if t == "opendoor")
        return self if n == 0 else self.clone(boxes=self.boxes[:max(0, len(self.boxes) - n)])

    def all_goals(self):
        return [self.goal] + self.goals2

    def goal_dist(self, x):
        """GoalState / GoalStates::distanceGoal recomputed: the minimum over the goal states (None: not elementary)"""
        ds = [self.dist(x, g) for g in self.all_goals()]
        return None if any(d is None for d in ds) else min(ds)

    def posdim(self):
        return {"rv": len(self.lo), "se2": 2, "se3": 3, "dubins": 2, "dubsym": 2, "rs": 2}[self.kind]

    def nreals(self):
        return {"rv": len(self.lo), "se2": 3, "se3": 7, "dubins": 3, "dubsym": 3, "rs": 3}[self.kind]

    def linear_position(self):
        return self.kind in ("rv", "se2", "se3")

    def in_bounds(self, r):
        for i in range(self.posdim()):
            if r[i] - EPS > self.hi[i] or r[i] + EPS < self.lo[i]:
                return False
        if self.kind in ("se2", "dubins", "dubsym", "rs"):
            return -PI <= r[2] < PI
        if self.kind == "se3":
            n = math.sqrt(r[3] * r[3] + r[4] * r[4] + r[5] * r[5] + r[6] * r[6])
            return abs(n - 1.0) < 1e-9
        return True

    def collides(self, r):
        for lo, hi in self.boxes:
            inside = True
            for d in range(self.pdim):
                if r[d] < lo[d] or r[d] > hi[d]:
                    inside = False
                    break
            if inside:
                return True
        return False

    def valid(self, r):
        return self.in_bounds(r) and not self.collides(r)

    def user_valid(self, r):
        """what the USER's validity checker answers: with `boundsblind 1` it does collision checking only, so a state
        outside the bounds is not 'invalid space' (the bounds are their own clause)"""
        if self.blind:
            return not self.collides(r)
        return self.valid(r)

    def blocked(self, a, b):
        """the one-way rule of the harness's OneWayValidator: a motion a -> b in -x direction that touches the box"""
        if self.oneway is None or not (b[0] < a[0]):
            return False
        lo, hi = self.oneway[:2], self.oneway[2:]
        return seg_box_interval(a, b, lo, hi, 2) is not None

    def dist(self, a, b):
        """the space's distance where it is elementary; None otherwise (Dubins / Reeds-Shepp: C14's business)."""
        def rv(n):
            s = 0.0
            for i in range(n):
                d = a[i] - b[i]
                s += d * d
            return math.sqrt(s)
        if self.kind == "rv":
            return rv(len(self.lo))
        if self.kind == "se2":
            d = abs(a[2] - b[2])
            so2 = 2.0 * PI - d if d > PI else d
            return 0.0 + 1.0 * rv(2) + 0.5 * so2
        if self.kind == "se3":
            dq = abs(a[3] * b[3] + a[4] * b[4] + a[5] * b[5] + a[6] * b[6])
            so3 = 0.0 if dq > 1.0 - 1e-9 else math.acos(dq)
            return 0.0 + 1.0 * rv(3) + 1.0 * so3
        return None

    def same_state(self, a, b):
        """equalStates of the space, recomputed: reals within 2*epsilon (SO(3): same rotation)."""
        n = self.posdim()
        if any(abs(a[i] - b[i]) > 2 * EPS for i in range(n)):
            return False
        if self.kind in ("se2", "dubins", "dubsym", "rs"):
            return abs(a[2] - b[2]) < 2 * EPS
        if self.kind == "se3":
            dq = abs(a[3] * b[3] + a[4] * b[4] + a[5] * b[5] + a[6] * b[6])
            return dq > 1.0 - 1e-9
        return True

    # ---- protocol
    def space_line(self):
        lohi = " ".join(map(f2b, self.lo)) + " " + " ".join(map(f2b, self.hi))
        if self.kind == "rv":
            return "space rv %d %s" % (len(self.lo), lohi)
        if self.kind in ("se2", "se3"):
            return "space %s %s" % (self.kind, lohi)
        if self.kind in ("dubins", "dubsym"):
            return "space dubins %s %d %s" % (f2b(self.rho), 1 if self.kind == "dubsym" else 0, lohi)
        return "space rs %s %s" % (f2b(self.rho), lohi)

    def boxes_line(self):
        parts = ["boxes", str(self.pdim), str(len(self.boxes))]
        for lo, hi in self.boxes:
            parts += list(map(f2b, lo)) + list(map(f2b, hi))
        return " ".join(parts)

    def script(self):
        L = ["planners", self.space_line(), self.boxes_line(), "res " + f2b(self.res)]
        for s in self.starts:
            L.append("start " + " ".join(map(f2b, s)))
        L += ["goal " + " ".join(map(f2b, g)) for g in self.all_goals()]
        L += ["thr " + f2b(self.thr), "planner " + self.planner]
        if self.rng is not None:
            L.append("range " + f2b(self.rng))
        if self.interm is not None:
            L.append("interm %d" % self.interm)
        if self.bias is not None:
            L.append("goalbias " + f2b(self.bias))
        if self.costthr is not None:
            L.append("costthr " + self.costthr)
        if self.oneway is not None:
            L.append("oneway " + " ".join(map(f2b, self.oneway)))
        if self.hist:
            L.append("hist " + " ".join(self.hist))
        if self.blind:
            L.append("boundsblind 1")
        if self.calls:
            L.append("calls " + " ".join(self.calls))
        L += ["seed %d" % self.seed, "budget %d %d" % (self.budget, self.pollcap), "mode " + self.mode,
              "trace %d" % self.trace, "watchdog %d" % WATCHDOG[0], "go"]
        return L

    def key(self):
        return (self.planner, self.tag, self.kind, self.seed, self.budget, tuple(self.script()))

    def describe(self):
        return {"planner": self.planner, "space": self.kind, "dim": len(self.lo), "boxes": len(self.boxes), "res": self.res,
                "thr": self.thr, "range": self.rng, "interm": self.interm, "seed": self.seed, "budget": self.budget,
                "starts": len(self.starts), "tag": self.tag}


def rand_state(r, kind, lo, hi):
    pos = [r.uniform(lo[i], hi[i]) for i in range(len(lo))]
    if kind in ("se2", "dubins", "dubsym", "rs"):
        return pos + [r.uniform(-PI, PI * 0.999)]
    if kind == "se3":
        q = [r.uniform(-1, 1) for _ in range(4)]
        n = math.sqrt(sum(x * x for x in q)) or 1.0
        if n < 1e-3:
            q, n = [0.0, 0.0, 0.0, 1.0], 1.0
        return pos + [x / n for x in q]
    return pos


def gen_env(r, kind, nboxes=None, pdim=None):
    """random bounds + boxes + a valid start and goal."""
    d = {"rv2": 2, "rv3": 3, "rv4": 4, "se2": 2, "se3": 3, "dubins": 2, "dubsym": 2, "rs": 2}[kind]
    k = "rv" if kind.startswith("rv") else kind
    off = r.choice([0.0, 0.0, -2.0, 5.0])
    scale = r.choice([1.0, 1.0, 4.0])
    lo = [off] * d
    hi = [off + scale * r.choice([1.0, 1.0, 1.5]) for _ in range(d)]
    if pdim is None:
        pdim = d
    nb = r.below(9) if nboxes is None else nboxes
    boxes = []
    for _ in range(nb):
        c = [r.uniform(lo[i], hi[i]) for i in range(pdim)]
        h = [r.uniform(0.02, 0.2) * (hi[i] - lo[i]) for i in range(pdim)]
        boxes.append(([c[i] - h[i] for i in range(pdim)], [c[i] + h[i] for i in range(pdim)]))
    p = Problem(k, lo, hi, pdim, boxes, 0.01, [], [], 0.0, "RRT", 0, 0, 0, rho=0.15 * scale)

    def pick():
        for _ in range(200):
            s = rand_state(r, k, lo, hi)
            if p.valid(s):
                return s
        p.boxes = []
        return rand_state(r, k, lo, hi)
    p.starts = [pick()]
    p.goal = pick()
    ext = math.sqrt(sum((hi[i] - lo[i]) ** 2 for i in range(d)))
    p.thr = r.choice([0.02, 0.05, 0.1]) * ext
    p.res = r.choice([0.005, 0.01, 0.01, 0.02, 0.05])
    return p


def extent(p):
    e = math.sqrt(sum((p.hi[i] - p.lo[i]) ** 2 for i in range(len(p.lo))))
    if p.kind in ("se2", "dubins", "dubsym", "rs"):
        e += 0.5 * PI
    if p.kind == "se3":
        e += 0.5 * PI
    return e


def gen_adversarial(r, which):
    """the adversarial generator of DESIGN 2.1; returns a Problem (planner/seed/budget filled in by the caller)."""
    kind = r.choice(["rv2", "rv2", "rv3"])
    p = gen_env(r, kind, nboxes=r.below(5))
    d = len(p.lo)
    ext = extent(p)
    p.tag = "adv:" + which
    if which == "goal-in-obstacle":
        g = p.goal
        h = [0.05 * (p.hi[i] - p.lo[i]) for i in range(p.pdim)]
        p.boxes.append(([g[i] - h[i] for i in range(p.pdim)], [g[i] + h[i] for i in range(p.pdim)]))
        p.thr = r.choice([0.02, 0.3]) * ext       # the larger threshold reaches beyond the obstacle
        if not p.valid(p.starts[0]):
            p.starts = [[p.lo[i] + 0.01 * (p.hi[i] - p.lo[i]) for i in range(d)]]
            p.boxes = p.boxes[-1:]
    elif which == "start-on-bounds":
        s = list(p.starts[0])
        i = r.below(d)
        s[i] = p.lo[i] if r.chance(1, 2) else p.hi[i]
        p.boxes = [b for b in p.boxes if not p.clone(boxes=[b]).collides(s)]
        p.starts = [s]
    elif which == "bad-starts":
        # an out-of-bounds start, an in-obstacle start and (mostly) a good one, in random order
        good = p.starts[0]
        oob = list(good)
        i = r.below(d)
        oob[i] = p.hi[i] + r.choice([1e-9, 0.01, 0.5]) * (p.hi[i] - p.lo[i])
        inobs = list(good)
        h = [0.03 * (p.hi[j] - p.lo[j]) for j in range(p.pdim)]
        c = [min(max(good[j] + 0.2 * (p.hi[j] - p.lo[j]) * (1 if good[j] < (p.lo[j] + p.hi[j]) / 2 else -1), p.lo[j]), p.hi[j])
             for j in range(p.pdim)]
        box = ([c[j] - h[j] for j in range(p.pdim)], [c[j] + h[j] for j in range(p.pdim)])
        if not p.clone(boxes=[box]).collides(good) and not p.clone(boxes=[box]).collides(p.goal):
            p.boxes.append(box)
            inobs = c + good[p.pdim:]
        starts = [oob, inobs]
        if not r.chance(1, 4):
            starts.append(good)
        r.shuffle(starts)
        p.starts = starts
    elif which == "zero-threshold":
        p.thr = 0.0
    elif which == "range-zero":
        p.rng = 0.0
    elif which == "range-tiny":
        p.rng = 0.004 * ext
    elif which == "range-huge":
        p.rng = 5.0 * ext
    elif which == "thin-corridor":
        # a wall across the first axis with a slit narrower than the resolution length; start and goal on either side
        p.res = r.choice([0.02, 0.05])
        lvs = p.res * math.sqrt(sum((p.hi[i] - p.lo[i]) ** 2 for i in range(d)))
        x = p.lo[0] + 0.5 * (p.hi[0] - p.lo[0])
        w = r.choice([0.3, 1.5, 3.0]) * lvs          # wall thickness: thinner or thicker than the resolution
        slit = r.choice([0.2, 0.6]) * lvs
        y = p.lo[1] + r.uniform(0.2, 0.8) * (p.hi[1] - p.lo[1])
        lo1 = [x - w / 2, p.lo[1] - 1.0] + [p.lo[i] - 1.0 for i in range(2, p.pdim)]
        hi1 = [x + w / 2, y - slit / 2] + [p.hi[i] + 1.0 for i in range(2, p.pdim)]
        lo2 = [x - w / 2, y + slit / 2] + [p.lo[i] - 1.0 for i in range(2, p.pdim)]
        hi2 = [x + w / 2, p.hi[1] + 1.0] + [p.hi[i] + 1.0 for i in range(2, p.pdim)]
        p.boxes = [(lo1, hi1), (lo2, hi2)]
        s = [p.lo[i] + r.uniform(0.1, 0.9) * (p.hi[i] - p.lo[i]) for i in range(d)]
        g = list(s)
        s[0] = p.lo[0] + 0.15 * (p.hi[0] - p.lo[0])
        g[0] = p.lo[0] + 0.85 * (p.hi[0] - p.lo[0])
        p.starts, p.goal = [s], g
        p.thr = 0.03 * ext
    elif which == "thin-walls":
        # many obstacles thinner than the resolution length (legitimately jumped over by every planner)
        lvs = p.res * math.sqrt(sum((p.hi[i] - p.lo[i]) ** 2 for i in range(d)))
        bx = []
        for _ in range(6):
            c = [r.uniform(p.lo[i], p.hi[i]) for i in range(p.pdim)]
            h = [r.uniform(0.05, 0.3) * (p.hi[i] - p.lo[i]) for i in range(p.pdim)]
            h[r.below(p.pdim)] = r.uniform(0.05, 0.45) * lvs
            b = ([c[i] - h[i] for i in range(p.pdim)], [c[i] + h[i] for i in range(p.pdim)])
            q = p.clone(boxes=[b])
            if not q.collides(p.starts[0]) and not q.collides(p.goal):
                bx.append(b)
        p.boxes = bx
    elif which == "start-is-goal":
        p.goal = list(p.starts[0])
    return p


# callers of the 3-argument checkMotion(s1, s2, lastValid) (grep over src/ompl/geometric/planners): they get many more runs
# of the short-motion class.  Of these, KPIECE1 and LBKPIECE1 hand it end states nobody validated before; BKPIECE1 and
# STRIDE sample the end state with a *valid* state sampler, RLRT / BiRLRT use it only in keep-last mode, PDST on long motions.
def gen_multigoal(r, kind=None):
    """a GoalStates goal: 2-4 goal states, some of them inside an obstacle, outside the bounds or equal to another one, in
    random order (so the FIRST state sampleGoal hands out may be unusable).  The path must end at a usable one; the
    reported difference of an approximate solution is the distance to the NEAREST goal state."""
    env = gen_env(r, kind or r.choice(["rv2", "rv2", "rv3", "se2"]), nboxes=3 + r.below(5))
    k = env.kind
    ext = extent(env)

    def some(what):
        for _ in range(100):
            x = rand_state(r, k, env.lo, env.hi)
            if what == "valid" and env.valid(x):
                return x
            if what == "invalid" and env.collides(x):
                return x
        x = rand_state(r, k, env.lo, env.hi)
        if what == "outside":
            x[r.below(env.posdim())] = env.hi[0] + 0.3 * ext
        return x
    goals = [env.goal]
    for _ in range(1 + r.below(3)):
        what = r.choice(["valid", "valid", "invalid", "outside", "dup"])
        goals.append(list(goals[r.below(len(goals))]) if what == "dup" else some(what))
    for i in range(len(goals) - 1, 0, -1):          # shuffle
        j = r.below(i + 1)
        goals[i], goals[j] = goals[j], goals[i]
    env.goal, env.goals2 = goals[0], goals[1:]
    env.thr = r.choice([0.0, 0.02, 0.05]) * ext
    env.tag = "multi-goal"
    return env


def gen_resume(r, kind, variant):
    """resume histories for EVERY planner: unit box, a wall at x in [0.45, 0.55] with one doorway; the LAST box is a plug
    that seals the doorway (the goal is then unreachable: planners that report approximate solutions return
    APPROXIMATE_SOLUTION).  The same planner object and problem definition then go through further solve() calls:
      sealed      solve (sealed) ; solve (still sealed)               - must stay approximate, never turn exact
      opened      solve (sealed) ; opendoor ; solve                    - approximate first, then possibly exact
      exact       solve (open, big budget) ; [clearsol] ; solve        - solve -> exact -> resume
      short       solve (open, tiny budget) ; solve ; solve            - approximate / exact in any order
      cleared     solve (sealed) ; clear ; opendoor ; solve            - clear() in between: a fresh start
    Every call's report goes through path_is_real (status / flag / difference agree with the last state, ...)."""
    d = 3 if kind == "rv3" else 2
    k = "se2" if kind == "se2" else "rv"
    lo, hi = [0.0] * d, [1.0] * d
    c = r.uniform(0.25, 0.75)
    w = r.uniform(0.06, 0.1)
    boxes = [([0.45, -0.1], [0.55, c - w]), ([0.45, c + w], [0.55, 1.1])]
    plug = ([0.45, c - w - 0.001], [0.55, c + w + 0.001])
    sealed = variant in ("sealed", "opened", "cleared")
    p = Problem(k, lo, hi, 2, boxes + ([plug] if sealed else []), r.choice([0.01, 0.015, 0.02]), [], [], 0.0, "RRT", 0, 0, 0)

    def pick(x0, x1):
        for _ in range(200):
            s = rand_state(r, k, [x0] + lo[1:], [x1] + hi[1:])
            if p.valid(s):
                return s
        return rand_state(r, k, [x0] + lo[1:], [x1] + hi[1:])
    p.starts = [pick(0.05, 0.38)]
    p.goal = pick(0.62, 0.95)
    p.thr = r.choice([0.02, 0.04])
    b1 = r.choice([300, 1200])
    if variant == "sealed":
        p.calls = ["solve:%d" % b1] + (["solve:%d" % r.choice([200, 800])] if r.below(3) == 0 else [])
    elif variant == "opened":
        p.calls = ["solve:%d" % b1, "opendoor"]
    elif variant == "exact":
        p.calls = ["solve:%d" % r.choice([4000, 8000])] + (["clearsol"] if r.below(3) == 0 else [])
    elif variant == "short":
        p.calls = ["solve:%d" % r.choice([60, 200]), "solve:%d" % r.choice([200, 1500])]
    else:
        p.calls = ["solve:%d" % b1, "clear", "opendoor"]
    p.tag = "resume:" + variant
    return p


RESUME_VARIANTS = ["sealed", "opened", "exact", "short", "cleared"]


def gen_boundsblind(r, kind, outside_goal=False):
    """the user's validity checker does collision checking only (`boundsblind 1`; allowed by the StateValidityChecker
    documentation when interpolation cannot leave the bounds): keeping path states inside the bounds is then entirely the
    planner's and the samplers' business.  Unit box, 0-2 small boxes, start near the centre, goal in a corner, range
    comparable to the size of the space (steps that overshoot a sampled state leave the box unless clamped)."""
    d = 3 if kind == "rv3" else 2
    k = "se2" if kind == "se2" else "rv"
    lo, hi = [0.0] * d, [1.0] * d
    boxes = []
    for _ in range(r.below(3)):
        c = [r.uniform(0.2, 0.8) for _ in range(d)]
        h = [r.uniform(0.03, 0.08) for _ in range(d)]
        boxes.append(([c[i] - h[i] for i in range(d)], [c[i] + h[i] for i in range(d)]))
    p = Problem(k, lo, hi, d, boxes, r.choice([0.01, 0.02]), [], [], 0.0, "RRT", 0, 0, 0, blind=1)
    tail = rand_state(r, k, lo, hi)[d:]

    def free(x):
        if p.collides(x):
            p.boxes = []
        return x
    p.starts = [free([r.uniform(0.4, 0.6) for _ in range(d)] + tail)]
    corner = [r.choice([0.0, 1.0]) for _ in range(d)]
    off = r.uniform(0.03, 0.08)
    p.goal = free([c + off if c == 0.0 else c - off for c in corner] + tail)
    if outside_goal:
        # a second goal state OUTSIDE the bounds: PlannerInputStates::nextGoal filters it, a direct sampleGoal does not
        g2 = list(p.goal)
        g2[0] = 1.0 + r.uniform(0.05, 0.3)
        p.goals2 = [g2]
        if r.below(2):
            p.goal, p.goals2 = g2, [p.goal]
    p.thr = r.choice([0.02, 0.03, 0.05])
    p.rng = r.choice([1.0, 1.0, 1.0, 1.0, 0.7, 1.4, 2.0, 0.5])      # the side of the box, mostly
    p.tag = "bounds-blind" + (":outside-goal" if outside_goal else "")
    return p


# planners whose solve() calls goal->sampleGoal() DIRECTLY (goal biasing), i.e. not through PlannerInputStates::nextGoal and
# its satisfiesBounds / isValid filter (grep "sampleGoal(" under src/ompl/geometric/planners): with a goal state outside
# the bounds and a collision-only validity checker they grow the tree out of the box (known finding F310)
DIRECT_GOAL_SAMPLERS = {"RRT", "RRTstar", "InformedRRTstar", "SORRTstar", "RRTsharp", "RRTXstatic", "LazyRRT", "TRRT", "LBTRRT",
                        "LazyLBTRRT", "RLRT", "EST", "ProjEST", "KPIECE1", "PDST", "STRIDE", "SST", "pRRT",
                        "CForest"}       # CForest: its worker planners are RRTstar instances
# bounds-blind runs per planner in the quick tier; SST takes Monte-Carlo steps of random length along a sampled direction
# (interpolation parameter step / d > 1 extrapolates), so it gets more of the large-range / corner-goal configurations
BLIND_RUNS = {"SST": 36}


THREE_ARG = {"KPIECE1", "BKPIECE1", "LBKPIECE1", "PDST", "RLRT", "BiRLRT", "STRIDE"}
# evaluation budgets of the short-motion class (tiny range => many nodes; these planners get slow with many nodes)
SHORT_BUDGET = {"LBTRRT": 4000, "LazyPRM": 8000, "LazyPRMstar": 8000, "LazyLBTRRT": 8000}


def gen_short_motion(r, wall):
    """the "short-motion" class: range * sqrt(dim) <= longestValidSegment, so that every extension is a motion of ONE valid
    segment (validSegmentCount == 1: only the end state is looked at), with a wall between start and goal that has a door.
    wall = "thin": thinner than the resolution length (a state landing in it is an invalid vertex);
    wall = "thick": 2.6 x the resolution length (tunnelling through it is an invalid stretch > 2 x resolution)."""
    d = r.choice([2, 2, 3])
    off = r.choice([0.0, 0.0, -2.0])
    lo, hi = [off] * d, [off + 1.0] * d
    res = r.choice([0.05, 0.08, 0.1])
    ext = math.sqrt(d)
    lvs = res * ext
    rng = r.uniform(0.45, 0.85) * lvs / math.sqrt(d)
    w = r.uniform(0.8, 1.6) * rng if wall == "thin" else 2.6 * lvs
    if wall == "thin":
        w = min(w, 0.9 * lvs)
    x = off + r.uniform(0.4, 0.6)
    door = 3.0 * lvs
    y = off + r.uniform(0.25, 0.75)
    big = 5.0
    lo1 = [x - w / 2, off - big] + [off - big] * (d - 2)
    hi1 = [x + w / 2, y - door / 2] + [off + big] * (d - 2)
    lo2 = [x - w / 2, y + door / 2] + [off - big] * (d - 2)
    hi2 = [x + w / 2, off + big] + [off + big] * (d - 2)
    s = [off + r.uniform(0.15, 0.85) for _ in range(d)]
    g = [off + r.uniform(0.15, 0.85) for _ in range(d)]
    s[0], g[0] = off + r.uniform(0.08, 0.2), off + r.uniform(0.8, 0.92)
    p = Problem("rv", lo, hi, d, [(lo1, hi1), (lo2, hi2)], res, [s], g, max(2.0 * rng, 0.04 * ext), "RRT", 0, 0, 0, rng=rng,
                tag="short-motion:" + wall)
    return p


def gen_interm(r):
    """the "intermediate-states" class (RRT / RRTConnect with intermediate_states=1): a wall thinner than the resolution
    length and motions several valid segments long, so that a motion may legitimately step over the wall between two of
    its j/n check points - the states then ADDED to the tree must be the states that were checked, not other points of
    the same motion (F110: getMotionStates is handed the segment count as the number of interior states and returns the
    j/(n+1) points, which nobody looked at; fixed by fdd06210b, a revert shows as clause `vertex`)."""
    d = r.choice([2, 2, 3])
    off = r.choice([0.0, 0.0, -2.0])
    lo, hi = [off] * d, [off + 1.0] * d
    res = r.choice([0.03, 0.05, 0.08])
    lvs = res * math.sqrt(d)
    rng = r.uniform(2.5, 7.0) * lvs
    if r.below(3) == 0:
        rng = float(r.choice([2, 3, 4, 5, 6])) * lvs  # boundary: the range is an exact multiple of the resolution length
    boxes = []
    for k in range(r.choice([1, 2, 3])):
        w = r.uniform(0.35, 0.9) * lvs
        x = off + r.uniform(0.3, 0.7)
        boxes.append(([x - w / 2] + [off - 5.0] * (d - 1), [x + w / 2] + [off + 5.0] * (d - 1)))
    s = [off + r.uniform(0.1, 0.9) for _ in range(d)]
    g = [off + r.uniform(0.1, 0.9) for _ in range(d)]
    s[0], g[0] = off + r.uniform(0.05, 0.2), off + r.uniform(0.8, 0.95)
    return Problem("rv", lo, hi, d, boxes, res, [s], g, r.choice([0.0, 0.05, 2.0 * lvs]), "RRT", 0, 0, 0, rng=rng,
                   interm=1, tag="intermediate-states")


def gen_dubins_directed(r):
    """asymmetric Dubins, small turning radius (0.03-0.07 in the unit square) and 15-25 small boxes: many narrow passages
    around which the curve b -> a is free while a -> b collides (and vice versa).  Tuned against a BiTRRT variant that
    validates goal-tree motions in the wrong direction: about 16 % of such runs then report an edge that fails in the
    direction of travel (200-run trials; larger radii or fewer boxes gave 0-10 %)."""
    lo, hi = [0.0, 0.0], [1.0, 1.0]
    p = Problem("dubins", lo, hi, 2, [], r.choice([0.005, 0.01]), [], [], 0.0, "RRTConnect", 0, 0, 0,
                rho=r.uniform(0.03, 0.07), tag="dubins-directed")
    p.starts = [rand_state(r, "dubins", [0.05, 0.05], [0.95, 0.95])]
    p.goal = rand_state(r, "dubins", [0.05, 0.05], [0.95, 0.95])
    boxes = []
    for _ in range(r.range(15, 25)):
        c = [r.uniform(0.05, 0.95), r.uniform(0.05, 0.95)]
        h = [r.uniform(0.015, 0.05), r.uniform(0.015, 0.05)]
        b = ([c[0] - h[0], c[1] - h[1]], [c[0] + h[0], c[1] + h[1]])
        q = p.clone(boxes=[b])
        if not q.collides(p.starts[0]) and not q.collides(p.goal):
            boxes.append(b)
    p.boxes = boxes
    p.thr = 0.05 * extent(p)
    return p


def gen_oneway(r, reverse):
    """a direction-sensitive validator on a symmetric space (lens (e)): R^2 or SE(2), a one-way box across most of the
    height with a door; `reverse`: the start is on the high-x side, so the direct way to the goal travels -x through
    the box (forbidden) and only the door is legitimate - a planner that validated goal-tree motions parent -> child
    accepts the forbidden crossing."""
    kind = r.choice(["rv2", "rv2", "se2"])
    p = gen_env(r, kind, nboxes=r.below(3))
    p.lo, p.hi = [0.0, 0.0], [1.0, 1.0]
    p.boxes = [b for b in p.boxes if b[1][0] < 0.38 or b[0][0] > 0.62]
    door = r.uniform(0.15, 0.25)
    if r.chance(1, 2):
        box = [0.45, door, 0.55, 1.2]          # door at the bottom
    else:
        box = [0.45, -0.2, 0.55, 1.0 - door]   # door at the top
    p.oneway = box
    tail = p.starts[0][2:]
    hi_side = [r.uniform(0.72, 0.92), r.uniform(0.1, 0.9)]
    lo_side = [r.uniform(0.08, 0.28), r.uniform(0.1, 0.9)]
    s, g = (hi_side, lo_side) if reverse else (lo_side, hi_side)
    p.starts, p.goal = [s + tail], g + p.goal[2:]
    p.boxes = [b for b in p.boxes if not p.clone(boxes=[b]).collides(p.starts[0]) and not p.clone(boxes=[b]).collides(p.goal)]
    p.thr = 0.05 * extent(p)
    p.res = 0.01
    p.tag = "oneway:" + ("reverse" if reverse else "forward")
    return p


ADVERSARIAL = ["goal-in-obstacle", "start-on-bounds", "bad-starts", "zero-threshold", "range-zero", "range-tiny",
               "range-huge", "thin-corridor", "thin-walls", "start-is-goal"]


# ---------------------------------------------------------------------------------- running + parsing
def parse_states(tokens):
    return [[b2f(x) for x in t.split(",")] for t in tokens]


def kv(tokens):
    out = {}
    for t in tokens:
        if "=" in t:
            a, b = t.split("=", 1)
            out[a] = b
    return out


def parse_run(lines):
    R = {"sols": [], "starts": [], "draws": [], "L": [], "queries_log": [], "done": False}
    for ln in lines:
        try:
            parse_line(R, ln)
        except (KeyError, ValueError, IndexError):
            # a line cut short because the process was killed (watchdog) or died while printing: the run has no `done`
            # line / a non-zero exit code and is judged as a hang or crash
            R["truncated"] = True
    return R


def parse_line(R, ln):
    if True:
        t = ln.split()
        if not t:
            return
        k = t[0]
        if k == "cfg":
            d = kv(t[1:])
            R["lvs"], R["extent"] = b2f(d["lvs"]), b2f(d["extent"])
            R["cfg"] = d
        elif k == "status":
            R["status"], R["bool"] = t[1], kv(t[2:])["bool"] == "1"
        elif k == "pdef":
            d = kv(t[1:])
            R["before"], R["after"] = int(d["before"]), int(d["after"])
            if "approx" in d:
                R["pd_approx"], R["pd_diff"] = d["approx"] == "1", b2f(d["diff"])
        elif k == "startinfo":
            R["starts"].append({"inb": t[2] == "inb=1", "r": [b2f(x) for x in t[3:]]})
        elif k == "goalinfo":
            R["thr"], R["goal"] = b2f(kv(t[1:2])["thr"]), [b2f(x) for x in t[2:]]
        elif k == "sol":
            if len(t) > 2 and t[2] == "not-geometric":
                R["sols"].append({"bad": "not-geometric", "states": [], "edges": {}, "dense": {}})
                return
            d = kv(t[2:])
            R["sols"].append({"approx": d["approx"] == "1", "diff": b2f(d["diff"]), "n": int(d["n"]), "start": int(d["start"]),
                              "gdist": b2f(d["gdist"]), "gsat": d["gsat"] == "1", "planner": d.get("planner"),
                              "index": int(d.get("index", "0")),
                              "states": [], "inb": [], "edges": {}, "dense": {}})
        elif k == "st":
            s = R["sols"][int(t[1])]
            s["inb"].append(t[3] == "inb=1")
            s["states"].append([b2f(x) for x in t[4:]])
        elif k == "edge":
            d = kv(t[3:5])
            R["sols"][int(t[1])]["edges"][int(t[2])] = (int(d["n"]), b2f(d["d"]), parse_states(t[5:]))
        elif k == "dense":
            R["sols"][int(t[1])]["dense"][int(t[2])] = (int(kv(t[3:4])["m"]), parse_states(t[4:]))
        elif k == "disc":
            if len(t) > 2 and t[1] != "skipped":
                d = kv(t[3:])
                R.setdefault("disc", {})[int(t[2])] = (int(d["k"]), b2f(d["gap"]), b2f(d["t0"]), b2f(d["t1"]), b2f(d["d"]))
        elif k == "sols":
            R["sols_total"] = int(kv(t[1:])["total"])
        elif k == "queries":
            d = kv(t[1:])
            R["nq"], R["polls"] = int(d["n"]), int(d["polls"])
        elif k == "q":
            R["queries_log"].append((t[1] == "1", [b2f(x) for x in t[2:]]))
        elif k == "qb":
            R.setdefault("base_queries_log", []).append((t[1] == "1", [b2f(x) for x in t[2:]]))
        elif k == "pdata":
            R["pdata"] = kv(t[1:])
        elif k in ("draw", "astar"):
            R["draws"].append(ln)
        elif k == "L":
            R["L"].append(ln[2:])
        elif k == "H" and len(t) >= 3:
            R.setdefault("H", {}).setdefault(int(t[1]), []).append(ln.split(None, 2)[2])
        elif k in ("exception", "exception-setup"):
            R["exception"] = t[1] if len(t) > 1 else "?"
        elif k == "not-applicable":
            R["na"] = True
            R["done"] = True
        elif k == "aborted":
            R["aborted"] = True
        elif k == "done":
            R["done"] = True
        elif k == "bad-op":
            R["badop"] = ln


def run_problem(ck, hbin, p, timeout=300):
    # leaks are not this property's subject (several planners leak on the unchanged tree; see notes/C01.md)
    for attempt in range(8):
        out, rc, err = ck.run_bin(hbin, p.script(), timeout=timeout,
                                  env={"ASAN_OPTIONS": "detect_leaks=0:abort_on_error=0:exitcode=99"})
        if rc == 127 or "error while loading shared libraries" in (err or ""):
            # libompl.so is being relinked by a concurrent build of the cache: infrastructure, not a result
            time.sleep(4)
            continue
        break
    else:
        raise RuntimeError("harness could not be started (shared library unavailable): %s" % (err or "")[-300:])
    if out is None:
        return {"timeout": True, "rc": rc, "sols": [], "done": False, "stderr": ""}
    calls, rest, cur = [], [], None
    for ln in out:
        if ln.startswith("call ") and ln.endswith(" begin"):
            cur = (int(ln.split()[1]), [])
        elif ln.startswith("call ") and ln.endswith(" end") and cur is not None:
            Rk = parse_run(cur[1])
            Rk["done"], Rk["rc"], Rk["stderr"] = True, 0, ""
            calls.append((cur[0], Rk))
            cur = None
        elif cur is not None:
            cur[1].append(ln)
        else:
            rest.append(ln)
    if cur is not None:
        rest += cur[1]          # the process died inside this call: its lines belong to the (crashed) remainder
    R = parse_run(rest)
    R["calls"] = calls
    if rc == -14:
        R["timeout"] = True
    R["rc"], R["stderr"] = rc, (err or "")[-1500:]
    return R


# ---------------------------------------------------------------------------------- the spec oracle (L3)
def seg_box_interval(a, b, lo, hi, pdim):
    """parameter interval [t0, t1] of the segment a + t (b - a), t in [0, 1], inside the closed box; None if empty."""
    t0, t1 = 0.0, 1.0
    for d in range(pdim):
        da = b[d] - a[d]
        if da == 0.0:
            if a[d] < lo[d] or a[d] > hi[d]:
                return None
            continue
        u0, u1 = (lo[d] - a[d]) / da, (hi[d] - a[d]) / da
        if u0 > u1:
            u0, u1 = u1, u0
        t0, t1 = max(t0, u0), min(t1, u1)
        if t0 > t1:
            return None
    return t0, t1


def longest_invalid_exact(p, states, dists):
    """exact union of the in-obstacle stretches of a piecewise-linear path (position part), in path length.
    returns (longest stretch, where)."""
    ivs = []
    s0 = 0.0
    for j in range(len(states) - 1):
        a, b, d = states[j], states[j + 1], dists[j]
        for lo, hi in p.boxes:
            iv = seg_box_interval(a, b, lo, hi, p.pdim)
            if iv is not None:
                ivs.append((s0 + iv[0] * d, s0 + iv[1] * d, j))
        s0 += d
    if not ivs:
        return 0.0, None
    ivs.sort()
    best, where = 0.0, None
    cs, ce, cj = ivs[0]
    for s, e, j in ivs[1:]:
        if s <= ce + 1e-12 * max(1.0, abs(ce)):
            ce = max(ce, e)
        else:
            if ce - cs > best:
                best, where = ce - cs, cj
            cs, ce, cj = s, e, j
    if ce - cs > best:
        best, where = ce - cs, cj
    return best, where


def longest_invalid_sampled(p, sol, dists):
    """longest run of consecutive invalid samples of the 4x dense subdivision (vertices included), measured from the
    first to the last sample of the run: a lower bound of the invalid stretch's length."""
    pts = []      # (path length, valid, edge)
    s0 = 0.0
    st = sol["states"]
    for j in range(len(st) - 1):
        m, inner = sol["dense"].get(j, (1, []))
        d = dists[j]
        pts.append((s0, p.user_valid(st[j]), j))
        for q, x in enumerate(inner):
            pts.append((s0 + d * (q + 1) / float(m), p.user_valid(x), j))
        s0 += d
    if st:
        pts.append((s0, p.user_valid(st[-1]), len(st) - 1))
    best, where, run0 = 0.0, None, None
    for s, v, j in pts:
        if not v:
            if run0 is None:
                run0 = (s, j)
            if s - run0[0] > best:
                best, where = s - run0[0], run0[1]
        else:
            run0 = None
    return best, where


def close(a, b, rel=1e-9):
    if a == b:
        return True
    if math.isinf(a) or math.isinf(b) or math.isnan(a) or math.isnan(b):
        return False
    return abs(a - b) <= rel * max(1.0, abs(a), abs(b))


def strict_key(p):
    if p.planner in ("RRT", "RRTConnect") and p.interm == 1:
        return p.planner + "+intermediate"
    return p.planner


def is_strict(p):
    return strict_key(p) not in NOT_STRICT


def check_solution(p, R, sol, top, fails, obs):
    pre = "" if top else "other-solution:"
    st = sol["states"]
    if sol.get("bad"):
        fails.append((pre + "path-type", "solution path is not a PathGeometric"))
        return
    if not st:
        fails.append((pre + "empty-path", "reported path has no states"))
        return
    # (1) starts: the first state is one of the problem definition's starts, and that start is in bounds and valid
    ok_start = False
    for s in p.starts:
        if p.same_state(st[0], s) and p.valid(s):
            ok_start = True
    if not ok_start:
        which = [i for i, s in enumerate(p.starts) if p.same_state(st[0], s)]
        fails.append((pre + "start", "first path state %r is not a valid in-bounds start (equal to start index %s)" % (st[0], which or "none")))
    # (2) bounds
    for j, x in enumerate(st):
        if not p.in_bounds(x):
            # is every out-of-bounds state of this path out ONLY on the side of (and no farther than) a goal state that
            # is itself outside the bounds?  (known finding F310: an unfiltered direct sampleGoal; anything else alarms)
            og = [g for g in p.all_goals() if not p.in_bounds(g)]
            toward = bool(og) and p.kind == "rv"
            for y in st:
                if p.in_bounds(y):
                    continue
                if not any(all((p.lo[i] - EPS <= y[i] <= p.hi[i] + EPS) or
                               (p.hi[i] < y[i] <= g[i] + 1e-9) or (g[i] - 1e-9 <= y[i] < p.lo[i]) for i in range(len(p.lo)))
                           for g in og):
                    toward = False
            # how far out, in position coordinates, compared with the resolution length (a densified state of a CURVED
            # motion may bulge out of the box between two validated check points: known finding F311)
            depth = max(max(p.lo[i] - y[i], y[i] - p.hi[i], 0.0) for y in st for i in range(p.posdim()))
            fails.append((pre + "bounds", "path state %d = %r is outside the space bounds (deepest excursion %.3g = %.2f x "
                          "resolution length)" % (j, x, depth, depth / R["lvs"]),
                          {"toward_outside_goal": toward, "shallow": depth <= R["lvs"], "curved": p.kind in ("rs", "dubins", "dubsym")}))
            break
    # (3) goal / approximate bookkeeping
    gd = p.goal_dist(st[-1])
    if gd is None:
        gd = sol["gdist"]
        obs["goal-distance-from-harness"] = obs.get("goal-distance-from-harness", 0) + 1
    elif not close(gd, sol["gdist"], 1e-12):
        obs["distance-recomputation-differs"] = obs.get("distance-recomputation-differs", 0) + 1
    if not sol["approx"]:
        if gd == 0.0 and not gd < p.thr:
            # threshold 0 (or below any representable distance): GoalRegion::isSatisfied's strict `<` makes the region
            # empty, yet the path ends exactly at the goal state the goal itself handed out (sampleGoal); bidirectional
            # planners never ask isSatisfied about goal samples.  Ending AT the goal state is accepted as "inside".
            obs["exact-at-goal-state-with-empty-region"] = obs.get("exact-at-goal-state-with-empty-region", 0) + 1
        elif not gd < p.thr:
            fails.append((pre + "goal", "exact solution ends at goal distance %r, threshold %r" % (gd, p.thr)))
    else:
        if not close(sol["diff"], gd):
            cls = "within-threshold" if abs(sol["diff"] - gd) <= p.thr * (1 + 1e-9) else "beyond-threshold"
            fails.append((pre + "difference", "approximate solution reports difference %r, goal distance at the last state is %r (%s: threshold %r)" % (sol["diff"], gd, cls, p.thr), {"diff_class": cls}))
        if gd < p.thr:
            k = "approximate-flag-on-a-path-that-satisfies-the-goal:" + p.planner
            obs[k] = obs.get(k, 0) + 1
    # edge lengths
    dists = []
    for j in range(len(st) - 1):
        n, d, inner = sol["edges"].get(j, (0, 0.0, []))
        dd = p.dist(st[j], st[j + 1])
        dists.append(d if dd is None else dd)
    lvs = R["lvs"]
    # (4) gap form, all planners
    g1, w1 = longest_invalid_sampled(p, sol, dists)
    nlast = len(st) - 2
    if g1 > 2.0 * lvs * (1 + 1e-9):
        fails.append((pre + "gap", "invalid stretch of length >= %r (%.2f x resolution length %r) starting on edge %s (dense re-sampling)" % (g1, g1 / lvs, lvs, w1),
                      {"on_last_edge": w1 is not None and w1 >= nlast}))
    elif p.linear_position() and p.boxes:
        g2, w2 = longest_invalid_exact(p, st, dists)
        if g2 > 2.0 * lvs * (1 + 1e-9):
            fails.append((pre + "gap", "invalid stretch of length %r (%.2f x resolution length %r) on edge %s (exact segment/box intersection)" % (g2, g2 / lvs, lvs, w2),
                          {"on_last_edge": w2 is not None and w2 >= nlast}))
        obs["max-gap-over-lvs"] = max(obs.get("max-gap-over-lvs", 0.0), g2 / lvs)
    obs["max-sampled-gap-over-lvs"] = max(obs.get("max-sampled-gap-over-lvs", 0.0), g1 / lvs)
    # (4b) direction: with a direction-sensitive motion validator every edge must be valid in the direction of travel
    if p.oneway is not None:
        for j in range(len(st) - 1):
            if p.blocked(st[j], st[j + 1]):
                msg = ("edge %d (%r -> %r) moves in -x direction through the one-way box %r: checkMotion(a, b) is false in the "
                       "direction the path travels it" % (j, st[j], st[j + 1], p.oneway))
                if p.planner in DIRECTED_SAFE:
                    fails.append((pre + "direction", msg))
                else:
                    k = "direction-unsupported(validates the other way):" + p.planner
                    obs[k] = obs.get(k, 0) + 1
                break
    # (5) strict form: vertices and every j/n point valid
    bad, badedge = None, None
    for j, x in enumerate(st):
        if not p.user_valid(x):
            bad = "path state %d = %r is invalid" % (j, x)
            badedge = j - 1 if j > 0 else 0
            break
    if bad is None:
        for j in range(len(st) - 1):
            n, d, inner = sol["edges"].get(j, (0, 0.0, []))
            for q, x in enumerate(inner):
                if not p.user_valid(x):
                    bad = "subdivision point %d/%d of edge %d (%r -> %r) = %r is invalid: checkMotion fails on this pair" % (q + 1, n, j, st[j], st[j + 1], x)
                    badedge = j
                    break
            if bad:
                break
    if bad is not None:
        extra = {"on_last_edge": badedge is not None and badedge >= len(st) - 2}
        if is_strict(p):
            fails.append((pre + "strict", bad, extra))
        elif bad.startswith("path state") and strict_key(p) in VERTEX_VALID:
            fails.append((pre + "vertex", bad, extra))
        else:
            obs["nonstrict-planner-strict-miss"] = obs.get("nonstrict-planner-strict-miss", 0) + 1


def path_is_real(p, R):
    """the executable spec: returns (list of (clause, detail), observations)."""
    fails, obs = [], {}
    if R.get("timeout"):
        # the planner neither returned nor polled its termination condition before the watchdog fired: no status, hence
        # nothing for this property to judge (interruptibility is C03/C18's subject); counted and listed in the evidence
        return [], {"hang(no status returned before the watchdog)": 1}
    if R.get("badop"):
        return [("harness", "harness rejected the input: " + R["badop"])], obs
    if R.get("na"):
        return [], {"not-applicable": 1}
    if R.get("exception"):
        # an exception is not a status: the status clauses do not apply.  Whatever paths the problem definition holds by
        # then must still be real.  (Counted; AIT*'s PHS exception for start == goal is described in notes/C01.md.)
        obs["exception:" + R["exception"][:60]] = 1
        if R.get("after", 0) > R.get("before", 0):
            obs["exception-after-adding-a-path"] = 1
        for i, sol in enumerate(R.get("sols", [])):
            check_solution(p, R, sol, i == 0, fails, obs)
        return fails, obs
    if not R.get("done") or R.get("rc") != 0:
        # the planner crashed inside solve() (sanitizer report / abort): no status was returned and nothing was reported,
        # so there is nothing for this property to judge; counted per planner and listed in the evidence notes
        return [], {"crash(no status returned)": 1}
    status = R["status"]
    solved = status in SOLUTION
    if R["bool"] != solved:
        fails.append(("status-bool", "status %s casts to %s" % (status, R["bool"])))
    added = R["after"] - R["before"]
    if not solved:
        if added != 0:
            fails.append(("nonsolution-adds-path", "status %s but the solution count went from %d to %d" % (status, R["before"], R["after"])))
        if R["before"] > 0:
            # a resumed call: what earlier calls registered is still in the problem definition and must still be real
            for i, sol in enumerate(R["sols"]):
                check_solution(p, R, sol, i == 0, fails, obs)
        return fails, obs
    if R["before"] > 0:
        # a RESUMED call (same planner object, problem definition still holding earlier solutions): the status speaks about
        # what THIS call reports, i.e. the solutions it registered (index >= before); the problem definition's top solution
        # may stem from an earlier call.  Every solution shown is judged as usual (goal / flag / difference / validity).
        obs["resumed-call"] = 1
        new = [x for x in R["sols"] if not x.get("bad") and x.get("index", 0) >= R["before"]]
        if added <= 0:
            obs["resumed-call:solution-status-without-a-new-path"] = 1
            if not R["sols"]:
                fails.append(("no-path", "status %s but the problem definition holds no solution" % status))
            elif status == "EXACT_SOLUTION" and all(x.get("approx") for x in R["sols"] if not x.get("bad")):
                fails.append(("status-flags", "resumed call: status EXACT_SOLUTION, nothing registered, and the problem definition holds only approximate solutions"))
        elif new:
            if status == "EXACT_SOLUTION" and all(x["approx"] for x in new):
                fails.append(("status-flags", "resumed call: status EXACT_SOLUTION but every solution this call registered is flagged approximate"))
            if status == "APPROXIMATE_SOLUTION" and any(not x["approx"] for x in new):
                fails.append(("status-flags", "resumed call: status APPROXIMATE_SOLUTION but this call registered a solution not flagged approximate"))
        top = R["sols"][0] if R["sols"] else None
        if top is not None and not top.get("bad"):
            if R["pd_approx"] != top["approx"] or not (R["pd_diff"] == top["diff"] or (math.isnan(R["pd_diff"]) and math.isnan(top["diff"]))):
                fails.append(("status-flags", "hasApproximateSolution/getSolutionDifference disagree with the top solution"))
        for i, sol in enumerate(R["sols"]):
            check_solution(p, R, sol, i == 0, fails, obs)
        return fails, obs
    if added <= 0 or not R["sols"]:
        fails.append(("no-path", "status %s but no solution path was added (count %d -> %d)" % (status, R["before"], R["after"])))
        return fails, obs
    top = R["sols"][0]
    if not top.get("bad"):
        if status == "EXACT_SOLUTION" and (top["approx"] or R["pd_approx"]):
            fails.append(("status-flags", "status EXACT_SOLUTION but the reported solution is flagged approximate (difference %r)" % top["diff"]))
        if status == "APPROXIMATE_SOLUTION" and not (top["approx"] and R["pd_approx"]):
            fails.append(("status-flags", "status APPROXIMATE_SOLUTION but the problem definition's best solution is not flagged approximate"))
        if R["pd_approx"] != top["approx"] or not (R["pd_diff"] == top["diff"] or (math.isnan(R["pd_diff"]) and math.isnan(top["diff"]))):
            fails.append(("status-flags", "hasApproximateSolution/getSolutionDifference disagree with the top solution"))
    for i, sol in enumerate(R["sols"]):
        check_solution(p, R, sol, i == 0, fails, obs)
    return fails, obs


# ---------------------------------------------------------------------------------- lock-step (a)
def driver_script(p, R):
    d = [("lazyprm %d" if p.planner == "LazyPRM" else "rrt %d") % len(p.lo), "bounds " + " ".join(map(f2b, p.lo)) + " " + " ".join(map(f2b, p.hi)), p.boxes_line(),
         "res " + f2b(p.res)]
    if p.rng is not None:
        d.append("range " + f2b(p.rng))
    d.append("interm %d" % (p.interm or 0))
    if p.blind:
        d.append("boundsblind 1")
    d += ["goal " + " ".join(map(f2b, g)) for g in p.all_goals()]
    d.append("thr " + f2b(p.thr))
    for s in p.starts:
        d.append("start " + " ".join(map(f2b, s)))
    d += R["draws"]
    if p.planner == "LazyPRM":
        d += ["ptc %d" % p.budget, "costthr " + (p.costthr or "inf"), "solvel", "roadmap", "path", "pdef"]
    elif p.planner == "RRTConnect":
        d += ["ptc %d" % p.budget, "solvec", "trees", "treeg", "path", "pdef"]
    else:
        d += ["solve", "tree", "path", "pdef"]
    return d


def lockstep_one(ck, hbin, p):
    """returns (ok, what, impl lines, model lines, R)"""
    R = run_problem(ck, hbin, p)
    if not R.get("done") or R.get("rc") != 0 or R.get("exception"):
        return False, "harness failed: rc=%s %s %s" % (R.get("rc"), R.get("exception"), R.get("stderr", "")[-300:]), [], [], R
    ds = driver_script(p, R)
    model, rc, err = ck.run_bin(ck.driver(DRIVER_LAZYPRM if p.planner == "LazyPRM" else DRIVER), ds)
    nout = 5 if p.planner == "RRTConnect" else 4
    if rc != 0 or model is None or len(model) < nout or any(m == "bad-op" for m in model):
        return False, "driver failed rc=%s" % rc, R["L"], model or [], R
    m = model[-nout:]
    L = {l.split()[0].split("=")[0]: l for l in R["L"]}
    d = kv(m[0].split())
    what = None
    if p.planner == "LazyPRM":
        names = ["status", "roadmap", "path", "problem definition", "counters"]
        misc = kv(L.get("misc", "").split())
        audit = kv(L.get("audit", "").split())
        impl = [L.get("status", ""), L.get("roadmap", ""), L.get("path", ""), L.get("pdef", ""),
                "iterations=%s startm=%s goalm=%s ngoal=%s" % (misc.get("iterations"), misc.get("startm"), misc.get("goalm"), misc.get("ngoal"))]
        mod = ["status=%s bool=%s added=%s" % (d["status"], d["bool"], d["added"]), m[1], m[2], m[3],
               "iterations=%s startm=%s goalm=%s ngoal=%s" % (d["iterations"], d["startm"], d["goalm"], d["ngoal"])]
        R["audit"] = audit
        if d["oraclebad"] != "0":
            what = "the model rejected the recorded A* answers / event order (oracleBad)"
        elif d.get("stale", "0") != "0":
            what = "the model's own component self-check failed (stale): lazyprm_components_sound does not apply to this run"
        elif audit and audit.get("sameid_notconnected") != "0":
            what = "REAL roadmap: %s vertex pairs share a component id but are not connected" % audit.get("sameid_notconnected")
    elif p.planner == "RRTConnect":
        names = ["status", "start tree", "goal tree", "path", "problem definition", "counters"]
        misc = kv(L.get("misc", "").split())
        impl = [L.get("status", ""), L.get("treeS", ""), L.get("treeG", ""), L.get("path", ""), L.get("pdef", ""),
                "ngoal=%s starttree=%s" % (misc.get("ngoal"), misc.get("starttree"))]
        mod = ["status=%s bool=%s added=%s" % (d["status"], d["bool"], d["added"]), m[1], m[2], m[3], m[4],
               "ngoal=%s starttree=%s" % (d["ngoal"], d["starttree"])]
        if d["fuelout"] != "0":
            what = "model ran out of connect fuel"
        elif d["short"] != "0":
            what = "the recorded draws ran out before the model's termination condition fired"
    else:
        names = ["status", "tree", "path", "problem definition"]
        impl = [L.get("status", ""), L.get("tree", ""), L.get("path", ""), L.get("pdef", "")]
        mod = ["status=%s bool=%s added=%s" % (d["status"], d["bool"], d["added"]), m[1], m[2], m[3]]
    if what is not None:
        pass
    elif d["unused"] != "0":
        what = "model stopped early: %s recorded draws unused" % d["unused"]
    elif d["lvs"] != R["cfg"]["lvs"]:
        what = "longest valid segment differs"
    elif "range" in R["cfg"] and d["range"] != R["cfg"]["range"]:
        what = "effective range differs"
    else:
        for i in range(len(names)):
            if impl[i] != mod[i]:
                what = names[i] + " differs"
                break
    # cross-check with getPlannerData sizes
    if what is None and "pdata" in R and p.planner == "RRT":
        nt = int(d["ntree"])
        if int(R["pdata"]["v"]) > nt:
            what = "getPlannerData reports %s vertices, the tree has %d" % (R["pdata"]["v"], nt)
    return what is None, what, impl, mod, R


# ---------------------------------------------------------------------------------- histories of one RRT object (round 10)
def gen_history(r):
    """one RRT object + one problem definition driven through a random sequence of calls (Model/RRTHistory.lean `Op`)."""
    env = gen_env(r, r.choice(["rv2", "rv2", "rv3"]), nboxes=r.below(7))
    ext = extent(env)
    d = len(env.lo)

    def some_state(kind):
        for _ in range(100):
            x = rand_state(r, "rv", env.lo, env.hi)
            if kind == "valid" and env.valid(x):
                return x
            if kind == "invalid" and env.boxes and env.collides(x):
                return x
        if kind == "outside":
            x = rand_state(r, "rv", env.lo, env.hi)
            x[r.below(d)] = env.hi[0] + 0.5 * ext
            return x
        return rand_state(r, "rv", env.lo, env.hi)
    first = r.below(6)
    if first == 0:
        env.starts = [some_state("outside"), some_state("invalid")]     # first solve: INVALID_START unless one is valid by chance
    elif first == 1:
        env.starts = [some_state("invalid"), env.starts[0], some_state("valid")]
    ops, nsolve = [], 0
    interm = r.below(3) == 0
    for _ in range(3 + r.below(9)):
        k = r.below(15)
        if k == 5:
            ops.append("clear")
        elif k == 6:
            ops.append("addstart:" + ",".join(map(f2b, some_state(r.choice(["valid", "valid", "valid", "invalid", "outside"])))))
        elif k == 7:
            ops.append("range:" + f2b(r.choice([0.0, 1e-17, 0.02 * ext, 0.2 * ext, 2.0 * ext])))
        elif k == 8:
            ops.append("thr:" + f2b(r.choice([0.0, 0.02 * ext, 0.1 * ext, 0.5 * ext])))
        elif k == 9:
            ops.append("interm:%d" % r.below(2))
        elif k == 10:
            ops.append("bias:" + f2b(r.choice([0.0, 0.05, 0.5, 1.0])))
        elif k == 11:
            ops.append("setup")
        elif k == 12:
            ops.append("clearsol")
        else:
            ops.append("solve:%d" % r.choice([0, 1, 5, 40, 150, 400]))
            nsolve += 1
    if not ops[-1].startswith("solve"):
        ops.append("solve:%d" % r.choice([5, 60, 300]))
    return env.clone(planner="RRT", mode="history", seed=r.below(100000), budget=0, pollcap=0, hist=ops,
                     rng=r.choice([None, None, 0.0, 0.05 * ext, 0.4 * ext]), interm=(1 if interm else 0),
                     bias=r.choice([None, 0.05, 0.3, 1.0]), tag="history")


def history_driver_script(p, R):
    d = ["rrt %d" % len(p.lo), "bounds " + " ".join(map(f2b, p.lo)) + " " + " ".join(map(f2b, p.hi)), p.boxes_line(),
         "res " + f2b(p.res)]
    if p.rng is not None:
        d.append("range " + f2b(p.rng))
    d.append("interm %d" % (p.interm or 0))
    d += ["goal " + " ".join(map(f2b, p.goal)), "thr " + f2b(p.thr)]
    for s in p.starts:
        d.append("start " + " ".join(map(f2b, s)))
    d.append("hinit")
    expect = []         # (op index, number of output lines that belong to it)
    for i, tok in enumerate(p.hist):
        op, _, arg = tok.partition(":")
        if op == "solve":
            d += [l for l in R["H"].get(i, []) if l.startswith("draw ")]
            d += ["hsolve", "htree", "hpath", "hpdef"]
        elif op == "clear":
            d.append("hclear")
        elif op == "addstart":
            d.append("haddstart " + " ".join(arg.split(",")))
        elif op == "range":
            d.append("hrange " + arg)
        elif op == "thr":
            d.append("hthr " + arg)
        elif op == "interm":
            d.append("hinterm " + arg)
        elif op == "bias":
            pass            # the goal bias only decides where a draw comes from; the draws are recorded
        elif op == "setup":
            d.append("hsetup")
        elif op == "clearsol":
            d.append("hclearsol")
    return d


def history_oracle(p, R):
    """the property, evaluated in Python on what the REAL object printed, call by call: every solve of the history must
    report a real path (start among the valid starts added so far, bounds, vertices, gap / strict form, goal / flag /
    difference / status agreement under the threshold then in force) and the solution count must move as the status says."""
    fails, obs = [], {}
    starts = [list(s) for s in p.starts]
    thr, interm_now, lvs = p.thr, bool(p.interm), R["lvs"]
    interm_ever = interm_now      # was the flag on at any time since the tree was last emptied?
    for i, tok in enumerate(p.hist):
        op, _, arg = tok.partition(":")
        if op == "addstart":
            starts.append([b2f(x) for x in arg.split(",")])
        elif op == "thr":
            thr = b2f(arg)
        elif op == "interm":
            interm_now = arg == "1"
            interm_ever = interm_ever or interm_now
        elif op == "clear":
            interm_ever = interm_now
        if op != "solve":
            continue
        H = {l.split()[0].split("=")[0]: l for l in R["H"].get(i, []) if not l.startswith("draw ")}
        if "exception" in H or "status" not in H:
            fails.append(("history-exception", "call %d (%s): %s" % (i, tok, H.get("exception", "no status line"))))
            continue
        st = kv(H["status"].split())
        pd = kv(H["pdef"].split())
        status, before, after = st["status"], int(pd["before"]), int(pd["count"])
        solved = status in SOLUTION
        obs["history-status:" + status] = obs.get("history-status:" + status, 0) + 1
        if (st["bool"] == "1") != solved:
            fails.append(("status-bool", "call %d: status %s casts to %s" % (i, status, st["bool"])))
        if not solved:
            if after != before:
                fails.append(("nonsolution-adds-path", "call %d: status %s but the solution count went from %d to %d" % (i, status, before, after)))
            continue
        if after != before + 1 or H.get("path", "path none").startswith("path none"):
            fails.append(("no-path", "call %d: status %s but the solution count went from %d to %d" % (i, status, before, after)))
            continue
        sols = [(x.split(":")[0] == "1", b2f(x.split(":")[1])) for x in pd["sols"].split(",")]
        approx, diff = sols[before]
        if (status == "EXACT_SOLUTION") == approx:
            fails.append(("status-flags", "call %d: status %s but the solution it registered has approximate=%s" % (i, status, approx)))
        want_flag = all(a for a, _ in sols)
        if (pd["approx"] == "1") != want_flag:
            fails.append(("status-flags", "call %d: hasApproximateSolution()=%s with solution flags %s" % (i, pd["approx"], [a for a, _ in sols])))
        states = parse_states(H["path"].split()[2:])
        ok_start = any(p.same_state(states[0], s) and p.valid(s) for s in starts)
        if not ok_start:
            fails.append(("start", "call %d: first path state %r is not a valid in-bounds start among the %d starts added so far" % (i, states[0], len(starts))))
        for j, x in enumerate(states):
            if not p.in_bounds(x):
                fails.append(("bounds", "call %d: path state %d = %r is outside the space bounds" % (i, j, x)))
                break
        gd = p.goal_dist(states[-1])
        if not approx and not gd < thr and not (gd == 0.0 and p.planner == "RRTConnect"):
            # (RRTConnect ends exactly AT a sampled goal state and never asks isSatisfied: accepted as "inside", see the
            # reading decision on zero thresholds)
            fails.append(("goal", "call %d: exact solution ends at goal distance %r, threshold in force %r" % (i, gd, thr)))
        if approx and not close(diff, gd):
            fails.append(("difference", "call %d: approximate solution registered difference %r, goal distance at the last state is %r" % (i, diff, gd)))
        if not approx and diff != 0.0:
            fails.append(("difference", "call %d: exact solution registered difference %r" % (i, diff)))
        if approx and gd < thr:
            obs["approximate-flag-on-a-path-that-satisfies-the-goal:RRT-history"] = 1
        dists = [p.dist(states[j], states[j + 1]) for j in range(len(states) - 1)]
        bad = None
        for j, x in enumerate(states):
            if not p.valid(x):
                bad = ("vertex", "call %d: path state %d = %r is invalid" % (i, j, x))
                break
        if bad is None and not interm_ever:
            for j in range(len(states) - 1):
                n = int(math.ceil(dists[j] / lvs))
                for q in range(1, n):
                    t = float(q) / float(n)
                    x = [states[j][c] + (states[j + 1][c] - states[j][c]) * t for c in range(len(states[j]))]
                    if not p.valid(x):
                        bad = ("strict", "call %d: subdivision point %d/%d of edge %d (%r -> %r) is invalid" % (i, q, n, j, states[j], states[j + 1]))
                        break
                if bad:
                    break
        if bad:
            fails.append(bad)
        if p.boxes:
            g2, w2 = longest_invalid_exact(p, states, dists)
            if g2 > 2.0 * lvs * (1 + 1e-9):
                fails.append(("gap", "call %d: invalid stretch of length %r (%.2f x resolution length) on edge %s" % (i, g2, g2 / lvs, w2)))
        obs["history-paths-checked"] = obs.get("history-paths-checked", 0) + 1
    return fails, obs


def history_one(ck, hbin, p):
    """returns (what or None, impl lines, model lines, R, oracle fails, observations)"""
    R = run_problem(ck, hbin, p)
    if not R.get("done") or R.get("rc") != 0 or R.get("exception") or R.get("badop"):
        return "harness failed: rc=%s %s %s %s" % (R.get("rc"), R.get("exception"), R.get("badop"), R.get("stderr", "")[-300:]), [], [], R, [], {}
    fails, obs = history_oracle(p, R)
    ds = history_driver_script(p, R)
    model, rc, err = ck.run_bin(ck.driver(DRIVER), ds)
    if rc != 0 or model is None or any(m == "bad-op" for m in model):
        return "driver failed rc=%s" % rc, [], model or [], R, fails, obs
    out = [m for m in model if m != "ok"]
    impl, mod, what = [], [], None
    k = 0
    for i, tok in enumerate(p.hist):
        if not tok.startswith("solve"):
            continue
        H = {l.split()[0].split("=")[0]: l for l in R["H"].get(i, []) if not l.startswith("draw ")}
        if k + 4 > len(out):
            what = "driver produced too few lines"
            break
        m = out[k:k + 4]
        k += 4
        d = kv(m[0].split())
        misc = kv(H.get("misc", "").split())
        pdl = kv(H.get("pdef", "").split())
        I = [H.get("status", ""), "nstart=%s lgm=%s range=%s interm=%s thr=%s" % tuple(misc.get(x) for x in ("nstart", "lgm", "range", "interm", "thr")),
             H.get("tree", ""), H.get("path", ""),
             "pdef count=%s approx=%s diff=%s sols=%s" % tuple(pdl.get(x) for x in ("count", "approx", "diff", "sols"))]
        M = ["status=%s bool=%s added=%s" % (d["status"], d["bool"], d["added"]),
             "nstart=%s lgm=%s range=%s interm=%s thr=%s" % tuple(d.get(x) for x in ("nstart", "lgm", "range", "interm", "thr")),
             m[1], m[2], m[3]]
        impl += I
        mod += M
        if what is None:
            if d["unused"] != "0":
                what = "call %d (%s): model stopped early, %s recorded draws unused" % (i, tok, d["unused"])
            else:
                for name, a, b in zip(["status", "counters / parameters", "tree", "path", "problem definition"], I, M):
                    if a != b:
                        what = "call %d (%s): %s differs" % (i, tok, name)
                        break
    return what, impl, mod, R, fails, obs


def gen_history_c(r):
    """one RRTConnect object + one problem definition: solve (interrupted at any termination count), resumed on the kept
    trees, clear, addStartState, setRange, clearSolutionPaths (Model/RRTConnectHistory.lean `Op`); GoalStates goals in half
    of the histories so that goals are re-sampled through the kept PlannerInputStates counters."""
    if r.below(2):
        env = gen_multigoal(r, r.choice(["rv2", "rv3"]))
    else:
        env = gen_env(r, r.choice(["rv2", "rv2", "rv3"]), nboxes=r.below(7))
    ext = extent(env)

    def some_state(kind):
        for _ in range(100):
            x = rand_state(r, "rv", env.lo, env.hi)
            if kind == "valid" and env.valid(x):
                return x
            if kind == "invalid" and env.boxes and env.collides(x):
                return x
        return rand_state(r, "rv", env.lo, env.hi)
    if r.below(6) == 0:
        env.starts = [some_state("invalid")]
    ops = []
    for _ in range(3 + r.below(8)):
        k = r.below(12)
        if k == 5:
            ops.append("clear")
        elif k == 6:
            ops.append("addstart:" + ",".join(map(f2b, some_state(r.choice(["valid", "valid", "invalid"])))))
        elif k == 7:
            ops.append("range:" + f2b(r.choice([0.02 * ext, 0.2 * ext, 2.0 * ext])))
        elif k == 8:
            ops.append("clearsol")
        else:
            ops.append("solve:%d" % r.choice([0, 1, 2, 5, 30, 120, 400]))
    if not ops[-1].startswith("solve"):
        ops.append("solve:%d" % r.choice([5, 60, 300]))
    return env.clone(planner="RRTConnect", mode="history", seed=r.below(100000), budget=0, pollcap=0, hist=ops,
                     rng=r.choice([None, None, 0.05 * ext, 0.4 * ext]), interm=r.below(2), tag="history:rrtconnect")


def history_driver_script_c(p, R):
    d = ["rrt %d" % len(p.lo), "bounds " + " ".join(map(f2b, p.lo)) + " " + " ".join(map(f2b, p.hi)), p.boxes_line(),
         "res " + f2b(p.res)]
    if p.rng is not None:
        d.append("range " + f2b(p.rng))
    d.append("interm %d" % (p.interm or 0))
    d += ["goal " + " ".join(map(f2b, g)) for g in p.all_goals()]
    d.append("thr " + f2b(p.thr))
    for s in p.starts:
        d.append("start " + " ".join(map(f2b, s)))
    d.append("hcinit")
    for i, tok in enumerate(p.hist):
        op, _, arg = tok.partition(":")
        if op == "solve":
            d += [l for l in R["H"].get(i, []) if l.startswith("draw ")]
            d += ["hcsolve " + arg, "hctrees", "hctreeg", "hcpath", "hcpdef"]
        elif op == "clear":
            d.append("hcclear")
        elif op == "addstart":
            d.append("hcaddstart " + " ".join(arg.split(",")))
        elif op == "range":
            d.append("hcrange " + arg)
        elif op == "clearsol":
            d.append("hcclearsol")
    return d


def history_one_c(ck, hbin, p):
    """RRTConnect twin of history_one"""
    R = run_problem(ck, hbin, p)
    if not R.get("done") or R.get("rc") != 0 or R.get("exception") or R.get("badop"):
        return "harness failed: rc=%s %s %s %s" % (R.get("rc"), R.get("exception"), R.get("badop"), R.get("stderr", "")[-300:]), [], [], R, [], {}
    fails, obs = history_oracle(p, R)
    model, rc, err = ck.run_bin(ck.driver(DRIVER), history_driver_script_c(p, R))
    if rc != 0 or model is None or any(m == "bad-op" for m in model):
        return "driver failed rc=%s" % rc, [], model or [], R, fails, obs
    out = [m for m in model if m != "ok"]
    impl, mod, what, k = [], [], None, 0
    for i, tok in enumerate(p.hist):
        if not tok.startswith("solve"):
            continue
        H = {l.split()[0].split("=")[0]: l for l in R["H"].get(i, []) if not l.startswith("draw ")}
        if k + 5 > len(out):
            what = "driver produced too few lines"
            break
        m = out[k:k + 5]
        k += 5
        d = kv(m[0].split())
        misc = kv(H.get("misc", "").split())
        pdl = kv(H.get("pdef", "").split())
        I = [H.get("status", ""), "nstart=%s ngoal=%s starttree=%s range=%s" % tuple(misc.get(x) for x in ("nstart", "ngoal", "starttree", "range")),
             H.get("treeS", ""), H.get("treeG", ""), H.get("path", ""),
             "pdef count=%s approx=%s diff=%s sols=%s" % tuple(pdl.get(x) for x in ("count", "approx", "diff", "sols"))]
        M = ["status=%s bool=%s added=%s" % (d["status"], d["bool"], d["added"]),
             "nstart=%s ngoal=%s starttree=%s range=%s" % tuple(d.get(x) for x in ("nstart", "ngoal", "starttree", "range")),
             m[1], m[2], m[3], m[4]]
        impl += I
        mod += M
        if what is None:
            if d["fuelout"] != "0":
                what = "call %d (%s): model ran out of connect fuel" % (i, tok)
            elif d["short"] != "0":
                what = "call %d (%s): the recorded draws ran out before the model's termination condition fired" % (i, tok)
            elif d["unused"] != "0":
                what = "call %d (%s): model stopped early, %s recorded draws unused" % (i, tok, d["unused"])
            else:
                for name, a, b in zip(["status", "counters / parameters", "start tree", "goal tree", "path", "problem definition"], I, M):
                    if a != b:
                        what = "call %d (%s): %s differs" % (i, tok, name)
                        break
    return what, impl, mod, R, fails, obs


def history_scale(p, mult):
    ops = []
    for t in p.hist:
        if t.startswith("solve:"):
            ops.append("solve:%d" % min(4000, max(int(t[6:]), 5) * mult))
        else:
            ops.append(t)
    return p.clone(hist=ops)


def history_report_fail(ck, hbin, p, fails):
    """shrink the call sequence (keeping the first failing clause) and report it with the concrete input"""
    clause = fails[0][0]

    def still(ops):
        q = p.clone(hist=ops)
        R = run_problem(ck, hbin, q)
        if not R.get("done") or R.get("rc") != 0:
            return False
        f, _ = history_oracle(q, R)
        return any(x[0] == clause for x in f)
    ops = core.ddmin(p.hist, still, max_tests=60) if len(p.hist) > 1 else p.hist
    q = p.clone(hist=ops)
    R = run_problem(ck, hbin, q)
    f = [x for x in history_oracle(q, R)[0] if x[0] == clause] if R.get("done") else []
    if not f:
        q, f = p, fails
    rec = {"engine": "planners", "planner": p.planner, "clause": f[0][0], "class": "history", "space": p.kind,
           "interm": p.interm or 0, "what": "%s (history %s): %s" % (f[0][0], " ".join(q.hist), f[0][1])}
    new = ck.report(rec, script=q.script(), expected="pathIsReal for every solve() of the history: clause '%s' holds" % f[0][0],
                    observed={"history": q.hist, "detail": f[0][1]}, engine="planners")
    if new:
        ck.log("VIOLATION %s %s [history %s seed=%d]: %s" % (p.planner, f[0][0], " ".join(q.hist), p.seed, f[0][1][:200]))


def history_process(ck, hbin, hjobs, hres):
    nbad = 0
    for p, (what, impl, mod, R, fails, obs) in zip(hjobs, hres):
        ck.traces_validated += 1
        nsol = obs.get("history-paths-checked", 0)
        ck.case(p.key(), nsol >= 2)
        ck.count("history-runs")
        ck.count("history-runs:" + p.planner)
        ck.count("history-calls", len(p.hist))
        for t in p.hist:
            ck.count("history-op:" + t.split(":")[0])
        for a, b in zip(p.hist, p.hist[1:]):
            if a.startswith("solve") and b.startswith("solve"):
                ck.count("history:solve-after-solve-on-the-same-tree")
            if a == "clear" and b.startswith("solve"):
                ck.count("history:solve-after-clear")
        for k, v in obs.items():
            ck.count("obs:" + k, v if isinstance(v, int) else 1)
        if fails:
            history_report_fail(ck, hbin, p, fails)
            continue
        if what is None:
            continue
        nbad += 1
        ck.disagreements += 1
        ck.log("history lock-step disagreement (%s) seed=%d history=%s" % (what, p.seed, " ".join(p.hist)))
        if nbad > 3:
            continue
        found = False
        for mult in (1, 4, 16):
            q = history_scale(p, mult)
            R2 = run_problem(ck, hbin, q)
            if R2.get("done") and R2.get("rc") == 0:
                f2, _ = history_oracle(q, R2)
                if f2:
                    history_report_fail(ck, hbin, q, f2)
                    found = True
                    break
        if not found:
            ck.report({"engine": "rrt", "what": "model/implementation disagreement on a history: " + str(what)}, script=p.script(),
                      expected=[m[:2000] for m in mod], observed=[m[:2000] for m in impl], found_input=False, engine="rrt",
                      obligation="correspondence RRT.cpp (object reused across calls) vs OmplModel.Model.RRTHistory (lock-step: %s)" % what)


# ---------------------------------------------------------------------------------- judging a run
def judge(ck, hbin, p, R=None, attack=True):
    """run one problem through the oracle; report failures.  returns True if fine."""
    if R is None:
        R = run_problem(ck, hbin, p)
    if p.calls:
        # resume history: every call's report is judged with the environment then in force; the clause names of the
        # earlier calls carry the call number
        pf = p.env_at(None)
        fails, obs = path_is_real(pf, R)
        for k, Rk in R.get("calls", []):
            fk, ok_ = path_is_real(p.env_at(k), Rk)
            fails += [("%s" % f[0], "call %d (%s): %s" % (k, p.calls[k], f[1])) + tuple(f[2:]) for f in fk]
            for key, v in ok_.items():
                if not key.startswith("max-"):
                    obs[key] = obs.get(key, 0) + (v if isinstance(v, int) else 1)
            ck.count("resume:call-status:" + str(Rk.get("status")))
        ck.count("resume:calls-judged", len(R.get("calls", [])) + 1)
        attack = False
    else:
        fails, obs = path_is_real(p, R)
    ck.traces_validated += 1
    status = R.get("status", "exception" if R.get("exception") else ("n/a" if R.get("na") else "crash"))
    if R.get("timeout"):
        status = "hang"
        ck.notes.append("hang: %s %s seed=%d budget=%d" % (p.planner, p.tag, p.seed, p.budget))
        ck.extra_cov.setdefault("hangs", []).append("%s [%s seed=%d budget=%d]" % (p.planner, p.tag, p.seed, p.budget))
        ck.log("HANG (C03's subject, no status for C01 to judge): %s [%s seed=%d budget=%d] did not return within the "
               "%d s watchdog (stuck without polling its termination condition, or far too slow)" % (p.planner, p.tag, p.seed, p.budget, WATCHDOG[0]))
    elif status == "crash" or ((not R.get("done") or R.get("rc") != 0) and not R.get("na")):
        status = "crash"
        err = [l for l in (R.get("stderr") or "").splitlines() if "SUMMARY" in l]
        ck.notes.append("crash: %s %s seed=%d budget=%d %s" % (p.planner, p.tag, p.seed, p.budget, (err or [""])[0][:160]))
        ck.extra_cov.setdefault("crashes", []).append("%s [%s seed=%d budget=%d] %s" % (p.planner, p.tag, p.seed, p.budget, (err or [""])[0][:160]))
        ck.log("CRASH inside solve() (no status for C01 to judge): %s [%s seed=%d budget=%d] %s" % (p.planner, p.tag, p.seed, p.budget, (err or [""])[0][:160]))
    nontrivial = status in SOLUTION and bool(R["sols"]) and len(R["sols"][0]["states"]) >= 3
    ck.case(p.key(), nontrivial)
    ck.count("runs")
    ck.count("planner:" + p.planner)
    ck.count("status:" + status)
    if status in ("UNKNOWN", "INVALID_GOAL", "INVALID_START", "hang", "crash", "EXCEPTION"):
        ck.count("status:%s:%s" % (status, p.planner))
    ck.count("space:" + p.kind + str(len(p.lo)))
    ck.count("gen:" + p.tag)
    if status in SOLUTION and R["sols"] and not R["sols"][0].get("bad"):
        ck.count("top-solution:" + ("approximate" if R["sols"][0]["approx"] else "exact"))
        ck.count("path-states", len(R["sols"][0]["states"]))
        ck.count("solutions-checked", len(R["sols"]))
    for k, v in obs.items():
        if k.startswith("max-"):
            ck.extra_cov[k] = max(ck.extra_cov.get(k, 0.0), round(v, 4))
        else:
            ck.count("obs:" + k, v if isinstance(v, int) else 1)
    if status in SOLUTION:
        ck.sample({"problem": p.describe(), "status": status, "path_states": len(R["sols"][0]["states"]) if R["sols"] else 0,
                   "validity_queries": R.get("nq")})
    if not fails and attack and ck.lean_ok is not None:
        try:
            att = gap_attack(ck, hbin, p, R)
        except RuntimeError:
            att = None
        if att is not None:
            q, R2, fails2, same = att
            if fails2:
                ck.count("attack:succeeded")
                rec = {"engine": "planners", "planner": p.planner, "clause": "gap-attack", "class": p.tag, "space": p.kind,
                       "interm": p.interm or 0,
                       "what": "unobserved-gap attack: an edge of the reported path had an unqueried stretch longer than twice the "
                               "resolution length; with a thin obstacle inside it the same run reports: " + "; ".join(f[1] for f in fails2)[:400]}
                new = ck.report(rec, script=q.script(), expected="pathIsReal on the attacked environment (same planner, seed, budget)",
                                observed={"status": R2.get("status"), "same_path_as_before": bool(same),
                                          "fails": [list(f[:2]) for f in fails2][:6]}, engine="planners")
                if new:
                    ck.log("VIOLATION %s gap-attack [%s seed=%d budget=%d]: %s" % (p.planner, p.tag, p.seed, p.budget, fails2[0][1][:200]))
                return False
    if not fails:
        return True
    seen = set()
    for f in fails:
        clause, detail = f[0], f[1]
        if clause in seen:
            continue
        seen.add(clause)
        rec = {"engine": "planners", "planner": p.planner, "clause": clause, "class": p.tag, "space": p.kind,
               "interm": p.interm or 0, "what": "%s: %s" % (clause, detail)}
        if len(f) > 2:
            rec.update(f[2])
        new = ck.report(rec, script=p.script(), expected="pathIsReal: clause '%s' holds" % clause,
                        observed={"status": R.get("status"), "detail": detail, "queries": R.get("nq"),
                                  "stderr": R.get("stderr", "")[-400:]}, engine="planners")
        if new:
            ck.log("VIOLATION %s %s [%s seed=%d budget=%d]: %s" % (p.planner, clause, p.tag, p.seed, p.budget, detail[:200]))
    return False


def corpus():
    d = os.path.join(core.VERIF, "corpus", "C01")
    out = []
    if os.path.isdir(d):
        for f in sorted(os.listdir(d)):
            if f.endswith(".txt"):
                lines = [l.rstrip("\n") for l in open(os.path.join(d, f)) if l.strip()]
                tag = ([l.split()[1] for l in lines if l.startswith("#tag ")] or ["corpus"])[0]
                out.append((f, [l for l in lines if not l.startswith("#")], tag))
    return out


def problem_from_script(lines):
    """inverse of Problem.script() (corpus files and replays)."""
    kw = dict(kind="rv", lo=[], hi=[], pdim=0, boxes=[], res=0.01, starts=[], goal=[], thr=0.0, planner="RRT", seed=0,
              budget=100, pollcap=1000, tag="corpus")
    for ln in lines:
        t = ln.split()
        if t[0] == "space":
            k = t[1]
            if k == "rv":
                n = int(t[2])
                vals = [b2f(x) for x in t[3:]]
            elif k in ("se2", "se3"):
                n = 2 if k == "se2" else 3
                vals = [b2f(x) for x in t[2:]]
            elif k == "dubins":
                kw["rho"] = b2f(t[2])
                n, vals = 2, [b2f(x) for x in t[4:]]
                if t[3] == "1":
                    k = "dubsym"
            else:
                kw["rho"] = b2f(t[2])
                n, vals = 2, [b2f(x) for x in t[3:]]
            kw["kind"], kw["lo"], kw["hi"] = k, vals[:n], vals[n:2 * n]
        elif t[0] == "boxes":
            pd, k = int(t[1]), int(t[2])
            vals = [b2f(x) for x in t[3:]]
            kw["pdim"] = pd
            kw["boxes"] = [(vals[2 * pd * i:2 * pd * i + pd], vals[2 * pd * i + pd:2 * pd * (i + 1)]) for i in range(k)]
        elif t[0] == "res":
            kw["res"] = b2f(t[1])
        elif t[0] == "start":
            kw["starts"].append([b2f(x) for x in t[1:]])
        elif t[0] == "goal":
            if not kw["goal"]:
                kw["goal"] = [b2f(x) for x in t[1:]]
            else:
                kw.setdefault("goals2", []).append([b2f(x) for x in t[1:]])
        elif t[0] == "thr":
            kw["thr"] = b2f(t[1])
        elif t[0] == "planner":
            kw["planner"] = t[1]
        elif t[0] == "range":
            kw["rng"] = b2f(t[1])
        elif t[0] == "interm":
            kw["interm"] = int(t[1])
        elif t[0] == "goalbias":
            kw["bias"] = b2f(t[1])
        elif t[0] == "costthr":
            kw["costthr"] = t[1]
        elif t[0] == "oneway":
            kw["oneway"] = [b2f(x) for x in t[1:5]]
        elif t[0] == "hist":
            kw["hist"] = t[1:]
        elif t[0] == "boundsblind":
            kw["blind"] = int(t[1])
        elif t[0] == "calls":
            kw["calls"] = t[1:]
        elif t[0] == "seed":
            kw["seed"] = int(t[1])
        elif t[0] == "budget":
            kw["budget"], kw["pollcap"] = int(t[1]), int(t[2])
        elif t[0] == "mode":
            kw["mode"] = t[1]
        elif t[0] == "trace":
            kw["trace"] = int(t[1])
    return Problem(**kw)


# ---------------------------------------------------------------------------------- the unobserved-gap attack
def worst_discipline_gap(p, R):
    """(edge, gap length, t0, t1, d) of the longest stretch between consecutive queried-valid points on one reported edge of
    the top solution, as attributed by the harness (`disc` lines); None without a solution."""
    best = None
    for j, (k, gap, t0, t1, d) in (R.get("disc") or {}).items():
        if best is None or gap > best[1]:
            best = (j, gap, t0, t1, d)
    return best


def build_attack_boxes(p, R, T, edge, t0, t1, d, lvs):
    """a chain of small cubes covering the middle of the unqueried stretch [t0, t1] of the given edge, thin enough to contain
    the position of none of the states the transcript T asked about.  Returns a list of boxes or None (not constructible)."""
    st = R["sols"][0]["states"]
    a, b = st[edge][:p.pdim], st[edge + 1][:p.pdim]
    plen = math.sqrt(sum((b[i] - a[i]) ** 2 for i in range(p.pdim)))
    if plen <= 0.0 or d <= 0.0:
        return None
    G = (t1 - t0) * d
    margin_t = (G - 2.0 * lvs) / 4.0 / d             # keep clear of both ends; what stays covered is G/2 + lvs > 2 lvs
    u0, u1 = t0 + margin_t, t1 - margin_t
    P0 = [a[i] + u0 * (b[i] - a[i]) for i in range(p.pdim)]
    P1 = [a[i] + u1 * (b[i] - a[i]) for i in range(p.pdim)]
    seg = [P1[i] - P0[i] for i in range(p.pdim)]
    seg2 = sum(x * x for x in seg)
    if seg2 <= 0.0:
        return None
    dmin = float("inf")
    pts = [x for _, x in T] + p.starts + p.all_goals()
    for x in pts:
        q = x[:p.pdim]
        w = sum((q[i] - P0[i]) * seg[i] for i in range(p.pdim)) / seg2
        w = min(1.0, max(0.0, w))
        dist = math.sqrt(sum((q[i] - (P0[i] + w * seg[i])) ** 2 for i in range(p.pdim)))
        dmin = min(dmin, dist)
    h = 0.5 * dmin / math.sqrt(p.pdim)
    slen = math.sqrt(seg2)
    if h <= 0.0 or slen / h > 3000:
        return None
    n = int(math.ceil(slen / h)) + 1
    boxes = []
    for i in range(n + 1):
        c = [P0[k] + (i / float(n)) * seg[k] for k in range(p.pdim)]
        boxes.append(([c[k] - h for k in range(p.pdim)], [c[k] + h for k in range(p.pdim)]))
    return boxes


def gap_attack(ck, hbin, p, R):
    """DESIGN 1.4, the unobserved-gap attack.  If some reported edge has a stretch longer than 2 x resolution between
    consecutive queried-valid points, drop a thin obstacle strictly inside that stretch that contains none of the states
    the run asked about, re-run the same planner with the same seed and budget, and judge the result: the same computation
    must yield the same path (undisciplined_refutable), which is now invalid for longer than allowed.
    returns None (no over-long gap / not applicable) or (problem', R', fails)."""
    if R.get("status") not in SOLUTION or not R.get("sols") or R["sols"][0].get("bad"):
        return None
    w = worst_discipline_gap(p, R)
    if w is None:
        return None
    edge, gap, t0, t1, d = w
    lvs = R["lvs"]
    ck.extra_cov["max-unqueried-gap-over-lvs"] = max(ck.extra_cov.get("max-unqueried-gap-over-lvs", 0.0), round(gap / lvs, 4))
    if gap <= 2.0 * lvs * (1 + 1e-9):
        return None
    ck.count("attack:over-long-unqueried-gap")
    ck.count("attack:over-long-unqueried-gap:" + p.planner)
    if p.planner in MULTITHREADED or not p.linear_position():
        ck.count("attack:not-applicable(multithreaded or curved space)")
        return None
    T = run_problem(ck, hbin, p.clone(trace=1))
    if T.get("status") != R.get("status") or not T.get("sols") or T["sols"][0]["states"] != R["sols"][0]["states"]:
        ck.count("attack:run-not-reproducible")
        return None
    boxes = build_attack_boxes(p, R, T["queries_log"], edge, t0, t1, d, lvs)
    if boxes is None:
        ck.count("attack:not-constructible(queried states too close)")
        return None
    q = p.clone(boxes=list(p.boxes) + boxes, tag=p.tag)
    R2 = run_problem(ck, hbin, q)
    same = R2.get("status") == R.get("status") and R2.get("sols") and R2["sols"][0]["states"] == R["sols"][0]["states"]
    ck.count("attack:rerun-same-path" if same else "attack:rerun-different-path")
    fails, _ = path_is_real(q, R2)
    return q, R2, fails, same


# ---------------------------------------------------------------------------------- the check
def setup(ck):
    ck.build_harness("planners", ["planners.cpp"], link_ompl=True)


def pollcap_for(name, budget, which=None):
    """termination-condition polls allowed (the second, time-free stop criterion next to the evaluation budget).
    AnytimePathShortening's main thread busy-polls the condition while its worker planners run, so a poll cap would end
    the run before they did anything: its cap is so large (2e7 polls, a few seconds of spinning) that it only matters
    when every worker has given up (e.g. no valid start) and the main thread would spin forever."""
    if name == "AnytimePathShortening":
        return 2 * 10 ** 7
    if which == "goal-in-obstacle":
        return 300          # planners wait (sleeping 10 ms per poll) for a valid goal sample
    return budget + 600


def plan_quick(ck, names):
    """~3 environments x 2 budgets per planner + a rotating share of the adversarial generators."""
    jobs = []
    for pi, name in enumerate(names):
        r = ck.rng.fork("q:" + name)
        kinds = ["rv2", "rv3", "se2", car_kind(name, pi + ck.seed)]
        for e in range(3 if name in MULTILEVEL else 4):
            kind = kinds[e] if name not in MULTILEVEL else ["rv3", "se2", "rv3"][e]
            env = gen_env(r, kind, pdim=2 if name in MULTILEVEL else None)
            for budget in (r.choice([150, 400]), r.choice([4000, 8000])):
                jobs.append(env.clone(planner=name, seed=r.below(1000), budget=budget, pollcap=pollcap_for(name, budget),
                                      tag="random", interm=(1 if name in ("RRT", "RRTConnect") and e == 1 else None)))
        rr = ck.rng.fork("resume:" + name)
        for vi, variant in enumerate(RESUME_VARIANTS[:4]):
            kind = "rv3" if name in MULTILEVEL else ["rv2", "rv2", "rv3", "se2"][(pi + vi + ck.seed) % 4]
            rs = gen_resume(rr, kind, variant if not (variant == "short" and (pi + ck.seed) % 2) else "cleared")
            budget = rr.choice([1500, 5000])
            jobs.append(rs.clone(planner=name, seed=rr.below(100000), budget=budget, pollcap=pollcap_for(name, budget)))
        if name in MULTILEVEL:
            continue
        for wall in ("thin", "thick"):
            for rep in range(8 if name in THREE_ARG else 1):
                sm = gen_short_motion(r, wall)
                jobs.append(sm.clone(planner=name, seed=r.below(100000), budget=SHORT_BUDGET.get(name, 30000),
                                     pollcap=pollcap_for(name, SHORT_BUDGET.get(name, 30000))))
        for k in range(8 if name in DIRECTION_AWARE else 2):
            ow = gen_oneway(r, reverse=(k % 4 != 3))
            jobs.append(ow.clone(planner=name, seed=r.below(100000), budget=6000, pollcap=pollcap_for(name, 6000)))
        if name in ("RRT", "RRTConnect"):
            for k in range(10):
                im = gen_interm(r)
                jobs.append(im.clone(planner=name, seed=r.below(100000), budget=3000, pollcap=pollcap_for(name, 3000)))
        if name in DIRECTION_AWARE:
            for k in range(60 if name == "BiTRRT" else 30):
                dd = gen_dubins_directed(r)
                jobs.append(dd.clone(planner=name, seed=r.below(100000), budget=8000, pollcap=pollcap_for(name, 8000)))
        for a in range(3):
            which = ADVERSARIAL[(pi * 3 + a + ck.seed) % len(ADVERSARIAL)]
            adv = gen_adversarial(r, which)
            budget = 600 if which == "goal-in-obstacle" else r.choice([500, 5000])
            jobs.append(adv.clone(planner=name, seed=r.below(1000), budget=budget,
                                  pollcap=pollcap_for(name, budget, which)))
        if name not in EXTRA:
            rb = ck.rng.fork("bb:" + name)
            for k in range(BLIND_RUNS.get(name, 3) + 1):
                last = k == BLIND_RUNS.get(name, 3)         # the last one: with a goal state outside the bounds
                bb = gen_boundsblind(rb, ["rv2", "rv2", "rv3", "rv2", "se2", "rv2"][k % 6] if not last else "rv2", outside_goal=last)
                budget = rb.choice([300, 1000, 3000])
                jobs.append(bb.clone(planner=name, seed=rb.below(100000), budget=budget, pollcap=pollcap_for(name, budget)))
        if name not in EXTRA:
            rg = ck.rng.fork("mg:" + name)
            for k in range(1):
                mg = gen_multigoal(rg)
                budget = rg.choice([600, 4000])
                jobs.append(mg.clone(planner=name, seed=rg.below(100000), budget=budget, pollcap=pollcap_for(name, budget)))
    return jobs


def plan_thorough(ck, names):
    jobs = []
    kinds = ["rv2", "dubins", "rv3", "se2", "rv4", "se3", "rs", "rv3"]
    for pi, name in enumerate(names):
        r = ck.rng.fork("t:" + name)
        for e in range(14):
            kind = kinds[e % len(kinds)] if name not in MULTILEVEL else ["rv3", "se2"][e % 2]
            if kind in ("dubins", "rs"):
                kind = car_kind(name, e)
            env = gen_env(r, kind, pdim=2 if name in MULTILEVEL else None)
            for budget in (100, 600, 3000, 12000)[: (4 if e < 6 else 2)]:
                jobs.append(env.clone(planner=name, seed=r.below(100000), budget=budget, pollcap=pollcap_for(name, budget),
                                      interm=(1 if name in ("RRT", "RRTConnect") and e % 3 == 1 else None)))
        if name in MULTILEVEL:
            continue
        for wall in ("thin", "thick"):
            for rep in range(30 if name in THREE_ARG else 6):
                sm = gen_short_motion(r, wall)
                jobs.append(sm.clone(planner=name, seed=r.below(100000), budget=SHORT_BUDGET.get(name, 30000),
                                     pollcap=pollcap_for(name, SHORT_BUDGET.get(name, 30000))))
        for k in range(40 if name in DIRECTION_AWARE else 8):
            ow = gen_oneway(r, reverse=(k % 4 != 3))
            jobs.append(ow.clone(planner=name, seed=r.below(100000), budget=6000, pollcap=pollcap_for(name, 6000)))
        if name in ("RRT", "RRTConnect"):
            for k in range(60):
                im = gen_interm(r)
                jobs.append(im.clone(planner=name, seed=r.below(100000), budget=3000, pollcap=pollcap_for(name, 3000)))
        if name in DIRECTION_AWARE:
            for k in range(150):
                dd = gen_dubins_directed(r)
                jobs.append(dd.clone(planner=name, seed=r.below(100000), budget=8000, pollcap=pollcap_for(name, 8000)))
        for which in ADVERSARIAL:
            for rep in range(2):
                adv = gen_adversarial(r, which)
                budget = 600 if which == "goal-in-obstacle" else r.choice([500, 5000])
                jobs.append(adv.clone(planner=name, seed=r.below(100000), budget=budget,
                                      pollcap=pollcap_for(name, budget, which)))
        rr = ck.rng.fork("resume:" + name)
        for k in range(25):
            kind = "rv3" if name in MULTILEVEL else ["rv2", "rv2", "rv3", "se2"][k % 4]
            rs = gen_resume(rr, kind, RESUME_VARIANTS[k % 5])
            budget = rr.choice([1500, 5000, 10000])
            jobs.append(rs.clone(planner=name, seed=rr.below(100000), budget=budget, pollcap=pollcap_for(name, budget)))
        if name not in EXTRA and name not in MULTILEVEL:
            rb = ck.rng.fork("bb:" + name)
            for k in range(4 * BLIND_RUNS.get(name, 3) + 4):
                last = k >= 4 * BLIND_RUNS.get(name, 3)
                bb = gen_boundsblind(rb, ["rv2", "rv2", "rv3", "se2"][k % 4] if not last else "rv2", outside_goal=last)
                budget = rb.choice([300, 1000, 3000, 8000])
                jobs.append(bb.clone(planner=name, seed=rb.below(100000), budget=budget, pollcap=pollcap_for(name, budget)))
        if name not in EXTRA and name not in MULTILEVEL:
            rg = ck.rng.fork("mg:" + name)
            for k in range(10):
                mg = gen_multigoal(rg)
                budget = rg.choice([600, 4000, 8000])
                jobs.append(mg.clone(planner=name, seed=rg.below(100000), budget=budget, pollcap=pollcap_for(name, budget)))
    return jobs


def lockstep_jobs(ck, n):
    """a third each: RRT, RRTConnect, LazyPRM (the fully modelled planners)"""
    jobs = []
    r = ck.rng.fork("lockstep")
    for i in range(n):
        planner = ["RRT", "RRTConnect", "LazyPRM"][i % 3]
        env = gen_env(r, r.choice(["rv2", "rv2", "rv3"]))
        ext = extent(env)
        rng = r.choice([None, None, 0.0, 0.003 * ext, 0.05 * ext, 0.5 * ext, 3.0 * ext])
        adv = None
        if i % 7 in (3, 4):
            # (start-is-goal is left out for LazyPRM: two vertices at equal distance from every sample, and the code's
            # std::partial_sort is not stable - the only source of ties)
            adv = r.choice(["bad-starts", "zero-threshold", "goal-in-obstacle", "thin-corridor", "start-on-bounds"] +
                           ([] if planner == "LazyPRM" else ["start-is-goal"]))
            env = gen_adversarial(r, adv)
        if adv is None and i % 5 == 2:
            mg = gen_multigoal(r, r.choice(["rv2", "rv3"]))      # GoalStates: several goal roots / goal draws
            env = mg
            ext = extent(env)
            adv = "multi-goal"
        blind = 1 if (adv is None and i % 11 == 5) else 0
        iters = r.choice([0, 1, 7, 60, 300, 1500]) if rng != 0.003 * ext else r.choice([60, 300, 600])
        if adv == "goal-in-obstacle" and planner != "RRT":
            iters = min(iters, 60)      # nextGoal(ptc) sleeps 10 ms per waiting turn on an invalid goal
        if planner == "LazyPRM":
            iters = min(iters, 600)
        jobs.append(env.clone(planner=planner, mode="lockstep", seed=r.below(100000), budget=iters, pollcap=0, rng=rng,
                              interm=(r.below(2) if planner != "LazyPRM" else None),
                              bias=(r.choice([None, 0.05, 0.3, 0.0, 1.0]) if planner == "RRT" else None),
                              costthr=(r.choice(["inf", "inf", "zero"]) if planner == "LazyPRM" else None),
                              blind=blind, tag="lockstep" if adv != "multi-goal" else "lockstep:multi-goal"))
    return jobs


def run(ck):
    ck.level = "proof"
    ck.rule = ("one case = one real planner run (planner, environment, start(s), goal, threshold, range, resolution, seed, "
               "evaluation budget) judged by path_is_real; non-trivial = a solution status with a reported path of >= 3 states; "
               "lock-step cases: non-trivial = tree of >= 10 nodes reproduced bit for bit; distinct by full harness input")
    ck.trusted += ["harness/planners.cpp: recording validity checker / sampler / goal wrappers, derived class PeekRRT reading RRT's protected tree",
                   "the spec oracle's own geometry (Python doubles): bounds, box collision, R^n/SE(2)/SE(3) distances, segment/box intersection",
                   "Dubins / Reeds-Shepp runs: goal and edge distances are taken from the library (C14's subject)",
                   "planners other than RRT, RRTConnect and LazyPRM have no Lean model: they are covered only on the runs explored by this check",
                   "attribution of queried states to path edges (discipline lines) uses the library's distance function"]
    ck.assumptions += ["state validity is a pure function of the state (box environments)",
                       "interpolation is geodesic for the spaces used (C07), so curve length along an edge is t * distance",
                       "the strict form is demanded only of planners not listed in NOT_STRICT (reasons given there)"]
    WATCHDOG[0] = 40 if ck.tier == "quick" else 150
    ck.lean_build(LEAN_TARGETS)
    ck.audit(roots=["Drv.RRT", "Drv.LazyPRM"])
    if ck.tier == "thorough" and ck.lean_ok:
        ck.leanchecker(["OmplModel.Props.C01"])
    hbin = ck.build_harness("planners", ["planners.cpp"], link_ompl=True)
    workers = min(16, os.cpu_count() or 4)
    # one pool for everything; the planner runs (among them the few that hang until the watchdog) are submitted first so
    # that a hang overlaps with all the other work instead of adding to the wall time
    ex = concurrent.futures.ThreadPoolExecutor(workers)
    names = GEOMETRIC + EXTRA + MULTILEVEL
    jobs = plan_quick(ck, names) if ck.tier == "quick" else plan_thorough(ck, names)
    ck.log("%d planner runs on %d workers" % (len(jobs), workers))
    pfut = [ex.submit(run_problem, ck, hbin, p) for p in jobs]
    ljobs = lockstep_jobs(ck, 90 if ck.tier == "quick" else 750) if ck.lean_ok else []
    lfut = [ex.submit(lockstep_one, ck, hbin, p) for p in ljobs]
    hr = ck.rng.fork("history")
    hjobs = [gen_history(hr) for _ in range(150 if ck.tier == "quick" else 2500)] if ck.lean_ok else []
    hfut = [ex.submit(history_one, ck, hbin, p) for p in hjobs]
    hrc = ck.rng.fork("history-c")
    hcjobs = [gen_history_c(hrc) for _ in range(100 if ck.tier == "quick" else 1500)] if ck.lean_ok else []
    hcfut = [ex.submit(history_one_c, ck, hbin, p) for p in hcjobs]

    # ---- corpus first
    for name, lines, tag in corpus():
        p = problem_from_script(lines)
        p.tag = tag
        if p.mode == "history":
            ck.count("corpus-history")
            if ck.lean_ok:
                history_process(ck, hbin, [p], [(history_one_c if p.planner == "RRTConnect" else history_one)(ck, hbin, p)])
        elif p.mode == "lockstep":
            ok, what, impl, mod, R = lockstep_one(ck, hbin, p)
            ck.traces_validated += 1
            ck.case(p.key(), True)
            ck.count("corpus-lockstep")
            if not ok:
                ck.disagreements += 1
                ck.report({"engine": "rrt", "what": "corpus lock-step: " + str(what)}, script=p.script(), expected=mod, observed=impl,
                          found_input=False, engine="rrt", obligation="correspondence RRT.cpp vs OmplModel.Model.RRT (%s)" % name)
            judge(ck, hbin, p.clone(mode="run", budget=max(200, 20 * p.budget), pollcap=100000), None)
        else:
            ck.count("corpus-run")
            judge(ck, hbin, p)

    # ---- (a) RRT lock-step
    if ck.lean_ok:
        results = [f.result() for f in lfut]
        nbad = 0
        for p, (ok, what, impl, mod, R) in zip(ljobs, results):
            ck.traces_validated += 1
            ntree = 0
            for ln in (impl or [])[1:3]:
                if ln.startswith(("tree n=", "treeS n=", "treeG n=")):
                    ntree += int(ln.split()[1][2:])
                elif ln.startswith("roadmap nv="):
                    ntree += int(ln.split()[1][3:])
            ck.case(p.key(), ntree >= 10)
            ck.count("lockstep-runs")
            ck.count("lockstep-runs:" + p.planner)
            ck.count("lockstep-tree-nodes", ntree)
            ck.count("lockstep-draws", len(R.get("draws", [])))
            ck.count("lockstep:status:" + str(R.get("status")))
            ck.count("lockstep:interm=%s" % p.interm)
            if p.planner == "LazyPRM":
                ck.count("lockstep-lazyprm-astar-answers", len([x for x in R.get("draws", []) if x.startswith("astar")]))
                if (R.get("audit") or {}).get("connected_diffid", "0") != "0":
                    ck.count("lockstep-lazyprm:connected-but-different-component-id")
            if ok:
                # the real run's own output also goes through the spec oracle
                fails, obs = path_is_real(p, R)
                if fails:
                    judge(ck, hbin, p, R)
                continue
            nbad += 1
            ck.disagreements += 1
            if nbad > 3:
                continue
            # targeted search: the disagreement names a run on which model and code part ways; the property failure, if
            # any, is looked for by the spec oracle on that very run and on longer runs of the same problem
            found = False
            for mult in (1, 4, 16):
                q = p.clone(mode="run", budget=min(20000, max(200, p.budget * 30 * mult)), pollcap=10 ** 6, tag="lockstep-search",
                            costthr=None)
                if not judge(ck, hbin, q):
                    found = True
                    break
            if not found:
                ck.report({"engine": "rrt", "what": "model/implementation disagreement: " + str(what)}, script=p.script(),
                          expected=[m[:2000] for m in mod], observed=[m[:2000] for m in impl], found_input=False, engine="rrt",
                          obligation="correspondence %s.cpp vs OmplModel.Model.%s (lock-step: %s)" % (p.planner, p.planner, what))
            ck.log("lock-step disagreement %s (%s) seed=%d iters=%d interm=%s" % (p.planner, what, p.seed, p.budget, p.interm))

    # ---- (a') histories of one RRT object: lock-step with Model/RRTHistory.lean + the spec oracle call by call
    if ck.lean_ok:
        history_process(ck, hbin, hjobs, [f.result() for f in hfut])
        history_process(ck, hbin, hcjobs, [f.result() for f in hcfut])

    # ---- (b) all planners through the spec oracle
    results = [f.result() for f in pfut]
    ex.shutdown()
    bad = 0
    for p, R in zip(jobs, results):
        if not judge(ck, hbin, p, R):
            bad += 1
    ck.extra_cov["asymmetric_dubins_table"] = {"direction_aware": sorted(DIRECTION_AWARE), "forward_only": sorted(FORWARD_ONLY),
                                               "not_asymmetric": NOT_ASYMMETRIC}
    ck.extra_cov["vertex_valid_table"] = sorted(VERTEX_VALID)
    ck.extra_cov["strict_table"] = {"strict": [n for n in names if n not in NOT_STRICT], "not_strict": NOT_STRICT}
    ck.extra_cov["planners_run"] = len(names)
    return 0


def replay(ck, data):
    hbin = ck.build_harness("planners", ["planners.cpp"], link_ompl=True)
    p = problem_from_script(data["script"])
    p.tag = (data.get("record") or {}).get("class", "replay")
    if p.mode == "history":
        ck.lean_build([DRIVER])
        what, impl, mod, R, fails, obs = (history_one_c if p.planner == "RRTConnect" else history_one)(ck, hbin, p)
        for a, b in zip(impl, mod):
            if a != b:
                print("impl : %s\nmodel: %s" % (a[:400], b[:400]))
        for f in fails:
            print("PROPERTY FAILS [%s]: %s" % (f[0], f[1]))
        if what:
            print("LOCK-STEP DISAGREEMENT: %s" % what)
        if fails or what:
            return 1
        print("history %s: lock-step agrees and every solve() reports a real path on the current tree" % " ".join(p.hist))
        return 0
    if p.mode == "lockstep":
        ck.lean_build([DRIVER])
        ok, what, impl, mod, R = lockstep_one(ck, hbin, p)
        for a, b in zip(impl, mod):
            print("impl : %s\nmodel: %s" % (a[:400], b[:400]))
        if not ok:
            print("LOCK-STEP DISAGREEMENT: %s" % what)
            return 1
        print("lock-step agrees on the current tree")
        return 0
    R = run_problem(ck, hbin, p)
    fails, obs = path_is_real(p.env_at(None), R)
    for k, Rk in R.get("calls", []):
        fk, _ = path_is_real(p.env_at(k), Rk)
        print("call %d (%s): status %s solutions %s" % (k, p.calls[k], Rk.get("status"), Rk.get("after")))
        fails += [(f[0], "call %d (%s): %s" % (k, p.calls[k], f[1])) for f in fk]
    print("planner %s status %s solutions %s queries %s" % (p.planner, R.get("status"), R.get("after"), R.get("nq")))
    for f in fails:
        print("PROPERTY FAILS [%s]: %s" % (f[0], f[1]))
    if fails:
        return 1
    print("no failure on the current tree")
    return 0


MANIFEST = {
    "engine": "planners",
    "category": "proof",
    "design_ref": "DESIGN.md 2.1",
    "text": "Lean 4 theorems (46): (L0) the reporting layer shared by all planners (status truth table, PlannerInputStates "
            "nextStart/nextGoal filter and counters, PathGeometric::check, addSolutionPath bookkeeping); (L1) planners as oracle "
            "machines (run_congr, unasked_flip, undisciplined_refutable: unqueried stretches cannot be vouched for; "
            "checked_points_valid / discipline_sound: queried-valid points are valid and dense valid queries bound every invalid "
            "stretch); (L2) an executable model of geometric::RRT::solve with rrt_tree_inv and rrt_solution_real proved for every "
            "script of draws, validity predicate, goal, threshold, range and interruption point, plus rrt_inbounds; (L2b) the same for "
            "geometric::RRTConnect::solve/growTree (two trees, connect loop, path assembly from both trees, intermediate states: "
            "rrtconnect_tree_inv, rrtconnect_solution_real, rrtconnect_path_checks); (L2c) geometric::LazyPRM with A* as a checked "
            "oracle (lazyprm_roadmap_inv, lazyprm_removed_stay_removed, lazyprm_construct_validates, lazyprm_solution_real, and "
            "lazyprm_components_sound: same component id => connected, for runs on which the model's own self-check flag stays "
            "false, which the lock-step enforces; lazyprm_relabel_fuel_sufficient + lazyprm_unite_selfcheck_redundant + "
            "lazyprm_relabel_selfcheck_redundant: the as-coded fuel of the breadth-first relabelling always suffices, so of the two "
            "self-checks only the one after a vertex removal is still a hypothesis); approx_bookkeeping_real for the approximate-solution bookkeeping shared by the "
            "tree planners; (L2h, round 10) histories of ONE RRT object and problem definition (Model/RRTHistory.lean: solve on a kept tree, clear, "
            "addStartState, setRange, setThreshold, setIntermediateStates, setup, clearSolutionPaths): rrt_history_step / rrt_history_real - "
            "for EVERY finite sequence of calls every solve reports truthfully and every solution the problem definition holds is real, "
            "rrt_history_first_call, the same for one RRTConnect object (Model/RRTConnectHistory.lean: rrtconnect_history_first_call, rrtconnect_history_real, incl. the goal object's own sample position across clear()), hasApproximate_iff_all (the flag of a problem definition with several solutions); (L0g) GoalStates "
            "(goalstates_sampling, goalstates_distance, rrtconnect_goalstates_real, lazyprm_goalstates_real); rrt_unfiltered_goal_draw_fails "
            "(finding F310: a direct sampleGoal bypasses the bounds filter); the three models are tied to the C++ by bit-exact "
            "lock-step replay of recorded sampler/goal draws (trees, path, status, flags). Trace conformance: all 41 shipped "
            "geometric planners, LightningRetrieveRepair over a database of unvalidated experiences, and 4 multilevel planners "
            "(R^3 over R^2; SE(2) over R^2 aborts inside solve on the unchanged tree and is counted as a crash) are run on random and adversarial box environments and every reported "
            "solution is judged by an independent spec oracle (valid in-bounds start, bounds, goal/approximate/difference/status "
            "consistency, no invalid stretch longer than twice the resolution length, and for planners in the strict table every "
            "consecutive pair passes the motion check again, for RRT / RRTConnect with intermediate states (modelled and lock-stepped as fixed by fdd06210b: the added chain is the validator's own check points) every path state is valid; non-solution statuses add no path), including Dubins and Reeds-Shepp "
            "spaces for the planners that support them, a direction-sensitive motion validator (a motion may be valid one way and "
            "invalid the other: no reported edge may be blocked in the direction the path travels it, enforced for the planners "
            "whose code validates the travelled direction, counted for the others), and the constructive unobserved-gap attack "
            "on every solved run. Round 10 input classes: object histories of RRT in lock-step with the history model and judged call by call; "
            "resume histories for EVERY planner (sealed / opened doorway, solve-exact-resume, clear in between: every call's report is judged, "
            "a resumed call's status is held against the solutions that call registered); GoalStates goals with invalid / out-of-bounds / duplicate "
            "states for every planner and in the three lock-steps; a collision-only validity checker (bounds-blind) with corner goals and "
            "ranges comparable to the space.",
    "note": "Planners other than RRT, RRTConnect and LazyPRM are covered only on the runs explored (sampled seeds, environments, budgets); the theorems "
            "reduce their soundness to a per-run discipline which is observed, not proved. Trusted: Lean kernel, the three "
            "standard axioms, the hand-written RRT / RRTConnect models outside the lock-step runs, the harness's recording wrappers, the "
            "oracle's own geometry in Python, OMPL's Dubins/Reeds-Shepp distances where used.",
    "technique": "Lean 4 proof (oracle machines; invariant by induction over the sample script) + lock-step differential "
                 "correspondence + trace conformance against an independent spec oracle",
}
