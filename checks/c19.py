"""C19 — concurrent use through the documented thread-safe surface is race-free.

Two different things are checked, and they are labelled differently (DESIGN 2.19):

(i) PROOF level — sequential consistency of results and counters is a statement about read-modify-write atomicity
    and lock scopes.  Obligations: the theorems of lean/OmplModel/Props/C19.lean over the interleaving model
    (every schedule: atomic counters exact, plain counters lose updates, guarded adds linearizable, guarded nextSeed
    distinct, terminate seen, pRRT tree invariant) PLUS `surface_no_plain` in lean/OmplModel/Generated/SharedAccess.lean,
    which extract/shared_access.py regenerates from the CURRENT source on every run (declared type category and
    lock scope of every access site of every shared member of the surface).  A plain member makes that obligation
    fail to compile; the check then forces the corresponding lost update / race on the real code and reports it with
    a concrete replay.
(ii) EXPLORATION level — absence of C++ data races and soundness of the multi-threaded planners under real schedules
    is a runtime fact: harness/conc.cpp hammers every surface with 2..16 threads in a plain (ASan+UBSan) build and a
    ThreadSanitizer build (second libompl cache, lib/ompl_build_tsan.py), and runs pRRT / pSBL / CForest / PRM /
    AnytimePathShortening on box environments under schedule perturbation; results are judged by spec oracles in
    this file (counters == calls, answers == sequential answers, multiset/sortedness of solutions, path oracle).
    TSan reports are parsed and attributed to members/functions; only races in OMPL code are reported, minus an
    explicit allowlist (BENIGN) with reasons.  Nothing observed here is presented as a theorem.
(iii) LOCK-STEP (round 10) — harness/conc_trace.cpp records real pRRT runs at lock granularity and drv_conc replays each log on
    the Lean model the pRRT theorems quantify over (judge_trace: model output == log, plus an independent oracle on the log).
"""
import concurrent.futures
import fcntl
import hashlib
import math
import os
import re
import struct
import subprocess
import time

from lib import core, ompl_build, ompl_build_tsan
from extract import shared_access

LEVEL = "proof"
LEAN_TARGETS = ["OmplModel.Props.C19", "drv_conc"]
GEN_TARGET = "OmplModel.Generated.SharedAccess"
GEN_THEOREMS = ["OmplModel.Generated.SharedAccess.plain_members", "OmplModel.Generated.SharedAccess.surface_no_plain",
                "OmplModel.Generated.SharedAccess.surface_counters_exact",
                "OmplModel.Generated.SharedAccess.surface_adds_linearizable",
                "OmplModel.Generated.SharedAccess.surface_add_clear_linearizable",
                "OmplModel.Generated.SharedAccess.surface_seeds_distinct",
                "OmplModel.Generated.SharedAccess.planner_fields_guarded"]
TSAN_ENV = {"TSAN_OPTIONS": "halt_on_error=0:exitcode=0:history_size=7:second_deadlock_stack=1:report_thread_leaks=0"}
PLANNERS = ["pRRT", "pSBL", "CForest", "PRM", "APS"]

# which surface op exercises which extracted member (used to turn a `plain` verdict into a forced observation)
MEMBER_OPS = {
    "MotionValidator::valid_": ["force", "counters"],
    "MotionValidator::invalid_": ["force", "counters"],
    "PlannerTerminationConditionImpl::terminate_": ["terminate"],
    "PlannerTerminationConditionImpl::evalValue_": ["terminate"],
    "PlannerTerminationConditionImpl::signalThreadStop_": ["terminate"],
    "NearestNeighborsGNAT::": ["gnat"],
    "RNGSeedGenerator::": ["rng"],
    "PlannerSolutionSet::": ["solutions", "solmix", "solrace"],
    "AllocatedSpaces::": ["spaces"],
    "DefaultOutputHandler::": ["logging", "logpark"],
    "GoalLazySamples::": ["goallazy", "goalctl"],
    "CForest::": ["cfrace"],
    "CForestStateSampler::": ["cfrace"],
}

# TSan reports that are NOT reported, each with its reason.  (regex on "function@file" of the attributed OMPL site)
# Everything else located in OMPL code is a violation.  These are planner-internal, not the documented surface; the
# property demands of the multi-threaded planners that their *solutions* are sound (judged by the path oracle).
BENIGN = [
    # (site regex, regex every innermost source line must match, reason)
    (r"^pRRT::threadSolve@pRRT\.cpp$", r"sol->(solution|approxdif|approxsol)",
     "pRRT reads sol->solution (loop exit, pRRT.cpp:110) and sol->approxdif (pre-check, :153) without sol->lock as hints and "
     "re-checks approxdif under the lock before writing; every write is under the lock (model: PStep.upd is one guarded step)"),
    (r"^pSBL::threadSolve@pSBL\.cpp$", r"sol->found",
     "pSBL reads sol->found without sol->lock as its loop-exit hint; it is written once, under the lock"),
    (r"^PRM::addedNewSolution@PRM\.cpp ~ PRM::checkForSolution@PRM\.cpp$|^PRM::(addedNewSolution|checkForSolution)@PRM\.cpp$",
     r"addedNewSolution_",
     "PRM's addedNewSolution_ is a plain bool handed from the solution thread to the roadmap thread's termination condition; "
     "a late read only delays termination, the path itself is built under graphMutex_ and joined before use"),
]


def f2b(x):
    return str(struct.unpack("<Q", struct.pack("<d", float(x)))[0])


def b2f(s):
    return struct.unpack("<d", struct.pack("<Q", int(s)))[0]


# ------------------------------------------------------------------------------------------ builds
def build_tsan(ck):
    """conc.cpp compiled with -fsanitize=thread against the TSan-instrumented libompl cache of the current tree"""
    info = ompl_build_tsan.ensure_built(ck.log)
    ck.log("TSan libompl ready (%.1fs, rebuilt=%s)" % (info["seconds"], info["rebuilt"]))
    h = hashlib.sha1()
    h.update(ompl_build.src_tree_digest().encode())
    srcs = [os.path.join(core.HARNESS, "conc.cpp")]
    for d, _, files in os.walk(os.path.join(core.HARNESS, "common")):
        for f in sorted(files):
            h.update(open(os.path.join(d, f), "rb").read())
    for s in srcs:
        h.update(open(s, "rb").read())
    flags = ["-std=c++17", "-O1", "-g", "-fsanitize=thread", "-fno-omit-frame-pointer", "-DNDEBUG", "-D" + ompl_build.GUARD,
             "-I" + core.HARNESS] + ["-I" + i for i in info["includes"]]
    libs = ["-L" + info["libdir"], "-lompl", "-Wl,-rpath," + info["libdir"], "-lboost_serialization", "-lboost_filesystem",
            "-lboost_system", "-lpthread"]
    h.update(" ".join(flags).encode())
    h.update(str(os.path.getmtime(info["lib"])).encode())
    out = os.path.join(core.BIN, "conc_tsan-%s" % h.hexdigest()[:16])
    if not os.path.isfile(out):
        for old in os.listdir(core.BIN):
            if old.startswith("conc_tsan-"):
                os.remove(os.path.join(core.BIN, old))
        t = time.time()
        r = subprocess.run(["g++"] + flags + srcs + ["-o", out + ".tmp"] + libs, stdout=subprocess.PIPE, stderr=subprocess.PIPE, text=True)
        if r.returncode != 0:
            raise RuntimeError("harness conc (tsan) does not compile against the current tree:\n" + r.stderr[-4000:])
        os.replace(out + ".tmp", out)
        ck.log("harness conc_tsan compiled (%.1fs)" % (time.time() - t))
    return out


def build_plain(ck):
    return ck.build_harness("conc", ["conc.cpp"], link_ompl=True)


def build_trace(ck):
    return ck.build_harness("conc_trace", ["conc_trace.cpp"], link_ompl=True)


# ------------------------------------------------------------------------------------------ environments
ENVS = [
    {"name": "wall2", "dim": 2, "boxes": [((0.4, 0.0), (0.5, 0.7))], "start": (0.1, 0.1), "goal": (0.9, 0.1)},
    {"name": "zigzag2", "dim": 2, "boxes": [((0.3, 0.0), (0.4, 0.6)), ((0.6, 0.4), (0.7, 1.0))], "start": (0.1, 0.5), "goal": (0.9, 0.5)},
    {"name": "slab3", "dim": 3, "boxes": [((0.45, 0.0, 0.0), (0.55, 0.8, 1.0))], "start": (0.1, 0.1, 0.5), "goal": (0.9, 0.1, 0.5)},
    {"name": "free2", "dim": 2, "boxes": [], "start": (0.2, 0.2), "goal": (0.8, 0.8)},
]


def in_box(p, box, slack=0.0):
    return all(box[0][d] + slack <= p[d] <= box[1][d] - slack for d in range(len(box[0])))


def random_env(rng, idx):
    dim = rng.choice([2, 2, 3])
    while True:
        boxes = []
        for _ in range(rng.range(1, 4)):
            lo = [rng.uniform(0.1, 0.8) for _ in range(dim)]
            hi = [min(1.0, l + rng.uniform(0.05, 0.3)) for l in lo]
            boxes.append((tuple(lo), tuple(hi)))
        start = tuple(rng.uniform(0.02, 0.98) for _ in range(dim))
        goal = tuple(rng.uniform(0.02, 0.98) for _ in range(dim))
        if any(in_box(start, b) or in_box(goal, b) for b in boxes):
            continue
        if math.dist(start, goal) < 0.4:
            continue
        return {"name": "rand%d" % idx, "dim": dim, "boxes": boxes, "start": start, "goal": goal}


def planner_line(name, threads, budget, permille, env, resolution=0.02, threshold=0.05):
    dim = env["dim"]
    t = ["planner", name, str(threads), str(budget), str(permille), f2b(resolution), f2b(threshold),
         "rv", str(dim)] + [f2b(0.0)] * dim + [f2b(1.0)] * dim
    t += ["boxes", str(dim), str(len(env["boxes"]))]
    for lo, hi in env["boxes"]:
        t += [f2b(x) for x in lo] + [f2b(x) for x in hi]
    t += [f2b(x) for x in env["start"]] + [f2b(x) for x in env["goal"]]
    return " ".join(t)


def parse_planner_line(line):
    """inverse of planner_line (for replays and the oracle)"""
    t = line.split()
    name, threads, budget, permille = t[1], int(t[2]), int(t[3]), int(t[4])
    resolution, threshold = b2f(t[5]), b2f(t[6])
    assert t[7] == "rv"
    dim = int(t[8])
    i = 9 + 2 * dim
    assert t[i] == "boxes"
    k = int(t[i + 2])
    i += 3
    boxes = []
    for _ in range(k):
        lo = tuple(b2f(x) for x in t[i:i + dim])
        hi = tuple(b2f(x) for x in t[i + dim:i + 2 * dim])
        boxes.append((lo, hi))
        i += 2 * dim
    start = tuple(b2f(x) for x in t[i:i + dim])
    goal = tuple(b2f(x) for x in t[i + dim:i + 2 * dim])
    return {"planner": name, "threads": threads, "budget": budget, "permille": permille, "resolution": resolution,
            "threshold": threshold, "dim": dim, "boxes": boxes, "start": start, "goal": goal}


# ------------------------------------------------------------------------------------------ oracles
def kv(line):
    d = {}
    for tok in line.split()[1:]:
        if "=" in tok:
            k, v = tok.split("=", 1)
            d[k] = v
    return d


def judge_surface(op_line, out_line):
    """spec oracle for one surface op, on the implementation's own output.  Returns None or a failure text."""
    op = op_line.split()[0]
    if out_line is None:
        return "no output (crash / sanitizer abort / timeout)"
    if out_line.startswith("exception") or out_line == "bad-op" or not out_line.startswith(op + " "):
        return "unexpected result line %r" % out_line[:200]
    d = kv(out_line)
    a = op_line.split()
    try:
        if op == "force":
            if d["valid"] != d["expected_valid"] or d["invalid"] != d["expected_invalid"]:
                return ("lost update: %s threads x %s rounds x %s calls of each checkMotion form: valid=%s (expected %s) invalid=%s (expected %s)"
                        % (a[1], a[2], a[3], d["valid"], d["expected_valid"], d["invalid"], d["expected_invalid"]))
            if int(d["checked"]) != int(d["valid"]) + int(d["invalid"]):
                return "getCheckedMotionCount() != valid + invalid"
        elif op == "counters":
            if d["mismatches"] != "0":
                return "%s checkMotion/isValid answers differ from the sequential answers" % d["mismatches"]
            if d["seq_total"] != d["calls"]:
                return "sequential run: valid+invalid=%s after %s calls" % (d["seq_total"], d["calls"])
            if d["valid"] != d["expected_valid"] or d["invalid"] != d["expected_invalid"]:
                return ("motion counters after %s concurrent checkMotion calls from %s threads: valid=%s (expected %s) invalid=%s (expected %s)"
                        % (d["calls"], d["threads"], d["valid"], d["expected_valid"], d["invalid"], d["expected_invalid"]))
        elif op == "gnat":
            if d["seq_wrong"] != "0":
                return "sequential GNAT answers differ from exhaustive search (%s queries)" % d["seq_wrong"]
            if d["mismatches"] != "0":
                return "%s concurrent nearest/nearestK/nearestR answers differ from the sequential answers" % d["mismatches"]
        elif op == "rng":
            want = int(a[1]) * int(a[2])
            if int(d["created"]) != want:
                return "created %s generators, expected %d" % (d["created"], want)
            if int(d["window"]) < 0:
                return ("the %s seeds handed out concurrently are not a contiguous window of the seed stream "
                        "(distinct=%s): a stream position was handed out twice or skipped" % (d["created"], d["distinct"]))
            if d["distinct"] != d["ref_distinct"]:
                return "distinct seeds %s != %s in the reference window" % (d["distinct"], d["ref_distinct"])
            if d.get("equal_columns", "0") != "0":
                return ("the k-th generator created by every thread received the same seed for %s values of k: the seed stream is "
                        "per thread, not one sequence shared by all threads" % d["equal_columns"])
        elif op == "spaces":
            if d["distinct_names"] != d["created"]:
                return "%s spaces created but only %s distinct automatic names" % (d["created"], d["distinct_names"])
            if d["registry_after"] != d["registry_before"]:
                return "registry holds %s spaces after all were destroyed (before: %s)" % (d["registry_after"], d["registry_before"])
        elif op == "solutions":
            if d["final"] != d["added"] or d["multiset_ok"] != "1":
                return "added %s solutions, getSolutions() returns %s (multiset equal: %s)" % (d["added"], d["final"], d["multiset_ok"])
            if d["sorted_ok"] != "1" or d["snapshots_bad"] != "0":
                return "solution order violated (final sorted=%s, unsorted snapshots=%s)" % (d["sorted_ok"], d["snapshots_bad"])
            if d["distinct_index"] != d["final"]:
                return "solution indices not distinct (%s of %s)" % (d["distinct_index"], d["final"])
            if d["shrink"] != "0":
                return "a reader saw the solution set shrink (%s times)" % d["shrink"]
        elif op == "solmix":
            if d["resurrected"] != "0" or d["snap_resurrected"] != "0":
                return ("%s solution(s) in the final set (%s in reader snapshots) whose addSolutionPath had returned before a "
                        "clearSolutionPaths started: no sequential order of the calls keeps them"
                        % (d["resurrected"], d["snap_resurrected"]))
            if d["dropped"] != "0" or d["snap_dropped"] != "0":
                return ("%s solution(s) missing from the final set (%s from reader snapshots) although they were added after "
                        "every clearSolutionPaths had returned" % (d["dropped"], d["snap_dropped"]))
            if d["unknown"] != "0" or d["duplicates"] != "0":
                return "getSolutions() returned %s unknown / %s duplicated solutions" % (d["unknown"], d["duplicates"])
            if d["sorted_ok"] != "1" or d["snapshots_unsorted"] != "0":
                return "solution order violated (final sorted=%s, unsorted snapshots=%s)" % (d["sorted_ok"], d["snapshots_unsorted"])
        elif op == "solrace":
            if d["held"] != d["rounds"]:
                return "the add under test never reached its sort (%s of %s rounds): scenario did not run" % (d["held"], d["rounds"])
            if d["bad"] != "0":
                return ("add(x) concurrent with clearSolutionPaths(); %s adds: in %s of %s rounds the final set {%s} is neither "
                        "{101..} nor {101..}+{x} — cleared solutions resurrected / new ones dropped; no sequential order gives that"
                        % (a[1], d["bad"], d["rounds"], d["first_bad"]))
        elif op == "cfrace":
            if int(d["serialised"]) + int(d["overtaken"]) != int(d["rounds"]):
                return "the two reports never met (%s+%s of %s rounds): scenario did not run" % (d["serialised"], d["overtaken"], d["rounds"])
            if d["bad"] != "0":
                return ("CForest::newSolutionFound, schedule `A enters the cost comparison of its report; B reports completely; A "
                        "finishes`: in %s of %s rounds the outcome is not that of any sequential order of the two reports (best cost "
                        "must be min(A,B) and equal the best solution's cost; paths shared = strict improvements in A;B or B;A) — %s"
                        % (d["bad"], d["rounds"], d["first_bad"]))
        elif op == "cfsamplers":
            if d["status"] not in ("EXACT_SOLUTION", "APPROXIMATE_SOLUTION", "TIMEOUT"):
                return "CForest status %s" % d["status"]
            if d.get("monitor") == "1" and (d["polls_nonzero"] != "1" or d["cost_went_up"] != "0" or d["count_went_down"] != "0"):
                return ("progress properties polled during solve: best cost went up %s times, a shared counter went down %s times "
                        "(polled at all: %s)" % (d["cost_went_up"], d["count_went_down"], d["polls_nonzero"]))
            if d["held"] != "1":
                return "the last instance was not held in its sampler allocation (held=%s): scenario did not run" % d["held"]
        elif op == "logging":
            if d["received"] != d["sent"]:
                return "%s messages sent, handlers received %s" % (d["sent"], d["received"])
            if d["getter_null"] != "0":
                return "getOutputHandler() returned null %s times while a handler was always installed" % d["getter_null"]
        elif op == "goallazy":
            if d["count"] != d["expected"] or d["content_ok"] != "1":
                return ("the goal holds %s states, the sampler's sequence and the callback determine %s (content equal: %s)"
                        % (d["count"], d["expected"], d["content_ok"]))
            if d["attempts"] != d["true_calls"]:
                return "samplingAttemptsCount() = %s after %s sampler calls that returned true" % (d["attempts"], d["true_calls"])
            for key, txt in (("stop_ok", "after stopSampling() returned the goal still changed / isSampling() was true"),
                             ("restart_ok", "startSampling() after stopSampling() did not run the sampler to its end"),
                             ("destroy_ok", "the sampler was called after ~GoalLazySamples() had returned")):
                if d[key] != "1":
                    return txt
            if d["reader_bad"] != "0" or d["monotone_bad"] != "0":
                return "readers saw %s foreign/inconsistent states and %s decreasing counts" % (d["reader_bad"], d["monotone_bad"])
        elif op == "goalctl":
            if d.get("hung_in_cycle", "-1") != "-1":
                return ("two threads called stopSampling() at the same moment (cycle %s): %s of 2 calls returned within 4 s "
                        "(both join and delete the same std::thread)" % (d["hung_in_cycle"], d["finished_callers"]))
            if d["exceptions"] != "0":
                return "stopSampling() threw (%s times)" % d["exceptions"]
            if d["still_sampling"] != "0" or d["called_after_stop"] != "0":
                return ("after stopSampling() returned, isSampling() was still true in %s cycles and the sampler was called again in %s"
                        % (d["still_sampling"], d["called_after_stop"]))
            if d["idle_cycles"] != "0":
                return "startSampling() after a stopSampling() did not sample in %s of %s cycles" % (d["idle_cycles"], d["cycles"])
            if int(d["states"]) > 7:
                return "the goal holds %s states, the sampler only ever produces 7 distinct ones" % d["states"]
        elif op == "logpark":
            if d["overlap"] != "0":
                return ("OutputHandler::log() was entered by a second thread while another one was inside it (%s times in %s rounds): "
                        "handlers are not serialised by the console" % (d["overlap"], d["rounds"]))
            for key, fn in (("stale_use", "useOutputHandler"), ("stale_none", "noOutputHandler"), ("stale_restore", "restorePreviousOutputHandler")):
                if d[key] != "0":
                    return ("msg::%s() returned while a message was still being written by the handler it replaced (%s of %s rounds)"
                            % (fn, d[key], d["rounds"]))
            if d["order_bad"] != "0":
                return "a handler received the messages of one thread out of program order (%s times)" % d["order_bad"]
            if d["counts_ok"] != "1":
                return "messages lost or duplicated: sent=%s received=%s" % (d["sent"], d["received"])
            if int(d["parked_missing"]) >= 4 * int(d["rounds"]):
                return "no thread ever parked inside the handler: scenario did not run"
        elif op == "terminate":
            if a[2] == "2" and d["handshake"] != "1":
                return "the periodic evaluation thread never entered the predicate: scenario did not run"
            if d["seen"] != d["pollers"]:
                return ("terminate() was seen by %s of %s polling threads (form %s%s)" % (
                    d["seen"], d["pollers"], {"0": "direct", "1": "periodic", "2": "periodic, predicate blocked inside its call "
                                              "while terminate() arrived and answering false afterwards"}[a[2]], ""))
            if d["phantom"] != "0":
                return "eval() returned true before terminate() was called (%s threads)" % d["phantom"]
            if d["sticky"] != "1":
                return "eval() reverted to false after terminate()"
    except KeyError as e:
        return "result line lacks %s: %r" % (e, out_line[:200])
    return None


def collides(p, boxes, slack):
    return any(in_box(p, b, slack) for b in boxes)


def judge_path(op_line, out_line):
    """path oracle (independent of OMPL): start, bounds, valid vertices, goal; every edge: gap form (no invalid stretch
    longer than 2 x the resolution length, exact segment/box intersection) and, for the planners that assemble paths from
    individually validated motions, the strict form (every j/n subdivision point valid, i.e. checkMotion passes again)"""
    if out_line is None:
        return "no output (crash / sanitizer abort / timeout / deadlock)", {}
    if not out_line.startswith("planner "):
        return "unexpected result line %r" % out_line[:200], {}
    P = parse_planner_line(op_line)
    head, _, tail = out_line.partition(" path")
    d = kv(head)
    info = {"status": d.get("status"), "nstates": int(d.get("nstates", "0")), "approx": d.get("approx")}
    st = d.get("status")
    if st == "UNKNOWN" and P["planner"] == "APS" and info["nstates"] == 0:
        return None, info    # AnytimePathShortening reports "budget spent, nothing found" as UNKNOWN
    if st in ("CRASH", "ABORT", "UNKNOWN", "INVALID_START", "INVALID_GOAL", "UNRECOGNIZED_GOAL_TYPE"):
        return "planner status %s on a well-posed problem" % st, info
    if "aps_best" in d:
        # AnytimePathShortening's bookkeeping (theorem aps_best_cost_is_min_of_stored): bestCost_ is the cost of a stored
        # path, and the cheapest one (bit patterns; +infinity when nothing is stored)
        if d["aps_best_is_stored"] != "1" or d["aps_best"] != d["aps_min_stored"]:
            return ("AnytimePathShortening: bestCost_ = %.17g, cheapest stored path costs %.17g (bestCost_ is a stored cost: %s)"
                    % (b2f(d["aps_best"]), b2f(d["aps_min_stored"]), d["aps_best_is_stored"])), info
        info["aps_bookkeeping"] = 1
    n = info["nstates"]
    if st in ("EXACT_SOLUTION", "APPROXIMATE_SOLUTION") and n == 0:
        return "status %s but no solution path in the problem definition" % st, info
    if n == 0:
        return None, info
    dim = P["dim"]
    vals = [b2f(x) for x in tail.split()]
    if len(vals) != n * dim:
        return "path has %d reals for %d states of dimension %d" % (len(vals), n, dim), info
    pts = [tuple(vals[i * dim:(i + 1) * dim]) for i in range(n)]
    L = b2f(d["resolution_len"])
    eps = 1e-9
    if math.dist(pts[0], P["start"]) > eps:
        return "path starts at %r, not at the start state %r" % (pts[0], P["start"]), info
    for i, p in enumerate(pts):
        if any(x < -eps or x > 1 + eps for x in p):
            return "path state %d %r is out of bounds" % (i, p), info
        if collides(p, P["boxes"], eps):
            return "path state %d %r is inside an obstacle" % (i, p), info
    gd = math.dist(pts[-1], P["goal"])
    if d.get("approx") == "0":
        if st != "EXACT_SOLUTION" and st != "APPROXIMATE_SOLUTION":
            pass
        if gd > P["threshold"] + eps:
            return "exact solution ends %.6g from the goal (threshold %.6g)" % (gd, P["threshold"]), info
    else:
        diff = b2f(d["diff"])
        if abs(diff - gd) > 1e-9 * max(1.0, gd):
            return "approximate solution reports difference %.9g but ends %.9g from the goal" % (diff, gd), info
    worst = 0.0
    for i in range(n - 1):
        a, b = pts[i], pts[i + 1]
        dist = math.dist(a, b)
        # gap form (every planner; C01's reading of the property): no invalid stretch longer than twice the resolution
        # length.  Exact: the segment is straight and the obstacles are boxes, so the invalid set is a union of
        # parameter intervals (slab method); path vertices are valid (checked above), so a stretch ends inside its edge.
        for t0, t1 in invalid_intervals(a, b, P["boxes"], eps):
            length = (t1 - t0) * dist
            worst = max(worst, length / L)
            if length > 2 * L:
                return ("gap: edge %d (%r -> %r) is inside an obstacle for t in [%.6f, %.6f], a stretch of %.6g = %.2f x the "
                        "resolution length %.6g (allowed: 2 x)" % (i, a, b, t0, t1, length, length / L, L)), info
        if P["planner"] in NOT_STRICT:
            continue
        # strict form (planners that assemble paths from individually validated motions): checkMotion passes again,
        # i.e. every j/n subdivision point of the edge is valid
        # validSegmentCount exactly as the library computes it: RealVectorStateSpace::distance accumulates the squared
        # differences in index order and takes sqrt (math.dist rounds differently by an ulp, which flips the ceil when an
        # edge is an exact multiple of the resolution length — e.g. pRRT's range = 10 x resolution length here)
        nd = max(1, int(math.ceil(rv_distance(a, b) / L)))
        for j in range(nd + 1):
            t = j / nd
            q = tuple(a[k] + (b[k] - a[k]) * t for k in range(dim))
            if collides(q, P["boxes"], eps) or any(x < -eps or x > 1 + eps for x in q):
                return ("strict: edge %d (%r -> %r) is invalid at t=%d/%d: %r lies %s" %
                        (i, a, b, j, nd, q, "inside an obstacle" if collides(q, P["boxes"], eps) else "out of bounds")), info
    info["worst_invalid_stretch_in_L"] = worst
    return None, info


# Planners held only to the gap form (and to valid vertices), as in checks/c01.py NOT_STRICT: their reported path is not
# assembled from individually validated motions.
NOT_STRICT = {
    "APS": "AnytimePathShortening reports paths re-interpolated, shortcut and hybridized by PathSimplifier / PathHybridization: "
           "vertices are new interpolated states and an edge's own j/n points are not the ones that were queried (C01 NOT_STRICT)",
}


def rv_distance(a, b):
    """RealVectorStateSpace::distance, operation for operation (bit-identical doubles)"""
    acc = 0.0
    for k in range(len(a)):
        diff = a[k] - b[k]
        acc += diff * diff
    return math.sqrt(acc)


def invalid_intervals(a, b, boxes, slack):
    """merged parameter intervals [t0, t1] of the segment a->b lying inside some (slightly shrunk, closed) box"""
    out = []
    for lo, hi in boxes:
        t0, t1 = 0.0, 1.0
        ok = True
        for k in range(len(lo)):
            l, h = lo[k] + slack, hi[k] - slack
            d = b[k] - a[k]
            if d == 0.0:
                if a[k] < l or a[k] > h:
                    ok = False
                    break
                continue
            u, v = (l - a[k]) / d, (h - a[k]) / d
            if u > v:
                u, v = v, u
            t0, t1 = max(t0, u), min(t1, v)
            if t0 > t1:
                ok = False
                break
        if ok:
            out.append((t0, t1))
    out.sort()
    merged = []
    for t0, t1 in out:
        if merged and t0 <= merged[-1][1]:
            merged[-1] = (merged[-1][0], max(merged[-1][1], t1))
        else:
            merged.append((t0, t1))
    return merged


# ------------------------------------------------------------------------------------------ pRRT lock-step replay
# (round 10) harness/conc_trace.cpp records a real pRRT run at lock granularity; drv_conc replays the log on the Lean
# interleaving model (PStep/PStore of Model/Interleave.lean with the concrete environment and solve()'s epilogue of
# Model/InterleavePrrtRun.lean).  "The run is an execution of the model" = the driver's output equals the log.
TRACE_ENVS = ENVS + [
    {"name": "free1", "dim": 1, "boxes": [], "start": (0.1,), "goal": (0.9,)},
    {"name": "blocked1", "dim": 1, "boxes": [((0.45,), (0.55,))], "start": (0.1,), "goal": (0.9,)},     # goal unreachable
    {"name": "pocket2", "dim": 2, "boxes": [((0.6, 0.3), (0.65, 0.7)), ((0.6, 0.3), (1.0, 0.35)), ((0.6, 0.65), (1.0, 0.7))],
     "start": (0.1, 0.5), "goal": (0.8, 0.5)},
    {"name": "startisgoal2", "dim": 2, "boxes": [], "start": (0.5, 0.5), "goal": (0.5, 0.5)},
]


def trace_line(threads, budget, permille, env, resolution, threshold, prange, goal_bias, gate=0):
    dim = env["dim"]
    t = ["prrt", str(threads), str(budget), str(permille), f2b(resolution), f2b(threshold), f2b(prange) if prange else "0",
         f2b(goal_bias), str(gate), "rv", str(dim)] + [f2b(0.0)] * dim + [f2b(1.0)] * dim
    t += ["boxes", str(dim), str(len(env["boxes"]))]
    for lo, hi in env["boxes"]:
        t += [f2b(x) for x in lo] + [f2b(x) for x in hi]
    t += [f2b(x) for x in env["start"]] + [f2b(x) for x in env["goal"]]
    return " ".join(t)


def parse_trace_line(line):
    t = line.split()
    P = {"threads": int(t[1]), "budget": int(t[2]), "permille": int(t[3]), "resolution": b2f(t[4]), "threshold": b2f(t[5]),
         "range": b2f(t[6]), "goal_bias": b2f(t[7]), "gate": int(t[8])}
    assert t[9] == "rv"
    dim = int(t[10])
    i = 11 + 2 * dim
    assert t[i] == "boxes"
    k = int(t[i + 2])
    i += 3
    boxes = []
    for _ in range(k):
        boxes.append((tuple(b2f(x) for x in t[i:i + dim]), tuple(b2f(x) for x in t[i + dim:i + 2 * dim])))
        i += 2 * dim
    P.update(dim=dim, boxes=boxes, start=tuple(b2f(x) for x in t[i:i + dim]), goal=tuple(b2f(x) for x in t[i + dim:i + 2 * dim]))
    return P


def trace_ops(rng, tier):
    n = 14 if tier == "quick" else 90
    ops = []
    envs = list(TRACE_ENVS) + [random_env(rng.fork("tenv%d" % i), i) for i in range(2 if tier == "quick" else 10)]
    for i in range(n):
        env = envs[i % len(envs)] if i < len(envs) else rng.choice(envs)
        threads = rng.choice([2, 2, 3, 4, 6, 8, 12, 16])
        budget = rng.choice([1, 20, 60, 150, 400, 1000, 2500])
        if env["name"] in ("blocked1", "pocket2") and budget > 1000:
            budget = 1000
        permille = rng.choice([0, 0, 20, 100, 300])
        prange = rng.choice([0, 0, 0, 0.03, 0.05, 0.5, 3.0])          # 0 = default (0.2 x extent); 3.0 never steers
        bias = rng.choice([0.05, 0.05, 0.0, 0.5, 1.0])
        threshold = rng.choice([0.05, 0.05, 0.2, 1e-9, 0.0])          # 0.0: `dist < 0` never holds, always approximate
        resolution = rng.choice([0.02, 0.02, 0.01, 0.2])
        ops.append(trace_line(threads, budget, permille, env, resolution, threshold, prange, bias))
    # directed schedule for the check-then-act window of the approximate-solution update: never satisfied (threshold 0),
    # short runs (a wrong last writer is not repaired by a later, closer state), solution updates started in pairs
    for i in range(16 if tier == "quick" else 120):
        env = TRACE_ENVS[rng.choice([3, 3, 3, 4])]             # free space: every motion is valid, every iteration updates
        threads = rng.choice([2, 2, 3, 4])
        # budget ~ number of workers: each gets one or two iterations, all of them record-setting (approxdif starts at
        # +infinity), and nothing later repairs a wrong last writer
        ops.append(trace_line(threads, rng.choice([2, 3, 4, 6]), 0, env, 0.02, 0.0, rng.choice([0, 0.5, 3.0]), 0.0, gate=1000))
    return ops


def run_trace(ck, hbin, seed, op_line, timeout=240):
    script = ["conctrace %d" % seed, op_line]
    out, rc, err = ck.run_bin(hbin, script, timeout=timeout)
    res = {"script": script, "out": out or [], "rc": rc, "err": err or "", "op": op_line, "model": None}
    if op_line.startswith("prrtrace"):
        res["events"] = []
        return res
    ev = [l for l in res["out"] if l[:2] in ("N ", "C ", "A ", "G ", "E ") or l.startswith("prrt ")]
    if ev and ev[0].startswith("prrt ") and rc == 0:
        m, rc2, err2 = ck.run_bin(ck.driver("drv_conc"), ev, timeout=timeout)
        res["model"] = m if rc2 == 0 else None
        res["model_err"] = "rc=%s %s" % (rc2, (err2 or "")[-300:])
    res["events"] = ev
    return res


def check_motion_exact(a, b, boxes, L):
    """DiscreteMotionValidator::checkMotion(s1, s2) over the unit box with box obstacles, operation for operation:
    end state valid, then every interpolate(s1, s2, j/nd) for j = 1..nd-1 (the order of the bisection does not matter for
    the answer), nd = ceil(distance / longestValidSegment); validity = satisfiesBounds (epsilon margin) and outside every box"""
    eps = 2.220446049250313e-16

    def valid(q):
        if any(x - eps > 1.0 or x + eps < 0.0 for x in q):
            return False
        return not any(all(lo[d] <= q[d] <= hi[d] for d in range(len(q))) for lo, hi in boxes)
    if not valid(b):
        return False
    nd = int(math.ceil(rv_distance(a, b) / L))
    for j in range(1, nd):
        t = float(j) / float(nd)
        if not valid(tuple(a[k] + (b[k] - a[k]) * t for k in range(len(a)))):
            return False
    return True


def judge_trace(op_line, res):
    """returns (kind, what, info): kind None = fine, 'oracle' = the real run violates the spec (independent of the model),
    'correspondence' = the run is not an execution of the Lean model"""
    info = {}
    out = res["out"]
    if op_line.startswith("prrtrace"):
        # directed schedule: every worker passes the unlocked pre-check, then they take sol->lock one after the other;
        # approxdif/approxsol must end as the closest added state in every round (prrt_approx_is_closest)
        if res["rc"] != 0 or not out or not out[0].startswith("prrtrace "):
            return "oracle", "no output (rc=%s): %s" % (res["rc"], res["err"][-300:]), info
        d = kv(out[0])
        info.update(directed=1, synced=int(d["synced"]), rounds=int(d["rounds"]), workers=int(d["workers"]), status="directed")
        if int(d["wrong"]) != 0:
            fw = d["first_wrong"]
            try:
                rnd, rest = fw.split(":", 1)
                ds, fin = rest.split("->")
                txt = "round %s: workers added states at goal distances %s, approxdif ended as %.17g (closest: %.17g)" % (
                    rnd, [b2f(x) for x in ds.split(",") if x], b2f(fin), min(b2f(x) for x in ds.split(",") if x))
            except ValueError:
                txt = fw
            return "oracle", ("in %s of %s rounds the approximate solution is not the closest added state after all workers "
                              "passed the pre-check and took sol->lock in turn; %s" % (d["wrong"], d["rounds"], txt)), info
        return None, None, info
    P = parse_trace_line(op_line)
    dim = P["dim"]
    if res["rc"] != 0 or not out or not out[-1].startswith("Z "):
        return "oracle", "no complete output (rc=%s): %s" % (res["rc"], res["err"][-300:]), info
    z = kv(out[-1])
    info["status"] = z.get("status")
    ev = res["events"]
    hdr = ev[0].split()
    maxd = b2f(hdr[2])
    info["range"] = maxd
    L = b2f(z["resolution_len"])

    def vec(toks):
        return tuple(b2f(x) for x in toks)
    root = tuple(hdr[4 + dim:4 + 2 * dim])
    if vec(root) != P["start"]:
        return "oracle", "root is not the start state", info
    # ---- per-worker program order (thread-local part of the loop body) and the tree
    last = {}            # worker -> (kind, tokens) of its previous event
    edges = set()        # (child bits, parent bits) of every add
    nodes = {root}
    node_vals = [vec(root)]
    answered = {}        # (from, to) -> answer
    goal_events = []     # (state bits, dist, solved)
    counts = {"N": 0, "C": 0, "A": 0, "G": 0, "C1": 0, "C0": 0}
    e_line = None
    for idx, l in enumerate(ev[1:]):
        t = l.split()
        k = t[0]
        if k == "E":
            e_line = t
            continue
        counts[k] += 1
        w = t[1]
        prev = last.get(w)
        if k == "N":
            x, r = tuple(t[2:2 + dim]), tuple(t[2 + dim:2 + 2 * dim])
            if prev is not None and prev[0] not in ("C", "G"):
                return "oracle", "event %d: worker %s asks for a nearest neighbour right after %s" % (idx, w, prev[0]), info
            if prev is not None and prev[0] == "C" and prev[1][-1] == "1":
                return "oracle", "event %d: worker %s dropped a motion whose check passed" % (idx, w), info
            if r not in nodes:
                return "oracle", "event %d: nearest() returned a state that was never added" % idx, info
            # the answer is A nearest node among those added so far (in lock order): brute force
            # (every query while the tree is small, every 16th afterwards: the Lean model recomputes all of them anyway)
            xv = vec(x)
            dr = rv_distance(vec(r), xv)
            best = min(rv_distance(n, xv) for n in node_vals) if (len(node_vals) <= 400 or idx % 16 == 0) else dr
            if dr != best:
                return "oracle", ("event %d: nearest() under nnLock_ answered a node at distance %.17g, the tree holds one at %.17g"
                                  % (idx, dr, best)), info
        elif k == "C":
            a, b, v = tuple(t[2:2 + dim]), tuple(t[2 + dim:2 + 2 * dim]), t[2 + 2 * dim]
            counts["C" + v] += 1
            if prev is None or prev[0] != "N":
                return "oracle", "event %d: worker %s checks a motion without a nearest query before" % (idx, w), info
            x, r = tuple(prev[1][2:2 + dim]), tuple(prev[1][2 + dim:2 + 2 * dim])
            if a != r:
                return "oracle", "event %d: worker %s checks a motion that does not start at the nearest node it was given" % (idx, w), info
            d = rv_distance(vec(r), vec(x))
            if d > maxd:
                tt = maxd / d
                want = tuple(f2b(vec(r)[i] + (vec(x)[i] - vec(r)[i]) * tt) for i in range(dim))
            else:
                want = x
            if b != want:
                return "oracle", ("event %d: worker %s tries %r, expected the sample cut back to the range %.6g from its nearest node: %r"
                                  % (idx, w, vec(b), maxd, vec(want))), info
            if d > maxd:
                info["steered"] = info.get("steered", 0) + 1
            mine = check_motion_exact(vec(a), vec(b), P["boxes"], L)
            if mine != (v == "1"):
                return "oracle", ("event %d: concurrent checkMotion(%r, %r) answered %s, the sequential definition gives %s"
                                  % (idx, vec(a), vec(b), v, int(mine))), info
            if answered.setdefault((a, b), v) != v:
                return "oracle", "event %d: checkMotion answered the same question differently" % idx, info
        elif k == "A":
            c, p = tuple(t[2:2 + dim]), tuple(t[2 + dim:2 + 2 * dim])
            if prev is None or prev[0] != "C" or prev[1][-1] != "1":
                return "oracle", "event %d: worker %s adds a motion that was not checked valid just before" % (idx, w), info
            a, b = tuple(prev[1][2:2 + dim]), tuple(prev[1][2 + dim:2 + 2 * dim])
            if (p, c) != (a, b):
                return "oracle", ("event %d: worker %s adds the tree edge %r -> %r but the motion it checked is %r -> %r"
                                  % (idx, w, vec(p), vec(c), vec(a), vec(b))), info
            if c in nodes:
                info["duplicate_states"] = info.get("duplicate_states", 0) + 1
            nodes.add(c)
            node_vals.append(vec(c))
            edges.add((c, p))
        elif k == "G":
            c, dbits, sv = tuple(t[2:2 + dim]), t[2 + dim], t[3 + dim]
            if prev is None or prev[0] != "A" or tuple(prev[1][2:2 + dim]) != c:
                return "oracle", "event %d: worker %s tests the goal on a state it did not just add" % (idx, w), info
            gd = rv_distance(vec(c), P["goal"])
            if f2b(gd) != dbits or (sv == "1") != (gd < P["threshold"]):
                return "oracle", "event %d: goal test answered (%s, %s) for a state at distance %.17g, threshold %.17g" % (
                    idx, b2f(dbits), sv, gd, P["threshold"]), info
            goal_events.append((c, gd, sv == "1"))
        last[w] = (k, t)
    info["counts"] = counts
    info["workers"] = len(last)
    for w, (k, t) in last.items():
        if k == "A" or (k == "C" and t[-1] == "1") or k == "N":
            return "oracle", "worker %s stopped in the middle of an iteration (last event %s)" % (w, k), info
    if int(z.get("valid", counts["C1"])) != counts["C1"] or int(z.get("invalid", counts["C0"])) != counts["C0"]:
        return "oracle", "motion counters valid=%s invalid=%s after %d valid and %d invalid checkMotion calls" % (
            z.get("valid"), z.get("invalid"), counts["C1"], counts["C0"]), info
    # ---- the report
    solved = [g for g in goal_events if g[2]]
    info["solved_events"] = len(solved)
    if e_line is None:
        return "oracle", "no report line", info
    if e_line[1] == "none":
        if goal_events:
            return "oracle", "nothing reported although %d states were added" % len(goal_events), info
        info["report"] = "none"
    else:
        approx, dbits, n = e_line[1], e_line[2], int(e_line[3])
        pts = [tuple(e_line[4 + i * dim:4 + (i + 1) * dim]) for i in range(n)]
        info["report"] = "approximate" if approx == "1" else "exact"
        info["path_states"] = n
        if len(e_line) != 4 + n * dim or n == 0:
            return "oracle", "malformed report", info
        if pts[0] != root:
            return "oracle", "reported path does not start at the start state", info
        for i in range(n - 1):
            if (pts[i + 1], pts[i]) not in edges:
                return "oracle", "reported path edge %d is not a tree edge" % i, info
            if answered.get((pts[i], pts[i + 1])) != "1":
                return "oracle", "reported path edge %d was never answered valid" % i, info
        if solved:
            if approx != "0" or pts[-1] not in [g[0] for g in solved] or dbits != "0":
                return "oracle", "a worker reached the goal, the report is approx=%s diff=%s ending at %r" % (approx, b2f(dbits), vec(pts[-1])), info
        else:
            best = min(g[1] for g in goal_events) if goal_events else None
            if approx != "1" or best is None or f2b(best) != dbits or (pts[-1], best) not in [(g[0], g[1]) for g in goal_events]:
                return "oracle", ("no worker reached the goal; expected the closest added state (distance %s) as approximate solution, "
                                  "the report is approx=%s diff=%.17g ending at %r" % (best, approx, b2f(dbits), vec(pts[-1]))), info
            info["ties"] = sum(1 for g in goal_events if g[1] == best) - 1
    # ---- the model
    m = res["model"]
    if m is None:
        return "correspondence", "drv_conc failed: %s" % res.get("model_err"), info
    d = core.Check.first_diff(ev[1:], m)
    if d is not None:
        is_report = ev[1 + d].startswith("E ")
        ambiguous = info.get("duplicate_states", 0) > 0 or len(solved) >= 2 or info.get("ties", 0) > 0
        if is_report and ambiguous and d == len(ev) - 2 and len(m) == len(ev) - 1:
            # which of several bitwise-equal states / simultaneous solvers the report walks back from is decided by pointer
            # identity and by the order of the last lock acquisitions, neither of which the log shows: the report has passed
            # the chain oracle above (the statement of prrt_solution_path_real), that is all the model owes here
            info["report_ambiguous"] = 1
        else:
            info["first_diff"] = d
            return "correspondence", "event %d: real run `%s` / model `%s`" % (
                d, ev[1 + d][:300], (m[d] if d < len(m) else "<missing>")[:300]), info
    return None, None, info


# ------------------------------------------------------------------------------------------ TSan reports
FRAME = re.compile(r"^\s+#(\d+) (.*?) (\S+?)(?::(\d+))?(?::\d+)? \(([^)]*)\)\s*$")


def parse_tsan(stderr):
    """list of reports: dict(kind, stacks=[[(func, file, line)]], summary)"""
    reps = []
    for block in stderr.split("=================="):
        m = re.search(r"WARNING: ThreadSanitizer: (.+?) \(pid=", block)
        if not m:
            continue
        stacks = []
        cur = None
        first = True
        for ln in block.splitlines():
            if ln.startswith("WARNING: ThreadSanitizer"):
                # reports without an access header (bad unlock, double lock, ...) start their stack right away
                cur = []
                stacks.append(cur)
                continue
            if re.match(r"^  (?:Previous )?(?:[Aa]tomic )?(?:[Rr]ead|[Ww]rite) of size", ln) or \
                    re.match(r"^  Mutex M\d+ acquired here while holding", ln):
                cur = []
                stacks.append(cur)
                continue
            if re.match(r"^  \S", ln) or ln.startswith("SUMMARY"):
                cur = None      # thread creation stacks, mutex creation stacks, locations: not access sites
                continue
            fm = FRAME.match(ln)
            if fm and cur is not None:
                cur.append((fm.group(2), fm.group(3), int(fm.group(4)) if fm.group(4) else 0))
        stacks = [st for st in stacks if st]
        sm = re.search(r"SUMMARY: ThreadSanitizer: (.*)", block)
        reps.append({"kind": m.group(1).strip(), "stacks": stacks, "summary": sm.group(1)[:300] if sm else ""})
    return reps


def benign(site, texts):
    for rx, trx, reason in BENIGN:
        if site and re.search(rx, site) and texts and all(re.search(trx, t) for t in texts):
            return reason
    return None


def short_func(func):
    f = re.sub(r"\(.*$", "", func).replace("[abi:cxx11]", "")
    f = re.sub(r"<[^<>]*>", "", f)
    f = re.sub(r"<[^<>]*>", "", f)
    f = f.replace("ompl::base::", "").replace("ompl::geometric::", "").replace("ompl::msg::", "msg::").replace("ompl::", "")
    f = f.replace("PlannerTerminationCondition::PlannerTerminationConditionImpl", "PlannerTerminationConditionImpl")
    f = f.replace("ProblemDefinition::PlannerSolutionSet", "PlannerSolutionSet")
    f = f.replace("(anonymous namespace)::", "").replace("{anonymous}::", "")
    return f.strip().split(" ")[-1]


def source_line(path, line):
    # TSan prints the path as the compiler saw it; for a cache outside /verif/.cache (VERIF_ALT_CACHE) that is a path
    # relative to the build directory (`../../wt/src/ompl/...`): resolve it against the tree under test by its `src/` suffix
    if not os.path.isabs(path) or not os.path.isfile(path):
        i = path.find("src/ompl/")
        if i >= 0:
            path = os.path.join(ompl_build.REPO, path[i:])
    try:
        with open(path, errors="replace") as f:
            for i, l in enumerate(f, 1):
                if i == line:
                    return l.strip()
    except OSError:
        pass
    return ""


def attribute(rep, members):
    """-> (member or None, site 'func@file', located_in_ompl)"""
    member = None
    site = None
    in_ompl = False
    # StateSpace::List / Diagram read getName() of every registered space under the registry lock while a derived
    # constructor (which registered `this` in the base constructor) is still renaming itself without it
    flat = [fr for st in rep["stacks"] for fr in st]
    lister = any("StateSpace::List" in f or "StateSpace::Diagram" in f or
                 re.search(r"StateSpace::(List|Diagram)\(", source_line(os.path.join(core.VERIF, p) if p.startswith("harness/") else p, l))
                 for f, p, l in flat)
    ctor = any(re.search(r"(\w+)::\1\(|::setName\(", f) and "/src/ompl/" in p for f, p, l in flat)
    if lister and ctor:
        return "StateSpace::name_", "StateSpace::List~constructor", True
    for stack in rep["stacks"]:
        for func, path, line in stack:
            p = path
            if p.startswith("harness/"):
                p = os.path.join(core.VERIF, p)
            is_ompl = "/src/ompl/" in p
            is_harness = p.startswith(core.HARNESS)
            if not (is_ompl or is_harness):
                continue
            text = source_line(p, line)
            if member is None:
                for m in members:
                    if re.search(r"\b" + re.escape(m["member"]) + r"\b", text) and (
                            is_harness or os.path.basename(m["file"]) == os.path.basename(p) or m["cls"] == "MotionValidator"
                            or m["cls"] in func):
                        member = m["name"]
                        break
            in_ompl = in_ompl or is_ompl
            if is_ompl:
                break   # the innermost OMPL frame of this stack decides the member
    # site: per stack, the innermost OMPL frame and (when that is a data structure) the innermost planner frame
    parts = []
    texts = []
    for stack in rep["stacks"]:
        inner = next(((f, p, l) for f, p, l in stack if "/src/ompl/" in p), None)
        if inner is None:
            continue
        desc = "%s@%s" % (short_func(inner[0]), os.path.basename(inner[1]))
        texts.append(source_line(inner[1], inner[2]))
        if "/planners/" not in inner[1]:
            pl = next(((f, p, l) for f, p, l in stack if "/planners/" in p and not short_func(f).startswith("operator")), None)
            if pl is not None:
                desc += " in %s@%s" % (short_func(pl[0]), os.path.basename(pl[1]))
        parts.append(desc)
    if parts:
        site = " ~ ".join(sorted(set(parts)))
    rep["texts"] = texts
    return member, site, in_ompl


# ------------------------------------------------------------------------------------------ running
def run_one(ck, binary, seed, op_line, tsan, timeout=240):
    script = ["conc %d" % seed, op_line]
    t0 = time.time()
    out, rc, err = ck.run_bin(binary, script, timeout=timeout, env=TSAN_ENV if tsan else None)
    dt = time.time() - t0
    line = out[0] if out else None
    return {"script": script, "line": line, "rc": rc, "err": err or "", "tsan": tsan, "wall": dt}


def surface_ops(rng, tier, tsan):
    """op lines for one build flavour; 2..16 threads"""
    big = tier != "quick"

    def T(lo=2, hi=16):
        return rng.range(lo, hi)
    ops = []
    if tsan:
        ops += ["force %d %d 10" % (T(2, 8), 100 if not big else 400)]
        ops += ["counters %d %d %d" % (T(2, 8), 150 if not big else 500, rng.below(1000))]
        ops += ["gnat %d %d %d %d %d" % (T(2, 8), 600, 40 if not big else 120, rng.range(1, 8), rng.below(1000))]
        ops += ["rng %d %d" % (T(2, 12), 60), "rng %d %d 1" % (T(2, 8), 40)]
        ops += ["spaces %d %d 0" % (T(2, 10), 40), "spaces %d %d 1" % (T(2, 6), 40)]
        ops += ["gnat %d %d %d %d %d %d 1" % (T(4, 8), rng.choice([200, 400]), 40, rng.range(1, 6), rng.below(1000), 2)]
        ops += ["solutions %d %d %d" % (T(2, 8), rng.range(1, 3), 40)]
        ops += ["solmix %d %d %d %d %d" % (T(2, 6), rng.range(1, 2), rng.range(1, 2), 60, rng.below(1000))]
        ops += ["solrace %d 2" % rng.range(2, 8)]
        ops += ["cfrace %d %d" % (2 * rng.range(1, 3), 300)]
        ops += ["cfsamplers %d %d %d %d" % (rng.range(2, 3), 20000, rng.below(2), 1 if tsan else rng.below(2))]
        ops += ["logging %d %d" % (T(2, 8), 200)]
        ops += ["logpark 3"]
        ops += ["goallazy %d %d %d" % (T(2, 6), 400, rng.below(1000))]
        ops += ["goalctl %d 12 0" % T(2, 6), "goalctl %d 6 1" % rng.below(3)]
        ops += ["terminate %d 0" % T(2, 8), "terminate %d 1" % T(2, 6), "terminate %d 2" % T(2, 6)]
    else:
        reps = 2 if not big else 5
        for _ in range(reps):
            ops += ["force %d %d %d" % (T(), 1500 if not big else 6000, rng.choice([20, 50, 100]))]
            ops += ["counters %d %d %d" % (T(), 1500 if not big else 6000, rng.below(1000))]
            ops += ["gnat %d %d %d %d %d" % (T(), rng.choice([500, 3000]), 150 if not big else 500, rng.range(1, 10), rng.below(1000))]
            # many internal nodes (degree 4, leaves of 8), many threads, every query many times
            ops += ["gnat %d %d %d %d %d %d 1" % (T(8, 16), rng.choice([200, 600, 2000]), 120, rng.range(1, 10), rng.below(1000),
                                                  6 if not big else 20)]
            ops += ["rng %d %d" % (T(), 400), "rng %d %d 1" % (T(), 200)]
            ops += ["spaces %d %d 0" % (T(), 200), "spaces %d %d 1" % (T(), 100)]
            ops += ["solutions %d %d %d" % (T(2, 12), rng.range(1, 4), 150)]
            ops += ["solmix %d %d %d %d %d" % (T(2, 10), rng.range(1, 3), rng.range(1, 3), 300, rng.below(1000))]
            ops += ["solrace %d %d" % (rng.range(1, 12), 3)]
            ops += ["cfrace %d %d" % (2 * rng.range(1, 4), rng.choice([200, 2000]))]
            ops += ["cfsamplers %d %d %d %d" % (rng.range(2, 4), 30000, rng.below(2), rng.below(2))]
            ops += ["logging %d %d" % (T(), 1500)]
            ops += ["logpark %d" % (3 if not big else 10)]
            ops += ["goallazy %d %d %d" % (T(2, 12), 600 if not big else 2000, rng.below(1000))]
            ops += ["goalctl %d %d 0" % (T(2, 12), 20 if not big else 60)]
        if not tsan:
            ops += ["goalctl %d 6 1" % rng.below(4)]
            ops += ["terminate %d 0" % T(), "terminate %d 1" % T(2, 8), "terminate %d 2" % T(2, 8)]
    return ops


def planner_ops(rng, tier, tsan):
    ops = []
    envs = list(ENVS)
    nrand = 1 if tier == "quick" else 4
    envs += [random_env(rng.fork("env%d" % i), i) for i in range(nrand)]
    for name in PLANNERS:
        if tier == "quick":
            if tsan:
                # pRRT (the planner with a lock-granularity model) on every fixed obstacle environment
                chosen = envs[:3] if name == "pRRT" else [envs[rng.below(3)], envs[3 + rng.below(len(envs) - 3)]]
            else:
                chosen = [envs[rng.below(3)], envs[rng.below(3)], envs[3 + rng.below(len(envs) - 3)]]
        else:
            chosen = envs[:3] + envs[4:6] if tsan else envs
        for env in chosen:
            threads = rng.range(2, 4) if tsan else rng.range(2, 6)
            budget = rng.choice([800, 2000]) if tsan else rng.choice([500, 1500, 4000])
            if name == "CForest":
                budget = min(budget, 800 if not tsan else 300)   # runs until the budget is spent
            if name == "APS":
                # its main thread polls the condition in a tight loop (each poll is one evaluation), so the budget
                # has to be large for the planner threads to get anywhere
                budget = rng.choice([100000, 300000]) if not tsan else 40000
            permille = rng.choice([0, 20, 100])
            ops.append(planner_line(name, threads, budget, permille, env))
    return ops


def corpus():
    d = os.path.join(core.VERIF, "corpus", "C19")
    out = []
    if os.path.isdir(d):
        for f in sorted(os.listdir(d)):
            if f.endswith(".txt"):
                lines = [l.rstrip("\n") for l in open(os.path.join(d, f)) if l.strip() and not l.startswith("#")]
                if len(lines) >= 2:
                    out.append((f, lines))
    return out


def trace_corpus():
    d = os.path.join(core.VERIF, "corpus", "C19", "trace")
    out = []
    if os.path.isdir(d):
        for f in sorted(os.listdir(d)):
            if f.endswith(".txt"):
                lines = [l.rstrip("\n") for l in open(os.path.join(d, f)) if l.strip() and not l.startswith("#")]
                if lines:
                    out.append((f, lines))
    return out


def member_for_op(op, plain_members):
    """members (extracted as plain) that the surface op `op` exercises"""
    res = []
    for m in plain_members:
        for key, ops in MEMBER_OPS.items():
            if m["name"].startswith(key) and op in ops:
                res.append(m["name"])
    return res


def setup(ck):
    build_plain(ck)
    build_trace(ck)
    build_tsan(ck)
    try:
        shared_access.regenerate()
        subprocess.run(["lake", "build", GEN_TARGET], cwd=core.LEAN, stdout=subprocess.PIPE, stderr=subprocess.PIPE)
    except SystemExit:
        pass


def lean_part(ck):
    """theorems + the generated obligation.  Returns (table, gen_ok)."""
    gen_lock = open(shared_access.OUT + ".run.lock", "w")
    fcntl.flock(gen_lock, fcntl.LOCK_EX)   # the generated file belongs to this run until it has been built and audited
    try:
        try:
            table, changed = shared_access.regenerate()
        except SystemExit as e:
            ck.failed_obligations.append(("shared-access-translator", str(e)))
            ck.lean_build(LEAN_TARGETS)
            ck.audit(roots=["Drv.Conc"])
            ck.audit_ok = False
            return None, False
        ck.log("extract/shared_access.py: %d members (%s), file %s" % (
            len(table), ", ".join("%s=%d" % (k, sum(1 for m in table if m["kind"] == k)) for k in ("plain", "atomic", "mutexGuarded")),
            "rewritten" if changed else "unchanged"))
        ck.lean_build(LEAN_TARGETS)
        ck.audit(roots=["Drv.Conc"])
        ck.checker_cmd += " ; lake build " + GEN_TARGET
        with open(os.path.join(core.CACHE, "lake.lock"), "w") as lk:
            fcntl.flock(lk, fcntl.LOCK_EX)
            r = subprocess.run(["lake", "build", GEN_TARGET], cwd=core.LEAN, stdout=subprocess.PIPE, stderr=subprocess.PIPE, text=True)
            fcntl.flock(lk, fcntl.LOCK_UN)
        gen_ok = r.returncode == 0
        out = r.stdout + r.stderr
        ck.obligations += GEN_THEOREMS
        if gen_ok:
            # axioms of the generated theorems
            ap = os.path.join(core.LEAN, "Audit", "C19Gen.lean")
            with open(ap, "w") as f:
                f.write("import %s\n" % GEN_TARGET)
                for n in GEN_THEOREMS:
                    f.write("#print axioms %s\n" % n)
            r2 = subprocess.run(["lake", "env", "lean", ap], cwd=core.LEAN, stdout=subprocess.PIPE, stderr=subprocess.PIPE, text=True)
            o2 = (r2.stdout + r2.stderr).replace("\n", " ")
            for n in GEN_THEOREMS:
                m = re.search(r"'%s' (?:depends on axioms: \[([^\]]*)\]|does not depend on any axioms)" % re.escape(n), o2)
                if not m:
                    gen_ok = False
                    ck.failed_obligations.append((n, "no #print axioms output"))
                    continue
                axs = [a.strip() for a in (m.group(1) or "").split(",") if a.strip()]
                ck.axioms_seen.update(axs)
                if [a for a in axs if a not in core.ALLOWED_AXIOMS]:
                    gen_ok = False
                    ck.failed_obligations.append((n, "depends on axioms %s" % axs))
            src = core.strip_lean_comments(open(shared_access.OUT).read())
            src = re.sub(r'"(?:[^"\\]|\\.)*"', '""', src)
            if core.FORBIDDEN.search(src):
                gen_ok = False
                ck.failed_obligations.append(("audit-grep", "Generated/SharedAccess.lean: forbidden token"))
        else:
            plain = [m["name"] for m in table if m["kind"] == "plain"]
            unguarded = [f["name"] for f in getattr(shared_access.regenerate, "fields", []) if f["unguarded"]]
            gl = open(shared_access.OUT).read().splitlines()
            line_of = {name: next((i + 1 for i, l in enumerate(gl) if l.startswith("theorem " + name)), -1)
                       for name in ("surface_no_plain", "planner_fields_guarded")}
            errs = [int(x) for x in re.findall(r"error: \S*SharedAccess\.lean:(\d+):\d+", out)]
            if line_of["surface_no_plain"] in errs:
                why = "decide: the proposition is false; plain members: %s" % ", ".join(plain)
                for n in GEN_THEOREMS[1:-1]:
                    ck.failed_obligations.append((n, why))
            if line_of["planner_fields_guarded"] in errs:
                ck.failed_obligations.append((GEN_THEOREMS[-1], "decide: the proposition is false; worker-thread accesses without "
                                              "the field's lock (or split over two lock scopes): %s" % ", ".join(unguarded)))
            # plain_members (the extraction result stated in Lean) still has to check: every error must sit on the
            # line of one of the two obligations
            if not errs or any(e not in line_of.values() for e in errs):
                ck.failed_obligations.append((GEN_THEOREMS[0], out[-400:]))
        ck.log("lake build %s: %s" % (GEN_TARGET, "ok" if gen_ok else "FAILED (surface_no_plain / planner_fields_guarded)"))
        return table, gen_ok
    finally:
        fcntl.flock(gen_lock, fcntl.LOCK_UN)
        gen_lock.close()


def run(ck):
    ck.rule = ("one case = one harness process running one concurrent scenario (surface op with 2..16 threads, or one "
               "multi-threaded planner run on a box environment) in the plain (ASan+UBSan) or the TSan build; non-trivial if the "
               "scenario ran to completion with >= 2 threads; distinct by (build, op line); a pRRT lock-step replay (recorded "
               "run + model replay) is one case, non-trivial if >= 2 workers appear in the log and the replay is identical")
    ck.trusted += [
        "granularity assumption of the model: std::atomic read-modify-writes and std::lock_guard regions are indivisible "
        "(the C++ memory model itself is not modelled); TSan runs corroborate it, they do not prove it",
        "extract/shared_access.py (regex declaration + lock-scope scan; errs towards `plain`); cross-checked by forcing the "
        "lost update / TSan report for every member it calls plain",
        "ThreadSanitizer (g++ 12 libtsan) as race observer; lib/ompl_build_tsan.py builds the instrumented libompl from the same tree",
        "the Python path oracle (dense re-validation of straight RealVector edges against the boxes at the space's resolution)",
    ]
    ck.assumptions += [
        "user callbacks (state validity checker) are themselves thread safe, as the API requires",
        "real schedules are sampled (2..16 threads, perturbed by sched_yield/usleep inside the validity checker), not enumerated",
        "multi-threaded planners: TSan reports inside planner-internal hint variables are allowlisted with reasons (BENIGN); "
        "their solutions are judged by the path oracle",
    ]
    table, gen_ok = lean_part(ck)
    n_obl = len(ck.obligations)
    if ck.tier == "thorough" and ck.lean_ok:
        ck.leanchecker(["OmplModel.Props.C19"])
    members = list(table or [])
    fields = getattr(shared_access.regenerate, "fields", []) if table is not None else []
    for f in fields:
        ck.count("planner-field:" + ("unguarded" if f["unguarded"] else "guarded"))
        members.append({"name": f["name"], "member": f["member"], "cls": f["cls"], "file": f["file"],
                        "decl_type": "guarded by " + f["mutex"], "kind": "plain" if f["unguarded"] else "mutexGuarded",
                        "sites": f["worker_sites"], "unguarded": f["unguarded"], "planner_field": True})
    plain_members = [m for m in members if m["kind"] == "plain"]
    planner_field_names = set(f["name"] for f in fields)
    for m in members:
        if not m.get("planner_field"):
            ck.count("member-kind:" + m["kind"])

    hplain = build_plain(ck)
    htsan = build_tsan(ck)
    seed = 1 + (ck.seed % 1000000)

    jobs = []   # (tag, binary, op_line, tsan)
    for name, lines in corpus():
        flavour = lines[0].split()
        for op_line in lines[1:]:
            jobs.append(("corpus", htsan if "tsan" in flavour else hplain, op_line, "tsan" in flavour))
    r = ck.rng.fork("surface-plain")
    for op in surface_ops(r, ck.tier, False):
        jobs.append(("surface", hplain, op, False))
    r = ck.rng.fork("surface-tsan")
    for op in surface_ops(r, ck.tier, True):
        jobs.append(("surface", htsan, op, True))
    for rep in range(1 if ck.tier == "quick" else 4):     # thorough: four independent rounds of planner runs
        r = ck.rng.fork("planner-plain%s" % (rep or ""))
        for op in planner_ops(r, ck.tier, False):
            jobs.append(("planner", hplain, op, False))
        r = ck.rng.fork("planner-tsan%s" % (rep or ""))
        for op in planner_ops(r, ck.tier, True):
            jobs.append(("planner", htsan, op, True))

    htrace = build_trace(ck)
    trace_jobs = [l for _, lines in trace_corpus() for l in lines] + trace_ops(ck.rng.fork("prrt-trace"), ck.tier)
    r = ck.rng.fork("prrt-race")
    trace_jobs += ["prrtrace %d %d" % (10 if ck.tier == "quick" else 40, w) for w in (2, r.range(3, 5), r.range(6, 16))]

    results = []
    trace_results = []
    workers = 3 if ck.tier == "quick" else 4
    with concurrent.futures.ThreadPoolExecutor(max_workers=workers) as ex:
        futs = [(tag, op, ex.submit(run_one, ck, b, seed, op, ts)) for tag, b, op, ts in jobs]
        tfuts = [ex.submit(run_trace, ck, htrace, seed, op) for op in trace_jobs] if ck.lean_ok else []
        for f in tfuts:
            trace_results.append(f.result())
        for tag, op, f in futs:
            res = f.result()
            res["tag"] = tag
            res["op"] = op
            results.append(res)

    functional = []    # (res, what)
    races = {}         # key -> dict(member, site, res, summary, count)
    suppressed = {}
    for res in results:
        op_line = res["op"]
        op = op_line.split()[0]
        flavour = "tsan" if res["tsan"] else "plain"
        ck.traces_validated += 1
        ck.count("runs:%s:%s" % (flavour, op if op != "planner" else "planner:" + op_line.split()[1]))
        threads = int(op_line.split()[2]) if op == "planner" else (2 if op in ("cfrace", "solrace", "logpark") else int(op_line.split()[1]))
        ck.count("threads:%d" % threads)
        if op == "planner":
            what, info = judge_path(op_line, res["line"])
            ck.count("planner-status:%s" % info.get("status"))
            if info.get("aps_bookkeeping"):
                ck.count("aps-best-cost-equals-min-stored")
            if info.get("nstates"):
                ck.count("planner-paths-judged")
                ck.count("planner-paths-judged:%s" % ("gap+vertex" if op_line.split()[1] in NOT_STRICT else "strict+gap"))
                w = info.get("worst_invalid_stretch_in_L")
                if w:
                    ck.count("paths-with-an-invalid-stretch-below-2L")
                    ck.extra_cov["worst_invalid_stretch_in_resolution_lengths"] = max(
                        ck.extra_cov.get("worst_invalid_stretch_in_resolution_lengths", 0.0), round(w, 3))
            P = parse_planner_line(op_line)
            ck.count("perturb-permille:%d" % P["permille"])
        else:
            what = judge_surface(op_line, res["line"])
        if res["rc"] not in (0,) and what is None:
            what = "harness exited with code %s: %s" % (res["rc"], res["err"][-300:])
        ck.case((flavour, op_line), what is None and threads >= 2)
        ck.sample({"build": flavour, "op": op_line[:160], "result": (res["line"] or "<none>")[:200]}, limit=8)
        if what is not None:
            functional.append((res, what))
        if res["tsan"]:
            for rep in parse_tsan(res["err"]):
                ck.count("tsan-report:" + rep["kind"])
                member, site, in_ompl = attribute(rep, members or [{"member": n.split("::")[1], "name": n, "file": "", "cls": n.split("::")[0]}
                                                                     for n in MEMBER_OPS if not n.endswith("::")])
                if member is None and not in_ompl:
                    ck.count("tsan-ignored:not-in-ompl-code")
                    continue
                if (member is None or member in planner_field_names) and rep["kind"] == "data race":
                    # (the allowlisted hint reads are on fields of the planner tables too: sol->solution, sol->found, …)
                    why = benign(site, rep.get("texts", []))
                    if why is not None:
                        suppressed[site] = suppressed.get(site, 0) + 1
                        ck.count("tsan-suppressed:" + site)
                        continue
                key = member or ("%s:%s" % (rep["kind"], site))
                e = races.setdefault(key, {"member": member, "site": site, "res": res, "summary": rep["summary"], "count": 0,
                                           "kind": rep["kind"]})
                e["count"] += 1

    # ---- pRRT lock-step replay (round 10) ---------------------------------------------------------
    trace_failures = {}
    for res in trace_results:
        kind, what, info = judge_trace(res["op"], res)
        if res["op"].startswith("prrtrace"):
            ck.traces_validated += 1
            ck.count("runs:plain:prrtrace")
            ck.count("prrtrace-rounds", info.get("rounds", 0))
            ck.count("prrtrace-rounds-synced", info.get("synced", 0))
            ck.count("threads:%d" % info.get("workers", 0))
            ck.case(("prrtrace", res["op"]), kind is None and info.get("synced", 0) > 0)
            if kind is not None:
                cur = trace_failures.get(("directed",))
                trace_failures[("directed",)] = (cur[:4] + (cur[4] + 1,)) if cur else (res, "directed-" + kind, what, info, 1)
            continue
        P = parse_trace_line(res["op"])
        ck.traces_validated += 1
        ck.count("runs:plain:prrt-trace")
        ck.count("trace-threads:%d" % P["threads"])
        ck.count("trace-budget:%d" % P["budget"])
        ck.count("trace-range:%s" % ("default" if not P["range"] else "%.2g" % P["range"]))
        ck.count("trace-goal-bias:%.2g" % P["goal_bias"])
        ck.count("trace-threshold:%.2g" % P["threshold"])
        ck.count("trace-dim:%d" % P["dim"])
        if P["gate"]:
            ck.count("trace-gated-runs")
            ck.count("trace-paired-solution-updates", int(kv(res["out"][-1]).get("paired", 0)) if res["out"] and res["out"][-1].startswith("Z ") else 0)
        ck.count("trace-status:%s" % info.get("status"))
        ck.count("trace-report:%s" % info.get("report"))
        for k, v in (info.get("counts") or {}).items():
            ck.count("trace-events:" + k, v)
        for k in ("steered", "duplicate_states", "report_ambiguous", "ties"):
            if info.get(k):
                ck.count("trace-" + k.replace("_", "-"), info[k])
        if info.get("solved_events", 0) >= 2:
            ck.count("trace-two-workers-solved")
        ck.case(("trace", res["op"], len(res["events"])), kind is None and info.get("workers", 0) >= 2)
        ck.sample({"build": "plain", "op": res["op"][:160], "result": (res["out"][-1] if res["out"] else "<none>")[:200]}, limit=10)
        if kind is None:
            continue
        # one report per class of failure (message with the numbers taken out), carried by the run with the shortest log
        cls = (kind, re.sub(r"[-+]?\d[\d.e+-]*", "#", (what or "").split(":", 1)[-1])[:80])
        cur = trace_failures.get(cls)
        if cur is None or len(res["events"]) < len(cur[0]["events"]):
            trace_failures[cls] = (res, kind, what, info, (cur[4] if cur else 0) + 1)
        else:
            trace_failures[cls] = cur[:4] + (cur[4] + 1,)
    for (res, kind, what, info, nfail) in trace_failures.values():
        rec = {"engine": "conc", "kind": "prrt-trace-" + kind, "op": "prrt"}
        d = info.get("first_diff")
        events = res["events"][:(d + 2 if d is not None else 0)]
        ck.report(rec, script=res["script"], engine="conc",
                  expected=("the recorded run is an execution of the Lean model (drv_conc prints the log back)" if kind == "correspondence"
                            else "spec oracle of the recorded pRRT run (judge_trace)"),
                  observed={"what": what, "runs_failing_this_way": nfail,
                            "events_up_to_the_difference": events if len(events) <= 3000 else events[-50:],
                            "log_head": res["events"][:12],
                            "summary": res["out"][-1] if res["out"] else None, "stderr_tail": res["err"][-1500:]},
                  obligation=("correspondence: pRRT.cpp threadSolve/solve vs PStep.apply/report" if kind == "correspondence" else None))
        ck.log("pRRT trace %s failure in %d run(s), smallest (%s): %s" % (kind, nfail, res["op"][:60], (what or "")[:300]))

    # ---- decide -------------------------------------------------------------------------------
    reported_members = set()
    for m in plain_members:
        name = m["name"]
        ev_func = [(res, what) for res, what in functional if name in member_for_op(res["op"].split()[0], plain_members)]
        ev_race = races.get(name)
        record = {"engine": "conc", "kind": "unguarded-planner-field" if m.get("planner_field") else "plain-shared-member",
                  "member": name}
        obligation_name = "planner_fields_guarded" if m.get("planner_field") else "surface_no_plain"
        sites = ", ".join(m["unguarded"][:4]) + (" ..." if len(m["unguarded"]) > 4 else "")
        if ev_func or ev_race:
            res, what = ev_func[0] if ev_func else (ev_race["res"], "ThreadSanitizer: " + ev_race["summary"])
            observed = {"result_line": res["line"], "what": what, "build": "tsan" if res["tsan"] else "plain"}
            if ev_race:
                observed["tsan"] = ev_race["summary"]
                observed["tsan_reports"] = ev_race["count"]
            ck.report(record, script=res["script"], engine="conc",
                      expected="%s: %s (%s) must be %s; unguarded: %s"
                               % (obligation_name, name, m["decl_type"],
                                  "accessed from worker threads only while holding its lock, in one lock scope per function"
                                  if m.get("planner_field") else "std::atomic or guarded at every access site", sites),
                      observed=observed, obligation="OmplModel.Generated.SharedAccess." + obligation_name)
            ck.log("%s %s: %s" % ("unguarded planner field" if m.get("planner_field") else "plain shared member", name, what[:200]))
        else:
            ck.report(record, found_input=False, engine="conc",
                      obligation="%s: %s is declared `%s` and accessed outside any lock scope at %s; no lost update "
                                 "or race report was forced in this run" % (obligation_name, name, m["decl_type"], sites))
            ck.log("plain shared member %s: extraction only, nothing observed" % name)
        reported_members.add(name)
    for res, what in functional:
        op = res["op"].split()[0]
        if op != "planner" and set(member_for_op(op, plain_members)) & reported_members:
            continue   # explained by a member already reported
        rec = {"engine": "conc", "kind": "functional", "op": op, "build": "tsan" if res["tsan"] else "plain"}
        if op == "goalctl":
            rec["mode"] = res["op"].split()[3]
            rec["class"] = ("double-stop-hang" if what.startswith("two threads called stopSampling") else
                            "no-output" if what.startswith("no output") or what.startswith("harness exited") else "oracle")
        if op == "planner":
            rec["planner"] = res["op"].split()[1]
            # a run that died / hung (no result line) vs a result the path oracle rejects
            rec["class"] = "no-output" if what.startswith("no output") or what.startswith("harness exited") else "oracle"
        ck.report(rec, script=res["script"], expected="spec oracle of op `%s` (see judge_surface / judge_path)" % op,
                  observed={"result_line": res["line"], "what": what, "stderr_tail": res["err"][-1500:]}, engine="conc")
        ck.log("oracle failure (%s): %s" % (res["op"][:80], what[:300]))
    for key, e in sorted(races.items()):
        if e["member"] in reported_members:
            continue
        rec = {"engine": "conc", "kind": "tsan-" + e["kind"].replace(" ", "-"), "member": e["member"], "site": e["site"],
               "op": e["res"]["op"] if not e["res"]["op"].startswith("planner") else "planner " + e["res"]["op"].split()[1]}
        ck.report(rec, script=e["res"]["script"],
                  expected="no ThreadSanitizer report in OMPL code on the documented thread-safe surface",
                  observed={"summary": e["summary"], "reports": e["count"], "site": e["site"], "member": e["member"],
                            "stderr_tail": e["res"]["err"][-3000:], "build": "tsan"}, engine="conc")
        ck.log("TSan %s: %s (%d report(s))" % (e["kind"], key, e["count"]))
    ck.extra_cov["surface_members"] = [{k: m[k] for k in ("name", "decl_type", "kind", "sites", "unguarded")} for m in members
                                       if not m.get("planner_field")]
    ck.extra_cov["planner_fields"] = [{k: f[k] for k in ("name", "mutex", "workers", "worker_sites", "unguarded", "other_sites")}
                                      for f in fields]
    ck.extra_cov["tsan_suppressed_sites"] = suppressed
    ck.extra_cov["level_note"] = ("proof: interleaving model + extracted access kinds; exploration: every TSan / stress / planner "
                                  "observation (sampled schedules)")
    if not gen_ok and table is not None:
        failed = set(n for n, _ in ck.failed_obligations)
        ck.extra_cov["discharged"] = n_obl - len(failed & set(ck.obligations))
    return 0


def replay(ck, data):
    script = data["script"]
    if not script:
        print("broken obligation (no input): %s" % data.get("obligation"))
        table = shared_access.extract()
        for m in table:
            if m["kind"] == "plain":
                print("  plain: %-50s %s  unguarded at %s" % (m["name"], m["decl_type"], ", ".join(m["unguarded"][:4])))
        return 1 if any(m["kind"] == "plain" for m in table) else 0
    if script[0].startswith("conctrace"):
        ck.lean_build(["drv_conc"])
        evs = (data.get("observed") or {}).get("events_up_to_the_difference") or []
        bad = 0
        if evs and evs[0].startswith("prrt "):
            m, rc2, _ = ck.run_bin(ck.driver("drv_conc"), evs)
            d = core.Check.first_diff(evs[1:], m or [])
            print("recorded log replayed on the model: %s" % ("identical" if d is None else
                  "event %d: real `%s` / model `%s`" % (d, evs[1 + d][:200], (m[d] if m and d < len(m) else "<missing>")[:200])))
        hb = build_trace(ck)
        for attempt in range(5):
            res = run_trace(ck, hb, int(script[0].split()[1]), script[1])
            kind, what, info = judge_trace(script[1], res)
            print("%s\n  -> %s" % (script[1][:160], (res["out"][-1] if res["out"] else "<no output>")[:300]))
            if kind:
                print("PROPERTY FAILS (%s): %s" % (kind, what))
                return 1
        print("no failure on the current tree in 5 attempts")
        return 0
    tsan = (data.get("observed") or {}).get("build") == "tsan"
    binary = build_tsan(ck) if tsan else build_plain(ck)
    op_line = script[1]
    seed = int(script[0].split()[1])
    bad = 0
    for attempt in range(5):    # schedules are not reproducible: try a few times
        res = run_one(ck, binary, seed, op_line, tsan)
        print("%s\n  -> %s" % (op_line[:200], (res["line"] or "<no output>")[:400]))
        if op_line.startswith("planner"):
            what, _ = judge_path(op_line, res["line"])
        else:
            what = judge_surface(op_line, res["line"])
        if what:
            print("PROPERTY FAILS: " + what)
            bad = 1
        if tsan:
            members = shared_access.extract()
            for rep in parse_tsan(res["err"]):
                member, site, in_ompl = attribute(rep, members)
                if member or in_ompl:
                    sup = member is None and benign(site, rep.get("texts", [])) is not None
                    print("TSan %s: member=%s site=%s%s  %s" % (rep["kind"], member, site, " (allowlisted)" if sup else "", rep["summary"][:160]))
                    if not sup:
                        bad = 1
        if bad:
            return 1
    print("no failure on the current tree in 5 attempts")
    return 0


MANIFEST = {
    "engine": "conc",
    "category": "proof",
    "design_ref": "DESIGN.md 2.19",
    "text": "PROOF part: Lean 4 theorems over an interleaving semantics (threads = lists of atomic steps; plain read-modify-write = "
            "two steps, atomic or mutex-guarded = one) quantified over every scheduler: atomic counters end at exactly N*m, plain "
            "counters have a losing schedule for every N>=2,m>=1, guarded solution adds (and adds mixed with clears) are linearizable "
            "while the optimistic split add is not, guarded nextSeed hands out distinct stream positions, a termination request is seen "
            "by every later evaluation (direct and periodic form; the cache-only periodic variant loses it), pRRT's worker loop at lock "
            "granularity keeps 'every tree edge was answered valid' under every interleaving, PRM's repaired solution thread reads "
            "component answer and states from one storage, CForest's solution monitor keeps the best cost monotone and equal to the "
            "minimum reported (check-then-act outside the lock does not). EXTRACTION, regenerated from the current source on every "
            "run: access kind of every shared member of the documented surface (obligation surface_no_plain) and, for the "
            "multi-threaded planners and helpers (CForest, CForestStateSampler, pRRT, pSBL, PRM, AnytimePathShortening, ParallelPlan, "
            "GoalLazySamples: table plannerFields), the lock held at every worker-thread access of every shared field (obligation "
            "planner_fields_guarded), both closed by decide. EXPLORATION part (not a theorem): 2-16 threads hammer each surface in an "
            "ASan/UBSan and a ThreadSanitizer build; directed schedules force specific interleavings by handshake (solrace, "
            "terminate form 2, cfrace: two real CForest instances reporting through newSolutionFound with the worse report held inside "
            "the cost comparison; cfsamplers: a CForest instance held in its lazy sampler registration while another shares solutions, "
            "with a thread polling the progress properties); multi-threaded planners run under schedule perturbation and are judged by "
            "a path oracle (gap form for all, strict form for pRRT/pSBL/CForest/PRM); schedules are sampled. LOCK-STEP REPLAY "
            "(round 10): harness/conc_trace.cpp records real pRRT runs at lock granularity (recording nearest-neighbour structure "
            "under nnLock_, motion validator, goal) and the Lean driver drv_conc replays every log on the very PStep/PStore model "
            "the pRRT theorems are about, with RealVector distance/interpolation, brute-force nearest, range steering, goal test "
            "and solve()'s epilogue (report) executable in Lean: the run must be an execution of the model, bit for bit; an "
            "independent Python oracle re-derives per-worker program order, every concurrent checkMotion answer, every nearest "
            "answer, the motion counters and the report from the log. Further directed ops: prrtrace (all workers pass pRRT's "
            "unlocked pre-check while the harness holds sol->lock), logpark (a handler that parks inside log(): overlap / "
            "stale-handler / order / count oracles for every console entry point; model LStep), rng mode 1 (setSeed after first "
            "use), goallazy (GoalLazySamples: sampling thread, readers, callback addState, stop / restart / destruction), and "
            "for AnytimePathShortening bestCost_ == cheapest stored path (model AStep).",
    "note": "Trusted: Lean kernel and the three standard axioms; the granularity assumption (std::atomic ops and lock scopes are "
            "indivisible; the C++ memory model is not modelled); the regex extractor (errs towards plain/unguarded, cross-checked by "
            "forced lost updates, directed schedules and TSan); TSan (g++ 12 libtsan) and the sampled schedules for everything about "
            "real data races. NAMED LIMITATION of that observer: g++'s TSan pass does not instrument a class-type argument passed by "
            "value straight from memory (e.g. base::Cost members handed to OptimizationObjective::isCostBetterThan: CForest, PRM, "
            "AnytimePathShortening bestCost_), so such reads are invisible to the race detector; cfrace compensates with an "
            "instrumented proxy read at the comparison point, elsewhere only the extraction sees them. Seq_cst counters shared by "
            "all workers (the motion validator's valid_/invalid_ since the F8a fix) order the workers at every motion check and "
            "thereby narrow what TSan can report in planner runs; the harness's own counters are relaxed for that reason. "
            "Allowlisted planner-internal hint races are listed with reasons in checks/c19.py (BENIGN); recorded findings F37, F39, F191.",
    "technique": "Lean 4 proof (induction over schedulers, inductive invariants) + source extraction closed by decide + "
                 "directed schedules + ThreadSanitizer/stress exploration with spec oracles",
}
