"""C11 — the updatable heap always pops in order, whatever was removed or updated.

Obligations: theorems of lean/OmplModel/Props/C11.lean (kernel-checked, audited).
Correspondence: real ompl::BinaryHeap (harness/heap.cpp, compiled from /repo/src) vs the Lean model
(drv_heap) on the same operation scripts, line by line.
Spec oracle (on the implementation's output only): abstract handle->key map, top is a minimum,
position fields in sync, sort() sorted + permutation, final drain in non-decreasing order.
"""
import itertools
import os

from lib import core

DRIVER = "drv_heap"
LEAN_TARGETS = ["OmplModel.Props.C11", DRIVER]
CMPS = ["less", "greater", "div4"]


def lt_of(cmp):
    if cmp == "less":
        return lambda a, b: a // 1024 < b // 1024
    if cmp == "greater":
        return lambda a, b: a // 1024 > b // 1024
    return lambda a, b: a // 4096 < b // 4096


# ---------------------------------------------------------------------------------- generators
class Gen:
    """builds scripts; keys are value*1024 + serial (serial unique within a script)."""

    def __init__(self, rng, cmp, vmax):
        self.rng, self.cmp, self.vmax = rng, cmp, vmax
        self.serial = 0
        self.lines = ["heap cmp=" + cmp]
        self.live = []      # handles believed live (addressable)
        self.next = 0

    def key(self, v=None):
        if v is None:
            v = self.rng.below(self.vmax + 1)
        self.serial = (self.serial + 1) % 1024
        return v * 1024 + self.serial

    def ins(self, v=None):
        self.lines.append("ins %d" % self.key(v))
        self.live.append(self.next)
        self.next += 1

    def insl(self, n):
        ks = [self.key() for _ in range(n)]
        self.lines.append("insl %d %s" % (n, " ".join(map(str, ks))) if n else "insl 0")
        for _ in range(n):
            self.live.append(self.next)
            self.next += 1

    def pick(self):
        return self.rng.choice(self.live)

    def rm(self, h=None):
        if h is None:
            if not self.live or self.rng.chance(1, 20):
                h = self.rng.below(self.next + 2)   # possibly dead / never created
            else:
                h = self.pick()
        self.lines.append("rm %d" % h)
        # the generator does not track pops precisely; `live` is a hint only (dead handles print "dead")
        if h in self.live:
            self.live.remove(h)

    def set(self):
        h = self.pick() if self.live and not self.rng.chance(1, 20) else self.rng.below(self.next + 2)
        self.lines.append("set %d %d" % (h, self.key()))

    def pop(self):
        self.lines.append("pop")

    def top(self):
        self.lines.append("top")

    def build(self, n):
        ks = [self.key() for _ in range(n)]
        self.lines.append(("build %d %s" % (n, " ".join(map(str, ks)))).strip())
        self.live = list(range(self.next, self.next + n))
        self.next += n

    def poke(self, m):
        hs = []
        for _ in range(m):
            if self.live:
                hs.append(self.pick())
        parts = []
        for h in hs:
            parts += [str(h), str(self.key())]
        self.lines.append(("poke %d %s" % (len(parts), " ".join(parts))).strip())

    def sort(self, n):
        ks = [self.key() for _ in range(n)]
        self.lines.append(("sort %d %s" % (n, " ".join(map(str, ks)))).strip())

    def clear(self):
        self.lines.append("clear")
        self.live = []

    def drain(self, n):
        self.lines += ["top", "pop"] * n


def gen_random(rng, nops):
    cmp = rng.choice(CMPS)
    g = Gen(rng, cmp, rng.choice([3, 15, 200, 100000]))
    for _ in range(nops):
        r = rng.below(100)
        if r < 34:
            g.ins()
        elif r < 40:
            g.insl(rng.below(9))
        elif r < 62:
            g.rm()
        elif r < 76:
            g.set()
        elif r < 84:
            g.pop()
        elif r < 88:
            g.top()
        elif r < 91:
            g.build(rng.below(14))
        elif r < 95:
            g.poke(rng.below(5))
        elif r < 98:
            g.sort(rng.below(12))
        else:
            g.clear()
    g.drain(g.next + 2)
    return g.lines


def gen_directed_remove(rng):
    """heaps whose last element belongs under a different subtree than the removed slot and is
    smaller than the hole's parent: the shape where removal must sift *up* (the F1 family)."""
    cmp = rng.choice(["less", "div4"])
    g = Gen(rng, cmp, 0)
    n = rng.range(7, 40)
    # left subtree large keys, right subtree small keys: array index i has path bit pattern
    vals = []
    for i in range(n):
        if i == 0:
            vals.append(0)
            continue
        # top-level subtree: climb to the child of the root
        j = i
        depth = 0
        while (j - 1) // 2 != 0:
            j = (j - 1) // 2
            depth += 1
        base = 1000 if j == 1 else 10
        d = 0
        k = i
        while k:
            k = (k - 1) // 2
            d += 1
        vals.append(base + 40 * d + rng.below(30))
    scale = 4 if cmp == "div4" else 1
    for v in vals:
        g.ins(v * scale)
    # remove elements from the left (large) subtree, deepest first with some randomness
    cand = [i for i in range(1, n)]
    rng.shuffle(cand)
    for h in cand[: rng.range(1, 6)]:
        g.rm(h)
        if rng.chance(1, 3):
            g.top()
    g.drain(n + 1)
    return g.lines


def gen_exhaustive(length):
    """all op sequences of the given length over a small alphabet (values 0..2, handles 0..2)."""
    alpha = ["ins0", "ins1", "ins2", "rm0", "rm1", "rm2", "set0", "set1", "pop", "insl", "build", "poke", "clear"]
    for seq in itertools.product(alpha, repeat=length):
        serial = [0]

        def key(v):
            serial[0] += 1
            return v * 1024 + serial[0]
        lines = ["heap cmp=less"]
        for a in seq:
            if a.startswith("ins") and a != "insl":
                lines.append("ins %d" % key(int(a[3])))
            elif a.startswith("rm"):
                lines.append("rm %s" % a[2])
            elif a == "set0":
                lines.append("set 0 %d" % key(2))
            elif a == "set1":
                lines.append("set 1 %d" % key(0))
            elif a == "pop":
                lines.append("pop")
            elif a == "insl":
                lines.append("insl 3 %d %d %d" % (key(2), key(0), key(1)))
            elif a == "build":
                lines.append("build 4 %d %d %d %d" % (key(2), key(1), key(0), key(1)))
            elif a == "poke":
                lines.append("poke 4 0 %d 1 %d" % (key(2), key(0)))
            elif a == "clear":
                lines.append("clear")
        lines += ["top", "pop"] * 8
        yield lines


# ---------------------------------------------------------------------------------- spec oracle
def parse_dump(s):
    parts = s.split()
    n = int(parts[0][2:])
    arr = []
    for p in parts[1:1 + n]:
        h, k = p.split(":")
        arr.append((None if h == "?" else int(h), int(k)))
    ps = parts[1 + n] if len(parts) > 1 + n else "ps=?"
    return n, arr, ps


def oracle(script, out):
    """abstract-map spec evaluated on the implementation's output lines.
    returns (None | (step, what), internal_disorder_step | None)."""
    cmp = script[0].split("=")[1]
    lt = lt_of(cmp)
    spec = {}
    nxt = 0
    disorder = None
    pops = []          # keys popped by the trailing drain (consecutive pops with no other op between)
    if len(out) < len(script) - 1:
        return (len(out), "implementation stopped early (crash or sanitizer report)"), None
    for i, line in enumerate(script[1:]):
        o = out[i]
        if o == "bad-op":
            return (i, "bad-op on a well-formed line"), disorder
        res, _, dump = o.partition(" | ")
        t = line.split()
        op = t[0]
        before = dict(spec)
        exp = None
        if op == "ins":
            spec[nxt] = int(t[1])
            exp = "h=%d ev=I%d" % (nxt, nxt)
            nxt += 1
        elif op == "insl":
            ks = list(map(int, t[2:]))
            evs = []
            for k in ks:
                spec[nxt] = k
                evs.append("I%d" % nxt)
                nxt += 1
            exp = "ok ev=" + ",".join(evs)
        elif op == "rm":
            h = int(t[1])
            if h in spec:
                del spec[h]
                exp = "ok ev=R%d" % h
            else:
                exp = "dead"
        elif op == "set":
            h = int(t[1])
            if h in spec:
                spec[h] = int(t[2])
                exp = "ok"
            else:
                exp = "dead"
        elif op == "pop":
            exp = "ok" if spec else "empty"
        elif op == "top":
            if not spec:
                exp = "none"
        elif op == "build":
            ks = list(map(int, t[2:]))
            spec = {}
            for k in ks:
                spec[nxt] = k
                nxt += 1
            exp = "ok"
        elif op == "poke":
            pairs = list(map(int, t[2:]))
            hs = pairs[0::2]
            if all(h in spec for h in hs):
                for h, k in zip(hs, pairs[1::2]):
                    spec[h] = k
                exp = "ok"
            else:
                exp = "dead"
        elif op == "sort":
            ks = list(map(int, t[2:]))
            got = list(map(int, res.split()[1:]))
            if sorted(got) != sorted(ks):
                return (i, "sort() result is not a permutation of its input"), disorder
            for a in range(len(got) - 1):
                if lt(got[a + 1], got[a]):
                    return (i, "sort() result out of order at %d" % a), disorder
        elif op == "clear":
            spec = {}
            exp = "ok"
        n, arr, ps = parse_dump(dump)
        if op == "pop" and before:
            gone = [h for h in before if h not in dict(arr)]
            if len(gone) != 1 or n != len(before) - 1:
                return (i, "pop did not remove exactly one element"), disorder
            k = before[gone[0]]
            for h2, k2 in before.items():
                if lt(k2, k):
                    return (i, "pop removed %d (handle %d) although %d is smaller" % (k, gone[0], k2)), disorder
            del spec[gone[0]]
            pops.append(k)
        elif op != "top":
            pops = []
        if op == "top" and spec:
            h, _, k = res.partition(":")
            if not h.isdigit() or int(h) not in spec or spec[int(h)] != int(k):
                return (i, "top is not a live element: " + res), disorder
            for k2 in spec.values():
                if lt(k2, int(k)):
                    return (i, "top %s is not a minimum (%d is smaller)" % (res, k2)), disorder
        if exp is not None and res != exp:
            return (i, "result %r, the abstract heap says %r" % (res, exp)), disorder
        if n != len(spec) or n != len(arr):
            return (i, "size %d but %d live elements" % (n, len(spec))), disorder
        if sorted((h, k) for h, k in arr if h is not None) != sorted(spec.items()) or any(h is None for h, _ in arr):
            return (i, "contents differ from the live handle->key map"), disorder
        if ps != "ps=1":
            return (i, "an element's position field does not equal its index"), disorder
        # consecutive pops must come out in non-decreasing order
        for a in range(len(pops) - 1):
            if lt(pops[a + 1], pops[a]):
                return (i, "popped %d after %d" % (pops[a + 1], pops[a])), disorder
        if disorder is None:
            for j in range(1, n):
                if lt(arr[j][1], arr[(j - 1) // 2][1]):
                    disorder = i
                    break
    return None, disorder


# ---------------------------------------------------------------------------------- the check
def run_script(ck, hbin, script):
    impl, rc, err, model = ck.run_pair(hbin, DRIVER, script)
    return impl or [], rc, err, model


def judge(ck, hbin, script, tag):
    """returns True if everything is fine for this script."""
    impl, rc, err, model = run_script(ck, hbin, script)
    ck.traces_validated += 1
    nontrivial = False
    sizes = 0
    for ln, o in zip(script[1:], impl):
        if ln.startswith(("rm", "set")) and o.startswith("ok") and " | n=" in o:
            n = int(o.split(" | n=")[1].split()[0])
            sizes = max(sizes, n)
            if n >= 4:
                nontrivial = True
    ck.case(tuple(script), nontrivial)
    ck.count("scripts:" + tag)
    ck.count("ops", len(script) - 1)
    for ln in script[1:]:
        ck.count("op:" + ln.split()[0])
    ck.sample({"generator": tag, "script": script[:12] + (["…(%d more lines)" % (len(script) - 12)] if len(script) > 12 else [])})
    fail, disorder = oracle(script, impl)
    if rc not in (0,) and fail is None:
        fail = (len(impl), "harness exited with code %s: %s" % (rc, (err or "")[-400:]))
    d = ck.first_diff(impl, model)
    if fail is None and disorder is not None:
        # targeted search: the array is not heap-ordered after step `disorder` (some child is smaller
        # than its parent).  Look for a continuation whose pops come out of order: drain right there,
        # then drain after removing random subsets of the other elements.
        n, arr, _ps = parse_dump(impl[disorder].partition(" | ")[2])
        lt = lt_of(script[0].split("=")[1])
        keep = set()
        for j in range(1, n):
            if lt(arr[j][1], arr[(j - 1) // 2][1]):
                keep |= {arr[j][0], arr[(j - 1) // 2][0]}
        others = [h for h, _ in arr if h not in keep and h is not None]
        r = ck.rng.fork("search%d" % ck.traces_validated)
        for attempt in range(120):
            cont = []
            if attempt:
                sub = [h for h in others if r.chance(1, 2)]
                r.shuffle(sub)
                cont = ["rm %d" % h for h in sub]
            pre = script[:disorder + 2] + cont + ["top", "pop"] * (n + 1)
            impl2, rc2, err2, _ = run_script(ck, hbin, pre)
            ck.count("search:continuations-tried")
            f2, _ = oracle(pre, impl2)
            if f2 is not None:
                script, impl, fail = pre, impl2, f2
                model = ck.run_bin(ck.driver(DRIVER), script)[0]
                break
    if fail is not None:
        def still(lines):
            s = [script[0]] + lines
            o, r, e, _m = run_script(ck, hbin, s)
            f, _ = oracle(s, o)
            return f is not None or r != 0
        small = [script[0]] + core.ddmin(script[1:], still)
        o, r, e, m = run_script(ck, hbin, small)
        f, _ = oracle(small, o)
        what = f[1] if f else fail[1]
        ck.report({"engine": "heap", "what": what, "cmp": script[0]}, script=small, expected=m, observed=o, engine="heap")
        ck.log("property failure: %s (script of %d ops after shrinking)" % (what, len(small) - 1))
        return False
    if d is not None:
        ck.disagreements += 1
        def still(lines):
            s = [script[0]] + lines
            o, r, e, m = run_script(ck, hbin, s)
            return ck.first_diff(o, m) is not None
        small = [script[0]] + core.ddmin(script[1:], still)
        o, r, e, m = run_script(ck, hbin, small)
        ck.report({"engine": "heap", "what": "model/implementation disagreement"}, script=small, expected=m, observed=o,
                  found_input=False, engine="heap",
                  obligation="correspondence heap: BinaryHeap.h vs OmplModel.Model.Heap (first differing line %s)" % ck.first_diff(o, m))
        ck.log("correspondence disagreement at line %d; no property failure found by the drain search" % d)
        return False
    return True


def corpus():
    d = os.path.join(core.VERIF, "corpus", "C11")
    out = []
    if os.path.isdir(d):
        for f in sorted(os.listdir(d)):
            if f.endswith(".txt"):
                out.append((f, [l.rstrip("\n") for l in open(os.path.join(d, f)) if l.strip()]))
    return out


def setup(ck):
    ck.build_harness("heap", ["heap.cpp"])


def run(ck):
    ck.rule = ("scripts of heap operations (corpus, random mixes, directed interior removals, exhaustive short "
               "sequences in the thorough tier), each ending in a full drain; a script is non-trivial if it removes or "
               "re-keys an element while the heap holds >= 4 elements; distinct by script text")
    ck.trusted += ["harness/heap.cpp opens `private` of BinaryHeap.h for its own translation unit to read vector_ and position",
                   "model abstractions: swap-based sifting instead of hole-moving, handle lookup instead of the position field"]
    ck.assumptions += ["the comparison functor is a strict weak order (C++'s own requirement)",
                       "pop()/top() on an empty heap and use of a dead handle are outside the API contract and not exercised on the real code"]
    ck.lean_build(LEAN_TARGETS)
    ck.audit(roots=["Drv.Heap"])
    if ck.tier == "thorough" and ck.lean_ok:
        ck.leanchecker(["OmplModel.Props.C11"])
    hbin = ck.build_harness("heap", ["heap.cpp"])
    bad = 0
    for name, script in corpus():
        if not judge(ck, hbin, script, "corpus"):
            bad += 1
    nrand, ndir = (250, 250) if ck.tier == "quick" else (1500, 1500)
    for i in range(nrand):
        if bad >= 3:
            break
        r = ck.rng.fork("rand%d" % i)
        if not judge(ck, hbin, gen_random(r, r.choice([10, 40, 150, 400])), "random"):
            bad += 1
    for i in range(ndir):
        if bad >= 3:
            break
        if not judge(ck, hbin, gen_directed_remove(ck.rng.fork("dir%d" % i)), "directed-remove"):
            bad += 1
    if ck.tier == "thorough" and bad == 0:
        n = 0
        for L in (1, 2, 3):
            for script in gen_exhaustive(L):
                n += 1
                if not judge(ck, hbin, script, "exhaustive-len%d" % L):
                    bad += 1
                    break
        ck.extra_cov["exhaustive_sequences"] = n
    return 0


def replay(ck, data):
    hbin = ck.build_harness("heap", ["heap.cpp"])
    ck.lean_build([DRIVER])
    script = data["script"]
    impl, rc, err, model = run_script(ck, hbin, script)
    fail, disorder = oracle(script, impl)
    d = ck.first_diff(impl, model)
    for i, ln in enumerate(script[1:]):
        print("%-40s impl: %s" % (ln, impl[i] if i < len(impl) else "<missing>"))
        if i < len(model) and (i >= len(impl) or impl[i] != model[i]):
            print("%-40s model: %s" % ("", model[i]))
    if fail:
        print("PROPERTY FAILS at op %d: %s" % fail)
        return 1
    if d is not None:
        print("model and implementation disagree at line %d (no property failure in this script)" % d)
        return 1
    print("no failure on the current tree")
    return 0


MANIFEST = {
    "engine": "heap",
    "category": "proof",
    "design_ref": "DESIGN.md 2.11",
    "text": "Lean 4 theorems over an executable model of BinaryHeap (heap order and contents preserved by every operation "
            "for every finite operation sequence, every key multiset and every strict weak order; top is a minimum; draining "
            "yields a sorted permutation), tied to BinaryHeap.h by line-by-line differential runs of the real template against "
            "the compiled model, plus an abstract-map oracle on the implementation's own outputs.",
    "note": "Trusted: Lean kernel, the three standard axioms, the hand-written model outside the scripts the correspondence "
            "explored, the harness. The comparison functor is assumed to be a strict weak order; pop/top on an empty heap and dead "
            "handles are outside the contract.",
    "technique": "Lean 4 proof (invariant by induction over operations, refinement to a handle->key map) + differential correspondence",
}
